/-
SETCARD — the cardinality law that pyvc assumes for a set comprehension `{f x for x in l}` (pyvc/expr.py, ev_SetComp):

  * |{f x | x ∈ l}| ≤ len l
  * |{f x | x ∈ l}| = len l  ↔  no element occurs twice in l  ∧  f is injective on the members of l

Checked by `lean lemmas/SetCard.lean` (Lean 4 + Mathlib, offline).
-/
import Mathlib.Data.List.Nodup
import Mathlib.Data.Finset.Card
import Mathlib.Data.Multiset.Basic

open List

variable {α β : Type} [DecidableEq β]

theorem setcard_le (f : α → β) (l : List α) : ((l.map f).toFinset).card ≤ l.length := by
  have h := List.toFinset_card_le (l.map f)
  simpa using h

theorem setcard_eq_iff (f : α → β) (l : List α) :
    ((l.map f).toFinset).card = l.length ↔ (l.Nodup ∧ ∀ x ∈ l, ∀ y ∈ l, f x = f y → x = y) := by
  constructor
  · intro h
    have hn : (l.map f).Nodup := by
      have h2 : ((l.map f).toFinset).card = (l.map f).length := by simpa using h
      have h3 : (Multiset.toFinset (↑(l.map f) : Multiset β)).card = Multiset.card (↑(l.map f) : Multiset β) := by
        simpa using h2
      exact Multiset.coe_nodup.mp (Multiset.toFinset_card_eq_card_iff_nodup.mp h3)
    have hl : l.Nodup := List.Nodup.of_map f hn
    refine ⟨hl, ?_⟩
    intro x hx y hy hxy
    exact List.inj_on_of_nodup_map hn hx hy hxy
  · rintro ⟨hl, hinj⟩
    have hn : (l.map f).Nodup := (List.nodup_map_iff_inj_on hl).mpr hinj
    have := List.toFinset_card_of_nodup hn
    simpa using this
