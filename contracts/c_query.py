"""Contracts for maltoolbox/attackgraph/query.py (C12; DESIGN.md A.3)."""
from __future__ import annotations
import z3
from pyvc.theory import *
from pyvc.contract import *
from .graph_spec import *

MQ = 'maltoolbox.attackgraph.query'


def trav(h: H, c, a):
    """the property's definition: viable and (or-step, or and-step all of whose necessary parents a has compromised)"""
    p = A('p!tr')
    allp = FA([p], z3.Implies(z3.And(pa(h, c, p) > 0, h.f('is_necessary', p)), cb(h, p, a) > 0), [pa(h, c, p)])
    ty = h.f('type', c)
    return z3.And(h.f('is_viable', c), z3.Or(ty == str_const('or'), z3.And(ty == str_const('and'), allp)))


def old_lists_unchanged(c):
    """lists allocated before the call are untouched (the accumulators are fresh)"""
    l = A('l!ol')
    return z3.And(
        FA([l], z3.Implies(l < c.old.alloc, c.h.bagof(l) == c.old.bagof(l)), [c.h.bagof(l)]),
        FA([l], z3.Implies(l < c.old.alloc, c.h.len(l) == c.old.len(l)), [c.h.len(l)]),
        FA([l], z3.Implies(l < c.old.alloc, z3.Select(c.h.arr['L_at'], l) == z3.Select(c.old.arr['L_at'], l)),
           [z3.Select(c.h.arr['L_at'], l)]))


def install(reg: Registry):
    # ---- is_node_traversable_by_attacker
    def inv0(c: LCtx):
        h, a = c.h, c.attacker
        p = A('p!i')
        return [('no-blocking-parent-so-far',
                 FA([p], z3.Implies(z3.And(z3.Select(c.done, VRef(p)) > 0, h.f('is_necessary', p)), cb(h, p, a) > 0),
                    [z3.Select(c.done, VRef(p))]))]
    reg.add(Contract(MQ + ':is_node_traversable_by_attacker', {'node': Obj(NODE), 'attacker': Obj(ATT)}, returns=T.bool,
                     pure=True, ensures=lambda c: [('def', c.res == trav(c.old, c.node, c.attacker))],
                     loops={0: LoopSpec(inv0)}, props=('C12',)))

    # ---- get_attack_surface
    def surface_member(h, done_r, a, x, cur=None, done_c=None):
        """x is a traversable child of some step in done_r (or of the current step, among done_c)"""
        r = A('r!s')
        ex1 = z3.Exists([r], z3.And(z3.Select(done_r, VRef(r)) > 0, ch(h, r, x) > 0))
        parts = [ex1]
        if cur is not None:
            parts.append(z3.Select(done_c, VRef(x)) > 0)
        return z3.And(z3.Or(*parts), trav(h, x, a))

    def gas_inv_outer(c: LCtx):
        acc = c.ret().t
        x = A('x!g')
        h0 = c.old
        return [
            ('fresh', z3.And(acc >= c.old.alloc, acc < c.h.alloc)),
            ('old-lists', old_lists_unchanged(c)),
            ('nodup', FA([x], z3.And(c.h.cnt(acc, x) <= 1, c.h.cnt(acc, x) >= 0), [c.h.cnt(acc, x)])),
            ('elems', FA([z3.Const('v!g', Val)], z3.Implies(c.h.bag(acc, z3.Const('v!g', Val)) > 0, is_VRef(z3.Const('v!g', Val))),
                         [c.h.bag(acc, z3.Const('v!g', Val))])),
            ('members', FA([x], (c.h.cnt(acc, x) > 0) == surface_member(h0, c.done, c.attacker, x), [c.h.cnt(acc, x)])),
        ]

    def gas_inv_inner(c: LCtx):
        acc = c.ret().t
        x = A('x!g')
        h0 = c.old
        o = c.outer
        return [
            ('fresh', z3.And(acc >= c.old.alloc, acc < c.h.alloc)),
            ('old-lists', old_lists_unchanged(c)),
            ('nodup', FA([x], z3.And(c.h.cnt(acc, x) <= 1, c.h.cnt(acc, x) >= 0), [c.h.cnt(acc, x)])),
            ('elems', FA([z3.Const('v!g', Val)], z3.Implies(c.h.bag(acc, z3.Const('v!g', Val)) > 0, is_VRef(z3.Const('v!g', Val))),
                         [c.h.bag(acc, z3.Const('v!g', Val))])),
            ('members', FA([x], (c.h.cnt(acc, x) > 0) == surface_member(h0, o.done, c.attacker, x, cur=True, done_c=c.done),
                           [c.h.cnt(acc, x)])),
        ]

    def gas_ensures(c):
        x, r = A('x!e'), A('r!e')
        R = c.res
        a = c.attacker
        o = c.old
        return [
            ('fresh', R >= o.alloc),
            ('nodup', FA([x], c.h.cnt(R, x) <= 1, [c.h.cnt(R, x)])),
            ('members', FA([x], (c.h.cnt(R, x) > 0) == z3.And(
                z3.Exists([r], z3.And(reached(o, a, r) > 0, ch(o, r, x) > 0)), trav(o, x, a)), [c.h.cnt(R, x)])),
            ('old-lists', old_lists_unchanged(c)),
        ]

    def trav_hint(c):
        """the callee's answer, restated over the caller's entry heap (frame: only fresh lists were written)"""
        h0 = c.extra['caller_h0']
        p = A('p!th')
        P = h0.f('parents', c.node)
        return [('node-old', c.node < h0.alloc),
                ('parents-same', c.old.bagof(P) == h0.bagof(P)),
                ('cb-same', FA([p], z3.Implies(pa(h0, c.node, p) > 0, c.old.bagof(h0.f('compromised_by', p)) == h0.bagof(h0.f('compromised_by', p))),
                               [pa(h0, c.node, p)])),
                ('trav-frame', trav(c.old, c.node, c.attacker) == trav(h0, c.node, c.attacker))]

    reg.add(Contract(MQ + ':get_attack_surface', {'attacker': Obj(ATT)}, returns=List(Obj(NODE)),
                     ensures=gas_ensures, modifies=LIST_ARRAYS + ('cls', 'own_obj'), allocates=True,
                     loops={0: LoopSpec(gas_inv_outer), 1: LoopSpec(gas_inv_inner)},
                     call_lemmas={'is_node_traversable_by_attacker': trav_hint}, props=('C12',)))
