"""Contracts for maltoolbox/attackgraph/query.py (C12; DESIGN.md A.3)."""
from __future__ import annotations
import z3
from pyvc.theory import *
from pyvc.contract import *
from .graph_spec import *

MQ = 'maltoolbox.attackgraph.query'


def trav(h: H, c, a):
    """the property's definition: viable and (or-step, or and-step all of whose necessary parents a has compromised)"""
    p = A('p!tr')
    allp = FA([p], z3.Implies(z3.And(pa(h, c, p) > 0, h.f('is_necessary', p)), cb(h, p, a) > 0), [pa(h, c, p)])
    ty = h.f('type', c)
    return z3.And(h.f('is_viable', c), z3.Or(ty == str_const('or'), z3.And(ty == str_const('and'), allp)))


def old_lists_unchanged(c):
    """lists allocated before the call are untouched (the accumulators are fresh)"""
    l = A('l!ol')
    return z3.And(
        FA([l], z3.Implies(l < c.old.alloc, c.h.bagof(l) == c.old.bagof(l)), [c.h.bagof(l)]),
        FA([l], z3.Implies(l < c.old.alloc, c.h.len(l) == c.old.len(l)), [c.h.len(l)]),
        FA([l], z3.Implies(l < c.old.alloc, z3.Select(c.h.arr['L_at'], l) == z3.Select(c.old.arr['L_at'], l)),
           [z3.Select(c.h.arr['L_at'], l)]))


def install(reg: Registry):
    # ---- is_node_traversable_by_attacker
    def inv0(c: LCtx):
        h, a = c.h, c.attacker
        p = A('p!i')
        return [('no-blocking-parent-so-far',
                 FA([p], z3.Implies(z3.And(z3.Select(c.done, VRef(p)) > 0, h.f('is_necessary', p)), cb(h, p, a) > 0),
                    [z3.Select(c.done, VRef(p))]))]
    reg.add(Contract(MQ + ':is_node_traversable_by_attacker', {'node': Obj(NODE), 'attacker': Obj(ATT)}, returns=T.bool,
                     pure=True, ensures=lambda c: [('def', c.res == trav(c.old, c.node, c.attacker))],
                     loops={0: LoopSpec(inv0)}, props=('C12',)))

    # ---- get_attack_surface
    def surface_member(h, done_r, a, x, cur=None, done_c=None):
        """x is a traversable child of some step in done_r (or of the current step, among done_c)"""
        r = A('r!s')
        ex1 = z3.Exists([r], z3.And(z3.Select(done_r, VRef(r)) > 0, ch(h, r, x) > 0))
        parts = [ex1]
        if cur is not None:
            parts.append(z3.Select(done_c, VRef(x)) > 0)
        return z3.And(z3.Or(*parts), trav(h, x, a))

    def gas_inv_outer(c: LCtx):
        acc = c.ret().t
        x = A('x!g')
        h0 = c.old
        return [
            ('fresh', z3.And(acc >= c.old.alloc, acc < c.h.alloc)),
            ('old-lists', old_lists_unchanged(c)),
            ('nodup', FA([x], z3.And(c.h.cnt(acc, x) <= 1, c.h.cnt(acc, x) >= 0), [c.h.cnt(acc, x)])),
            ('elems', FA([z3.Const('v!g', Val)], z3.Implies(c.h.bag(acc, z3.Const('v!g', Val)) > 0, is_VRef(z3.Const('v!g', Val))),
                         [c.h.bag(acc, z3.Const('v!g', Val))])),
            ('members', FA([x], (c.h.cnt(acc, x) > 0) == surface_member(h0, c.done, c.attacker, x), [c.h.cnt(acc, x)])),
        ]

    def gas_inv_inner(c: LCtx):
        acc = c.ret().t
        x = A('x!g')
        h0 = c.old
        o = c.outer
        return [
            ('fresh', z3.And(acc >= c.old.alloc, acc < c.h.alloc)),
            ('old-lists', old_lists_unchanged(c)),
            ('nodup', FA([x], z3.And(c.h.cnt(acc, x) <= 1, c.h.cnt(acc, x) >= 0), [c.h.cnt(acc, x)])),
            ('elems', FA([z3.Const('v!g', Val)], z3.Implies(c.h.bag(acc, z3.Const('v!g', Val)) > 0, is_VRef(z3.Const('v!g', Val))),
                         [c.h.bag(acc, z3.Const('v!g', Val))])),
            ('members', FA([x], (c.h.cnt(acc, x) > 0) == surface_member(h0, o.done, c.attacker, x, cur=True, done_c=c.done),
                           [c.h.cnt(acc, x)])),
        ]

    def gas_ensures(c):
        x, r = A('x!e'), A('r!e')
        R = c.res
        a = c.attacker
        o = c.old
        return [
            ('fresh', R >= o.alloc),
            ('nodup', FA([x], c.h.cnt(R, x) <= 1, [c.h.cnt(R, x)])),
            ('members', FA([x], (c.h.cnt(R, x) > 0) == z3.And(
                z3.Exists([r], z3.And(reached(o, a, r) > 0, ch(o, r, x) > 0)), trav(o, x, a)), [c.h.cnt(R, x)])),
            ('old-lists', old_lists_unchanged(c)),
        ]

    def trav_hint(c):
        """the callee's answer, restated over the caller's entry heap (frame: only fresh lists were written)"""
        h0 = c.extra['caller_h0']
        p = A('p!th')
        P = h0.f('parents', c.node)
        return [('node-old', c.node < h0.alloc),
                ('parents-same', c.old.bagof(P) == h0.bagof(P)),
                ('cb-same', FA([p], z3.Implies(pa(h0, c.node, p) > 0, c.old.bagof(h0.f('compromised_by', p)) == h0.bagof(h0.f('compromised_by', p))),
                               [pa(h0, c.node, p)])),
                ('trav-frame', trav(c.old, c.node, c.attacker) == trav(h0, c.node, c.attacker))]

    reg.add(Contract(MQ + ':get_attack_surface', {'attacker': Obj(ATT)}, returns=List(Obj(NODE)),
                     ensures=gas_ensures, modifies=LIST_ARRAYS + ('cls', 'own_obj'), allocates=True,
                     loops={0: LoopSpec(gas_inv_outer), 1: LoopSpec(gas_inv_inner)},
                     call_lemmas={'is_node_traversable_by_attacker': trav_hint}, props=('C12',)))


def install_more(reg: Registry):
    from pyvc.theory import H
    # ---- update_attack_surface_add_nodes
    def upd_requires(c):
        h, G = c.old, c.G
        S, Nl = c.current_attack_surface, c.nodes
        x = A('x!u')
        return [('wf.' + nm, f) for nm, f in wf_graph(h, G, parts=('W0', 'W3'))] + [
            ('attacker-in-G', is_att(h, G, c.attacker)),
            ('nodes-in-G', FA([x], z3.Implies(h.cnt(Nl, x) > 0, is_node(h, G, x)), [h.cnt(Nl, x)])),
            ('surface-unowned', h.own_obj(S) == -1),            # the list handed in is not graph state
            ('surface-not-nodes', S != Nl),
            ('surface-elems', FA([z3.Const('v!u', Val)], z3.And(h.bag(S, z3.Const('v!u', Val)) >= 0,
                                 z3.Implies(h.bag(S, z3.Const('v!u', Val)) > 0, is_VRef(z3.Const('v!u', Val)))), [h.bag(S, z3.Const('v!u', Val))])),
        ]

    def upd_member(h0, S0bag, done_r, a, x, done_c=None):
        r = A('r!u')
        parts = [z3.Exists([r], z3.And(z3.Select(done_r, VRef(r)) > 0, ch(h0, r, x) > 0))]
        if done_c is not None:
            parts.append(z3.Select(done_c, VRef(x)) > 0)
        return z3.Or(z3.Select(S0bag, VRef(x)) > 0, z3.And(z3.Or(*parts), trav(h0, x, a)))

    def upd_inv(inner):
        def inv(c: LCtx):
            o, h = c.old, c.h
            S = c.current_attack_surface
            x = A('x!ui')
            v = z3.Const('v!ui', Val)
            dr = c.outer.done if inner else c.done
            dc = c.done if inner else None
            return [
                ('alias', c.ret().t == S),
                ('frame', lists_unchanged_except(o, h, [S])),
                ('members', FA([x], (h.cnt(S, x) > 0) == upd_member(o, o.bagof(S), dr, c.attacker, x, dc), [h.cnt(S, x)])),
                ('nodup', z3.Implies(FA([x], o.cnt(S, x) <= 1, [o.cnt(S, x)]), FA([x], h.cnt(S, x) <= 1, [h.cnt(S, x)]))),
                ('elems', FA([v], z3.And(h.bag(S, v) >= 0, z3.Implies(h.bag(S, v) > 0, is_VRef(v))), [h.bag(S, v)])),
            ]
        return inv

    def upd_ensures(c):
        o, h = c.old, c.h
        S, Nl, a = c.current_attack_surface, c.nodes, c.attacker
        x, r = A('x!ue'), A('r!ue')
        return [
            ('returns-its-argument', c.res == S),
            ('frame', lists_unchanged_except(o, h, [S])),
            ('members', FA([x], (h.cnt(S, x) > 0) == z3.Or(o.cnt(S, x) > 0, z3.And(
                z3.Exists([r], z3.And(o.cnt(Nl, r) > 0, ch(o, r, x) > 0)), trav(o, x, a))), [h.cnt(S, x)])),
            ('nodup', z3.Implies(FA([x], o.cnt(S, x) <= 1, [o.cnt(S, x)]), FA([x], h.cnt(S, x) <= 1, [h.cnt(S, x)]))),
        ]

    def trav_hint_upd(c):
        h0 = c.extra['caller_h0']
        S = c.extra['ex'].args['current_attack_surface'].t
        p = A('p!tu')
        P = h0.f('parents', c.node)
        G = c.extra['ex'].ghosts['G']
        return [('node-in-G', is_node(h0, G, c.node)),
                ('parents-not-S', P != S),
                ('parents-same', c.old.bagof(P) == h0.bagof(P)),
                ('cb-same', FA([p], z3.Implies(pa(h0, c.node, p) > 0, c.old.bagof(h0.f('compromised_by', p)) == h0.bagof(h0.f('compromised_by', p))),
                               [pa(h0, c.node, p)])),
                ('trav-frame', trav(c.old, c.node, c.attacker) == trav(h0, c.node, c.attacker))]

    reg.add(Contract(MQ + ':update_attack_surface_add_nodes',
                     {'attacker': Obj(ATT), 'current_attack_surface': List(Obj(NODE)), 'nodes': List(Obj(NODE))},
                     returns=List(Obj(NODE)), ghosts={'G': Addr}, requires=upd_requires, ensures=upd_ensures,
                     modifies=LIST_ARRAYS, loops={0: LoopSpec(upd_inv(False)), 1: LoopSpec(upd_inv(True))},
                     call_lemmas={'is_node_traversable_by_attacker': trav_hint_upd}, props=('C12',)))

    # ---- get_defense_surface / get_enabled_defenses
    from .c_node_attacker import MN

    def def_ensures(want):
        def ens(c):
            o, h, G = c.old, c.h, c.graph
            R = c.res
            x = A('x!d')
            st = lambda n: o.f('defense_status', n)
            is_one = lambda n: z3.Or(z3.And(is_VReal(st(n)), v_r(st(n)) == 1), z3.And(is_VInt(st(n)), v_i(st(n)) == 1))
            sup = lambda n: o.bag(o.f('tags', n), VStr(str_const('suppress'))) > 0
            sel = lambda n: z3.And(o.f('type', n) == str_const('defense'), z3.Not(sup(n)), is_one(n) if want else z3.Not(is_one(n)))
            return [('fresh', R >= o.alloc),
                    ('members', FA([x], h.cnt(R, x) == z3.If(z3.And(is_node(o, G, x), sel(x)), o.cnt(nodes_l(o, G), x), 0), [h.cnt(R, x)])),
                    ('old-lists', old_lists_unchanged(c))]
        return ens
    for fn, want in (('get_defense_surface', False), ('get_enabled_defenses', True)):
        reg.add(Contract(MQ + ':' + fn, {'graph': Obj(GRAPH)}, returns=List(Obj(NODE)), ensures=def_ensures(want),
                         modifies=LIST_ARRAYS + ('cls', 'own_obj'), allocates=True, props=('C12',)))

    # ---- lemma INC: extending a previously computed surface == recomputing it (over the two contracts' posts)
    def lemma_inc(reg):
        h1 = H.fresh(reg.schema, 'inc1')
        h2 = H.fresh(reg.schema, 'inc2')
        G, a = z3.Const('G!inc', Addr), z3.Const('a!inc', Addr)
        Sbag = z3.Const('S!inc', BagSort)           # bag of the surface computed in state 1 (get_attack_surface post)
        Ubag = z3.Const('U!inc', BagSort)           # bag after update_attack_surface_add_nodes in state 2
        Nbag = z3.Const('N!inc', BagSort)           # the newly compromised nodes
        x, r, p, b = A('x!inc'), A('r!inc'), A('p!inc'), A('b!inc')
        inN = lambda n: z3.Select(Nbag, VRef(n)) > 0
        hyps = [f for _, f in wf_graph(h1, G, parts=('W0', 'W3'))] + [f for _, f in wf_graph(h2, G, parts=('W0', 'W3'))] + [
            is_att(h1, G, a), is_att(h2, G, a),
            # state 2 = state 1 after the attacker compromised exactly the nodes N (Attacker.compromise posts):
            FA([x], is_node(h2, G, x) == is_node(h1, G, x), [is_node(h2, G, x)]),
            h2.arr['f_is_viable'] == h1.arr['f_is_viable'], h2.arr['f_is_necessary'] == h1.arr['f_is_necessary'],
            h2.arr['f_type'] == h1.arr['f_type'],
            FA([x, p], z3.Implies(is_node(h1, G, x), pa(h2, x, p) == pa(h1, x, p)), [pa(h2, x, p), pa(h1, x, p)]),
            FA([x, p], z3.Implies(is_node(h1, G, x), ch(h2, x, p) == ch(h1, x, p)), [ch(h2, x, p), ch(h1, x, p)]),
            FA([x], z3.Implies(reached(h2, a, x) > 0, is_node(h1, G, x)), [reached(h2, a, x)]),
            FA([x], z3.Implies(is_node(h1, G, x), (reached(h2, a, x) > 0) == z3.Or(reached(h1, a, x) > 0, inN(x))), [reached(h2, a, x)]),
            FA([x], z3.Implies(is_node(h1, G, x), (cb(h2, x, a) > 0) == z3.Or(cb(h1, x, a) > 0, inN(x))), [cb(h2, x, a), cb(h1, x, a)]),
            FA([x], z3.Implies(inN(x), is_node(h1, G, x)), [z3.Select(Nbag, VRef(x))]),
            FA([x], z3.Implies(reached(h1, a, x) > 0, is_node(h1, G, x)), [reached(h1, a, x)]),
            # S is the surface of state 1 (post of get_attack_surface)
            FA([x], (z3.Select(Sbag, VRef(x)) > 0) == z3.And(z3.Exists([r], z3.And(reached(h1, a, r) > 0, ch(h1, r, x) > 0)), trav(h1, x, a)),
               [z3.Select(Sbag, VRef(x))]),
            # U is the post of update_attack_surface_add_nodes(a, S, N) in state 2
            FA([x], (z3.Select(Ubag, VRef(x)) > 0) == z3.Or(z3.Select(Sbag, VRef(x)) > 0, z3.And(
                z3.Exists([r], z3.And(inN(r), ch(h2, r, x) > 0)), trav(h2, x, a))), [z3.Select(Ubag, VRef(x))]),
        ]
        xs = z3.Const('xs!inc', Addr)
        recomputed = z3.And(z3.Exists([r], z3.And(reached(h2, a, r) > 0, ch(h2, r, xs) > 0)), trav(h2, xs, a))
        return [('sound', hyps + [z3.Select(Ubag, VRef(xs)) > 0], recomputed),
                ('complete', hyps + [recomputed], z3.Select(Ubag, VRef(xs)) > 0)]
    reg.add_lemma('INC.incremental-surface-equals-recomputed', ('C12',), lemma_inc)


_install0 = install


def install(reg: Registry):
    _install0(reg)
    install_more(reg)
