"""Contract of MalCompiler.compile against an assumed contract of the ANTLR runtime (C17; DESIGN.md §4 C17, §2.11 ANTLR)."""
from __future__ import annotations
import z3
from pyvc.theory import *
from pyvc.contract import *
from .graph_spec import A, FA

MC = 'maltoolbox.language.compiler'
LexErr = z3.Function('LexErr', Str, z3.BoolSort())        # the file at this path contains characters that are no MAL token
ParseErr = z3.Function('ParseErr', Str, z3.BoolSort())    # the token stream of the file violates the grammar
Tail = z3.Function('Tail', Str, z3.BoolSort())            # the parser stops in front of input that starts no declaration
IncErr = z3.Function('IncErr', Str, z3.BoolSort())        # some file it includes (transitively) is malformed
TreePath = z3.Function('TreePath', Addr, Str)
join = z3.Function('os_path_join', Str, Str, Str)
dirname = z3.Function('os_path_dirname', Str, Str)
basename = z3.Function('os_path_basename', Str, Str)
isabs = z3.Function('os_path_isabs', Str, z3.BoolSort())
RAISING = '_RaisingErrorListener'


def malformed(p):
    return z3.Or(LexErr(p), ParseErr(p), Tail(p), IncErr(p))


def has_raising(h: H, L):
    v = z3.Const('v!hr', Val)
    return z3.Exists([v], z3.And(h.bag(L, v) > 0, is_VRef(v), h.cls(v_a(v)) == class_id(RAISING)))


def install(reg: Registry):
    s = reg.schema
    s.add_class('MalCompiler', {'path': T('str', opt=True), 'current_file': T('str', opt=True)})
    s.add_class('FileStream', {'fpath': T.str})
    s.add_class('malLexer', {'lsrc': Obj('FileStream'), 'llisteners': List(T.val)})
    s.add_class('CommonTokenStream', {'tlexer': Obj('malLexer')})
    s.add_class('malParser', {'pstream': Obj('CommonTokenStream'), 'plisteners': List(T.val)})
    s.add_class('Token', {'type': T.int, 'line': T.int, 'column': T.int, 'text': T.str})
    s.add_class(RAISING, {'malfile': T.str})
    s.add_class('malVisitor', {'compiler': Obj('MalCompiler')})
    s.add_class('ParseTree', {})
    for cn, mod in (('MalCompiler', MC), ('FileStream', None), ('malLexer', None), ('CommonTokenStream', None), ('malParser', None),
                    ('Token', None), (RAISING, MC), ('malVisitor', None), ('ParseTree', None)):
        reg.classes[cn] = ClassInfo(cn, mod, False)
    reg.class_consts['Token'] = {'EOF': sv_int(-1)}
    reg.add_exception('MalSyntaxError')
    OBJ = ('cls', 'own_obj')

    def T_(key, params, **kw):
        c = Contract(key, params, trusted=True, **kw)
        reg.add(c)
        return c

    # ---------------- ANTLR (assumed; never verified; exercised by the C17 floor with counting listeners)
    T_('antlr4:FileStream.__init__', {'self': Obj('FileStream'), 'fileName': T.str, 'encoding': T.str},
       ensures=lambda c: [('path', c.h.f('fpath', c.self) == c.fileName)], modifies=('f_fpath',))
    for cls, fld, src_f, src_cls in (('malLexer', 'llisteners', 'lsrc', 'FileStream'), ('malParser', 'plisteners', 'pstream', 'CommonTokenStream')):
        def mk(cls, fld, src_f, src_cls):
            def init_ens(c):
                h, o = c.h, c.old
                L = h.f(fld, c.self)
                v = z3.Const('v!in', Val)
                return [('source', h.f(src_f, c.self) == c.input),
                        ('console-listener-only', z3.And(L >= o.alloc, L < h.alloc, h.cls(L) == CLS_LIST, h.own_obj(L) == c.self, h.len(L) == 1,
                                                         z3.Not(has_raising(h, L)))),
                        ('old', z3.And(*[FA([A('x!in')], z3.Implies(A('x!in') < o.alloc, z3.Select(h.arr[n], A('x!in')) == z3.Select(o.arr[n], A('x!in'))),
                                            [z3.Select(h.arr[n], A('x!in'))]) for n in h.arr if not z3.eq(h.arr[n], o.arr[n]) and n not in ('f_' + src_f, 'f_' + fld)]))]
            T_('antlr4:%s.__init__' % cls, {'self': Obj(cls), 'input': Obj(src_cls)}, ensures=init_ens,
               modifies=('f_' + src_f, 'f_' + fld) + LIST_ARRAYS + OBJ, allocates=True)

            def rm_ens(c):
                h, o = c.h, c.old
                L = o.f(fld, c.self)
                l = A('l!rm')
                return [('emptied', z3.And(h.bagof(L) == EMPTY_BAG, h.len(L) == 0)),
                        ('others', z3.And(FA([l], z3.Implies(l != L, h.bagof(l) == o.bagof(l)), [h.bagof(l)]),
                                          FA([l], z3.Implies(l != L, h.len(l) == o.len(l)), [h.len(l)])))]
            T_('antlr4:%s.removeErrorListeners' % cls, {'self': Obj(cls)}, ensures=rm_ens, modifies=LIST_ARRAYS)

            def add_ens(c):
                h, o = c.h, c.old
                L = o.f(fld, c.self)
                l = A('l!ad')
                v = to_val(c.sv('listener'))
                return [('appended', z3.And(h.bagof(L) == z3.Store(o.bagof(L), v, o.bag(L, v) + 1), h.len(L) == o.len(L) + 1)),
                        ('others', z3.And(FA([l], z3.Implies(l != L, h.bagof(l) == o.bagof(l)), [h.bagof(l)]),
                                          FA([l], z3.Implies(l != L, h.len(l) == o.len(l)), [h.len(l)])))]
            T_('antlr4:%s.addErrorListener' % cls, {'self': Obj(cls), 'listener': T.val}, ensures=add_ens, modifies=LIST_ARRAYS)
        mk(cls, fld, src_f, src_cls)
    T_('antlr4:CommonTokenStream.__init__', {'self': Obj('CommonTokenStream'), 'lexer': Obj('malLexer')},
       ensures=lambda c: [('lexer', c.h.f('tlexer', c.self) == c.lexer)], modifies=('f_tlexer',))

    def path_of_parser(h, p):
        return h.f('fpath', h.f('lsrc', h.f('tlexer', h.f('pstream', p))))

    def mal_raises(c):
        o, p = c.old, c.self
        lex = o.f('tlexer', o.f('pstream', p))
        P = path_of_parser(o, p)
        return z3.Or(z3.And(ParseErr(P), has_raising(o, o.f('plisteners', p))), z3.And(LexErr(P), has_raising(o, o.f('llisteners', lex))))
    T_('antlr4:malParser.mal', {'self': Obj('malParser')}, returns=Obj('ParseTree'), raises={'MalSyntaxError': mal_raises},
       ensures=lambda c: [('tree-of-file', TreePath(c.res) == path_of_parser(c.old, c.self))],
       note='ANTLR: every syntax error of the lexer / parser is reported to the registered listeners of that recognizer; an exception '
            'raised by a listener propagates out of parser.mal(); with no raising listener the parser recovers and returns a tree')
    T_('antlr4:CommonTokenStream.LT', {'self': Obj('CommonTokenStream'), 'k': T.int}, returns=Obj('Token'), allocates=True,
       modifies=('f_Token__type', 'f_line', 'f_column', 'f_text') + OBJ,
       ensures=lambda c: [('eof-iff-consumed', z3.Implies(c.k == 1, (c.h.f('Token__type', c.res) == -1) == z3.Not(Tail(c.old.f('fpath', c.old.f('lsrc', c.old.f('tlexer', c.self))))))),
                          ('fresh', c.res >= c.old.alloc),
                          ('old', z3.And(*[FA([A('x!lt')], z3.Implies(A('x!lt') < c.old.alloc, z3.Select(c.h.arr[n], A('x!lt')) == z3.Select(c.old.arr[n], A('x!lt'))),
                                              [z3.Select(c.h.arr[n], A('x!lt'))]) for n in c.h.arr if not z3.eq(c.h.arr[n], c.old.arr[n])]))],
       note='after parser.mal() returned: LT(1) is EOF iff the parser consumed the whole input (nothing is assumed about LT(k), k != 1)')
    T_('maltoolbox.language.compiler.mal_visitor:malVisitor.__init__', {'self': Obj('malVisitor'), 'compiler': Obj('MalCompiler')},
       ensures=lambda c: [('compiler', c.h.f('compiler', c.self) == c.compiler)], modifies=('f_compiler',))
    T_('maltoolbox.language.compiler.mal_visitor:malVisitor.visit', {'self': Obj('malVisitor'), 'tree': Obj('ParseTree')},
       returns=Dict(T.str, T.val), raises={'MalSyntaxError': lambda c: IncErr(TreePath(c.tree))}, allocates=True,
       modifies=LIST_ARRAYS + DICT_ARRAYS + OBJ,
       ensures=lambda c: [('old', z3.And(*[FA([A('x!vi')], z3.Implies(A('x!vi') < c.old.alloc, z3.Select(c.h.arr[n], A('x!vi')) == z3.Select(c.old.arr[n], A('x!vi'))),
                                              [z3.Select(c.h.arr[n], A('x!vi'))]) for n in c.h.arr if not z3.eq(c.h.arr[n], c.old.arr[n])]))],
       note='the visitor compiles included files through compiler.compile(); by this very contract that raises iff an included file is '
            'malformed (IncErr) and restores compiler.path / current_file')

    # ---------------- repository code under contract
    reg.add(Contract(MC + ':_RaisingErrorListener.__init__', {'self': Obj(RAISING), 'malfile': T.str},
                     ensures=lambda c: [('malfile', c.h.f('malfile', c.self) == c.malfile)], modifies=('f_malfile',), props=('C17',)))
    reg.add(Contract(MC + ':_RaisingErrorListener.syntaxError',
                     {'self': Obj(RAISING), 'recognizer': T.val, 'offendingSymbol': T.val, 'line': T.val, 'column': T.val, 'msg': T.val, 'e': T.val},
                     raises={'MalSyntaxError': lambda c: z3.BoolVal(True)}, props=('C17',),
                     note='a registered listener of this class turns every reported syntax error into an exception'))

    def resolved(c):
        o = c.old
        pth = o.f('path', c.self)
        mf = v_s(c.malfile)
        truthy = z3.And(is_VStr(pth), v_s(pth) != str_const(''))
        mf1 = z3.If(z3.And(truthy, z3.Not(isabs(mf))), join(v_s(pth), mf), mf)
        return join(dirname(mf1), basename(mf1))

    def restored(c):
        return [('path-restored', z3.And(c.h.f('path', c.self) == c.old.f('path', c.self),
                                         c.h.f('current_file', c.self) == c.old.f('current_file', c.self)))]

    all_fields = tuple('f_' + a for a in ('path', 'current_file', 'fpath', 'lsrc', 'llisteners', 'tlexer', 'pstream', 'plisteners', 'Token__type', 'line',
                                          'column', 'text', 'malfile', 'compiler'))
    reg.add(Contract(MC + ':MalCompiler.compile', {'self': Obj('MalCompiler'), 'malfile': T('str', opt=True)}, returns=Dict(T.str, T.val),
                     requires=lambda c: [('file-given', is_VStr(c.malfile))],
                     raises={'MalSyntaxError': (lambda c: malformed(resolved(c)), restored)},
                     ensures=lambda c: restored(c) + [('well-formed', z3.Not(malformed(resolved(c))))],
                     modifies=all_fields + LIST_ARRAYS + DICT_ARRAYS + OBJ + ('own_fld',), allocates=True, props=('C17', 'C04'),
                     note='normal return only if neither this file nor any file it includes has a lexer error, a parser error or an unparsed tail'))
