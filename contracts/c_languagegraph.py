"""Contracts for maltoolbox/language/languagegraph.py (C03 purity / separation; C15 queries) and the assumed contract DEEPCOPY."""
from __future__ import annotations
import z3
from pyvc.theory import *
from pyvc.contract import *
from .graph_spec import A, FA
from .lang_spec import *
from pyvc.state import heap_closed

ML = 'maltoolbox.language.languagegraph'
CONTAINER_ARRAYS = LIST_ARRAYS + DICT_ARRAYS + ('cls', 'own_obj')
depth = z3.Function('depth', Str, z3.IntSort())          # ghost: length of the superAsset chain (wf_lang: acyclic)


def install(reg: Registry):
    install_schema(reg)

    # ---- assumed contract DEEPCOPY (copy.deepcopy on plain dict / list / str / number data; T5)
    _dc_counter = [0]

    def dc_ensures(c):
        """copy.deepcopy on plain dict / list / scalar data: a fresh isomorphic structure (ghost map mu from every copied
        container to its copy, injective), the argument is not written"""
        o, h = c.old, c.h
        x, r = c.x, c.res
        _dc_counter[0] += 1
        mu = z3.Function('mu!dc%d' % _dc_counter[0], Addr, Addr)
        cp = z3.Function('copied!dc%d' % _dc_counter[0], Addr, z3.BoolSort())
        cc, e = A('c!dc'), A('e!dc')
        k = z3.Const('k!dc', Val)
        j = z3.Int('j!dc')
        # only containers are copied structurally; a reference to any other object is copied by that object's own
        # __deepcopy__ / __reduce_ex__: its image is left unspecified here (so the contract stays satisfiable for data
        # that holds objects — a contradictory postcondition would make every later obligation vacuous)
        other = z3.Function('objimg!dc%d' % _dc_counter[0], Val, Val)
        is_c = lambda a: z3.Or(o.cls(a) == CLS_LIST, o.cls(a) == CLS_DICT)
        img = lambda v: z3.If(z3.And(is_VRef(v), is_c(v_a(v))), VRef(mu(v_a(v))), z3.If(is_VRef(v), other(v), v))
        return [
            ('result', r == img(x)),
            ('root-copied', z3.Implies(z3.And(is_VRef(x), is_c(v_a(x))), cp(v_a(x)))),
            ('copies-fresh', FA([cc], z3.Implies(cp(cc), z3.And(cc >= 0, cc < o.alloc, mu(cc) >= o.alloc, mu(cc) < h.alloc,
                                                                h.cls(mu(cc)) == o.cls(cc), h.own_obj(mu(cc)) == -1)), [mu(cc)])),
            ('copied-are-containers', FA([cc], z3.Implies(cp(cc), z3.Or(o.cls(cc) == CLS_LIST, o.cls(cc) == CLS_DICT)), [cp(cc)])),
            ('injective', FA([cc, e], z3.Implies(z3.And(cp(cc), cp(e), mu(cc) == mu(e)), cc == e), [(mu(cc), mu(e))])),
            ('dict-keys', FA([cc, k], z3.Implies(z3.And(cp(cc), o.cls(cc) == CLS_DICT), h.has(mu(cc), k) == o.has(cc, k)), [h.has(mu(cc), k)])),
            ('dict-values', FA([cc, k], z3.Implies(z3.And(cp(cc), o.cls(cc) == CLS_DICT, o.has(cc, k)),
                                                   z3.And(h.val(mu(cc), k) == img(o.val(cc, k)),
                                                          z3.Implies(z3.And(is_VRef(o.val(cc, k)), is_c(v_a(o.val(cc, k)))), cp(v_a(o.val(cc, k))))), ), [h.val(mu(cc), k)])),
            ('dict-closure', FA([cc, k], z3.Implies(z3.And(cp(cc), o.cls(cc) == CLS_DICT, o.has(cc, k), is_VRef(o.val(cc, k)), is_c(v_a(o.val(cc, k)))),
                                                    cp(v_a(o.val(cc, k)))), [(cp(cc), o.val(cc, k))])),
            ('dict-size', FA([cc], z3.Implies(z3.And(cp(cc), o.cls(cc) == CLS_DICT), h.size(mu(cc)) == o.size(cc)), [h.size(mu(cc))])),
            ('list-len', FA([cc], z3.Implies(z3.And(cp(cc), o.cls(cc) == CLS_LIST), h.len(mu(cc)) == o.len(cc)), [h.len(mu(cc))])),
            ('list-at', FA([cc, j], z3.Implies(z3.And(cp(cc), o.cls(cc) == CLS_LIST, 0 <= j, j < o.len(cc)),
                                               z3.And(h.at(mu(cc), j) == img(o.at(cc, j)),
                                                      z3.Implies(z3.And(is_VRef(o.at(cc, j)), is_c(v_a(o.at(cc, j)))), cp(v_a(o.at(cc, j))))), ), [h.at(mu(cc), j)])),
            ('list-bag-scalars', FA([cc, k], z3.Implies(z3.And(cp(cc), o.cls(cc) == CLS_LIST, z3.Not(is_VRef(k))),
                                                        h.bag(mu(cc), k) == o.bag(cc, k)), [h.bag(mu(cc), k)])),
            ('list-bag-refs', FA([cc, e], z3.Implies(z3.And(cp(cc), o.cls(cc) == CLS_LIST, o.bag(cc, VRef(e)) > 0, is_c(e)),
                                                     z3.And(cp(e), h.bag(mu(cc), VRef(mu(e))) == o.bag(cc, VRef(e)))), [o.bag(cc, VRef(e))])),
            ('fresh-closed', fresh_closed(h, o.alloc)),
            # ghost: a copy has the origin of what it copies (chains of copies collapse to the first original)
            ('origin', FA([cc], z3.Implies(cp(cc), h.orig(mu(cc)) == o.orig(cc)), [h.orig(mu(cc))])),
        ] + dc_frame(c, cp)

    def dc_frame(c, cp):
        """nothing old is written — except the memo dict (when one is passed), which only gains entries keyed by the
        identities of the copied containers and of the memo itself (CPython's keep-alive entry)"""
        o, h = c.old, c.h
        memo = c.memo
        x = A('x!df')
        k = z3.Const('k!df', Val)
        out = []
        for n in o.arr:
            if z3.eq(o.arr[n], h.arr[n]):
                continue
            exc = z3.And(is_VRef(memo), x == v_a(memo)) if n in DICT_ARRAYS else z3.BoolVal(False)
            out.append(('pure.' + n, FA([x], z3.Implies(z3.And(x >= 0, x < o.alloc, z3.Not(exc)), z3.Select(h.arr[n], x) == z3.Select(o.arr[n], x)),
                                        [z3.Select(h.arr[n], x)])))
        m = v_a(memo)
        own = lambda kk: z3.And(is_VRef(kk), z3.Or(cp(v_a(kk)), v_a(kk) == m))
        out.append(('memo-other-keys', z3.Implies(is_VRef(memo), z3.And(
            FA([k], z3.Implies(z3.Not(own(k)), h.has(m, k) == o.has(m, k)), [h.has(m, k)]),
            FA([k], z3.Implies(z3.Not(own(k)), h.val(m, k) == o.val(m, k)), [h.val(m, k)]), h.cls(m) == o.cls(m)))))
        return out
    def dc_requires(c):
        """DEEPCOPY is assumed for plain data only: what is copied is a scalar or a dict / list (objects with their own
        __deepcopy__ are outside this contract)"""
        return [('plain-data', z3.Implies(is_VRef(c.x), z3.Or(c.old.cls(v_a(c.x)) == CLS_LIST, c.old.cls(v_a(c.x)) == CLS_DICT)))]

    dc = Contract('copy:deepcopy', {'x': T.val, 'memo': T.val}, returns=T.val, requires=dc_requires, ensures=dc_ensures,
                  modifies=CONTAINER_ARRAYS, allocates=True, trusted=True,
                  note='DEEPCOPY: fresh isomorphic structure, argument not written; nested containers of the copy are fresh. '
                       'KEEP-ALIVE-OPAQUE: when a memo is passed, CPython also appends the copied object to the list memo[id(memo)]; that '
                       'list is not modelled (no code under contract reads it): the memo entry keyed by the memo itself may change, the '
                       'list behind it is outside the heap model and outside every frame clause')
    dc.defaults = {'memo': SV_NONE}
    reg.add(dc)
    reg.by_func['deepcopy'] = dc

    # ---- LanguageGraph._get_attacks_for_asset_type (C03: purity and separation; termination)
    def wf_lang(h, L):
        """the part of wf_lang this function relies on: acyclic inheritance with the ghost measure `depth`"""
        spec = h.f('_lang_spec', L)
        assets = v_a(h.val(spec, VStr(str_const('assets'))))
        kv = z3.Const('a!wl', Val)
        a = v_a(kv)
        sup = lambda d: h.val(d, VStr(str_const('superAsset')))
        nm = lambda d: h.val(d, VStr(str_const('name')))
        sq = z3.Const('s!wl', Str)
        return z3.And(FA([sq], depth(sq) >= 0, [depth(sq)]), FA([kv], z3.Implies(z3.And(h.bag(assets, kv) > 0),
                                   z3.And(depth(v_s(nm(a))) >= 0,
                                          z3.Implies(z3.And(is_VStr(sup(a)), v_s(sup(a)) != str_const('')), depth(v_s(sup(a))) < depth(v_s(nm(a)))))),
                  [h.bag(assets, kv)]))

    def spec_typed(h, L):
        """TYPES for the language specification, in quantified form: every attack step of every asset is a dict with a
        str 'name' and a 'reaches' that is None or a dict whose 'stepExpressions' is a list"""
        spec = h.f('_lang_spec', L)
        assets = v_a(h.val(spec, VStr(str_const('assets'))))
        av, sv_ = z3.Const('a!ty', Val), z3.Const('s!ty', Val)
        steps = lambda a: v_a(h.val(v_a(a), VStr(str_const('attackSteps'))))
        s = v_a(sv_)
        R_ = h.val(s, VStr(str_const('reaches')))
        SE = VStr(str_const('stepExpressions'))
        K = lambda x: VStr(str_const(x))
        asset_typed = FA([av], z3.Implies(h.bag(assets, av) > 0, z3.And(
            is_VRef(av), h.cls(v_a(av)) == CLS_DICT, h.has(v_a(av), K('attackSteps')), h.has(v_a(av), K('name')), h.has(v_a(av), K('superAsset')),
            is_VStr(h.val(v_a(av), K('name'))), z3.Or(is_VStr(h.val(v_a(av), K('superAsset'))), is_VNone(h.val(v_a(av), K('superAsset')))),
            is_VRef(h.val(v_a(av), K('attackSteps'))), h.cls(steps(av)) == CLS_LIST)), [h.bag(assets, av)])
        top_typed = z3.And(h.cls(spec) == CLS_DICT, h.has(spec, K('assets')), is_VRef(h.val(spec, K('assets'))), h.cls(assets) == CLS_LIST)
        return z3.And(top_typed, asset_typed, FA([av, sv_], z3.Implies(z3.And(h.bag(assets, av) > 0, h.bag(steps(av), sv_) > 0), z3.And(
            is_VRef(sv_), h.cls(s) == CLS_DICT, h.has(s, VStr(str_const('reaches'))), h.has(s, VStr(str_const('name'))),
            is_VStr(h.val(s, VStr(str_const('name')))),
            z3.Or(is_VNone(R_), z3.And(is_VRef(R_), h.cls(v_a(R_)) == CLS_DICT,
                                       z3.Implies(h.has(v_a(R_), SE), z3.And(is_VRef(h.val(v_a(R_), SE)), h.cls(v_a(h.val(v_a(R_), SE))) == CLS_LIST)))))),
                  [(h.bag(assets, av), h.bag(steps(av), sv_))]))

    def structure(h, R):
        """every entry of the result is a step dict whose 'reaches' is None or a dict (typing of the result for callers)"""
        k = z3.Const('k!st', Val)
        reaches = lambda d: h.val(d, VStr(str_const('reaches')))
        return FA([k], z3.Implies(h.has(R, k), z3.And(
            is_VStr(k), is_VRef(h.val(R, k)), h.cls(v_a(h.val(R, k))) == CLS_DICT, h.has(v_a(h.val(R, k)), VStr(str_const('reaches'))),
            z3.Or(is_VNone(reaches(v_a(h.val(R, k)))),
                  z3.And(is_VRef(reaches(v_a(h.val(R, k)))), h.cls(v_a(reaches(v_a(h.val(R, k))))) == CLS_DICT)))), [h.val(R, k), h.has(R, k)])

    def lists_in_reaches(h, R):
        """'stepExpressions', when present in an entry's reaches dict, is a list"""
        k = z3.Const('k!lr', Val)
        reaches = lambda d: v_a(h.val(d, VStr(str_const('reaches'))))
        se = VStr(str_const('stepExpressions'))
        return FA([k], z3.Implies(z3.And(h.has(R, k), is_VRef(h.val(v_a(h.val(R, k)), VStr(str_const('reaches')))),
                                         h.has(reaches(v_a(h.val(R, k))), se)),
                                  z3.And(is_VRef(h.val(reaches(v_a(h.val(R, k))), se)),
                                         h.cls(v_a(h.val(reaches(v_a(h.val(R, k))), se))) == CLS_LIST)), [h.val(R, k), h.has(R, k)])

    # ---- functional specification (C03): which step names the lookup yields, and which declaration each entry is a copy of
    K_ = lambda x: VStr(str_const(x))
    SAsset = z3.Function('SAsset', Str, Val)            # asset record of the specification by name (None if absent)
    SDecl = z3.Function('SDecl', Addr, Str, Val)        # step record named s of an asset record (None if it declares no such step)
    Inh = z3.Function('Inh', Str, Str, z3.BoolSort())   # type T has (declares or inherits) a step named s
    Base = z3.Function('Base', Str, Str, Addr)          # the declaration whose copy is the entry for s: the nearest overriding
                                                        # declaration on the way up, else the top-most declaration of s

    RX = z3.Function('RX', Str, Str, z3.BoolSort())      # the entry's 'reaches' is a dict that has a 'stepExpressions' list
    XLen = z3.Function('XLen', Str, Str, z3.IntSort())   # length of that list
    XAt = z3.Function('XAt', Str, Str, z3.IntSort(), Addr)   # the expression record of the specification its j-th element is a copy of
    XOv = z3.Function('XOv', Str, Str, Val)              # value under 'overrides' in the entry's reaches dict
    ENTRY_OF = z3.Function('ENTRY_OF', Addr, Str)        # inverse maps (Dual hypotheses): entry dict -> step name, expression list -> step name
    LIST_OF = z3.Function('LIST_OF', Addr, Str)
    SEK = K_('stepExpressions')

    def d_reaches(h, d): return h.val(d, K_('reaches'))
    def d_has_se(h, d): return z3.And(is_VRef(d_reaches(h, d)), h.has(v_a(d_reaches(h, d)), SEK))
    def d_sel(h, d): return v_a(h.val(v_a(d_reaches(h, d)), SEK))

    def spec_assets_of(h, L):
        return v_a(h.val(h.f('_lang_spec', L), K_('assets')))

    def truthy_opt_dict(h, v):
        return z3.And(is_VRef(v), h.size(v_a(v)) > 0)

    def fold_defs(h, L):
        """definitions over the (unchanged) specification records; wf_lang: asset names unique, step names unique per asset"""
        nm, s = z3.Const('nm!fd', Str), z3.Const('s!fd', Str)
        a, d = A('a!fd'), A('d!fd')
        AL = spec_assets_of(h, L)
        SL_ = lambda q: v_a(h.val(q, K_('attackSteps')))
        sa = SAsset(nm)
        rec = v_a(sa)
        sup = h.val(rec, K_('superAsset'))
        has_sup = z3.And(is_VStr(sup), v_s(sup) != str_const(''))
        dec = SDecl(rec, s)
        reaches = h.val(v_a(dec), K_('reaches'))
        inh_sup = z3.And(has_sup, Inh(v_s(sup), s))
        return [
            ('SAsset.member', FA([a], z3.Implies(h.cnt(AL, a) > 0, SAsset(v_s(h.val(a, K_('name')))) == VRef(a)), [h.cnt(AL, a)])),
            ('SAsset.range', FA([nm], z3.Or(is_VNone(sa), z3.And(is_VRef(sa), h.cnt(AL, rec) > 0, v_s(h.val(rec, K_('name'))) == nm)), [SAsset(nm)])),
            ('SDecl.member', FA([a, d], z3.Implies(z3.And(h.cnt(AL, a) > 0, h.cnt(SL_(a), d) > 0), SDecl(a, v_s(h.val(d, K_('name')))) == VRef(d)), [h.cnt(SL_(a), d)])),
            ('SDecl.range', FA([a, s], z3.Or(is_VNone(SDecl(a, s)), z3.And(is_VRef(SDecl(a, s)), h.cnt(SL_(a), v_a(SDecl(a, s))) > 0,
                                                                          v_s(h.val(v_a(SDecl(a, s)), K_('name'))) == s)), [SDecl(a, s)])),
            ('steps-nodup', FA([a, d], z3.Implies(h.cnt(AL, a) > 0, h.cnt(SL_(a), d) <= 1), [h.cnt(SL_(a), d)])),
            ('Inh.def', FA([nm, s], Inh(nm, s) == z3.And(is_VRef(sa), z3.Or(is_VRef(dec), inh_sup)), [Inh(nm, s)])),
            ('Base.def', FA([nm, s], z3.Implies(z3.And(is_VRef(sa), Inh(nm, s)), Base(nm, s) == z3.If(
                z3.Not(is_VRef(dec)), Base(v_s(sup), s),
                z3.If(z3.Not(inh_sup), v_a(dec),
                      z3.If(z3.Not(truthy_opt_dict(h, reaches)), Base(v_s(sup), s),
                            z3.If(h.val(v_a(reaches), K_('overrides')) == VBool(True), v_a(dec), Base(v_s(sup), s)))))), [Base(nm, s)])),
        ] + reach_defs(h, L)

    def reach_defs(h, L):
        """the expression list of an entry, as a sequence of specification records: the declaration's own list where the entry
        is (a copy of) that declaration; the inherited sequence where the declaration adds nothing; the inherited sequence
        followed by the declaration's list where the declaration extends (+>)"""
        nm, s = z3.Const('nm!rd', Str), z3.Const('s!rd', Str)
        j = z3.Int('j!rd')
        sa = SAsset(nm)
        rec = v_a(sa)
        sup = h.val(rec, K_('superAsset'))
        S_ = v_s(sup)
        has_sup = z3.And(is_VStr(sup), S_ != str_const(''))
        dec = SDecl(rec, s)
        d = v_a(dec)
        inh_sup = z3.And(has_sup, Inh(S_, s))
        declared = is_VRef(dec)
        tr = truthy_opt_dict(h, d_reaches(h, d))
        ov = h.val(v_a(d_reaches(h, d)), K_('overrides')) == VBool(True)
        own = z3.And(declared, z3.Or(z3.Not(inh_sup), z3.And(tr, ov)))
        keep = z3.Or(z3.Not(declared), z3.And(declared, inh_sup, z3.Not(tr)))
        guard = z3.And(is_VRef(sa), Inh(nm, s))
        xlen_d = h.len(d_sel(h, d))
        return [
            ('RX.def', FA([nm, s], z3.Implies(guard, RX(nm, s) == z3.If(own, d_has_se(h, d), z3.If(keep, RX(S_, s), z3.BoolVal(True)))), [RX(nm, s)])),
            ('XLen.def', FA([nm, s], z3.Implies(guard, XLen(nm, s) == z3.If(own, xlen_d, z3.If(keep, XLen(S_, s), z3.If(RX(S_, s), XLen(S_, s) + xlen_d, xlen_d)))),
                            [XLen(nm, s)])),
            ('XAt.def', FA([nm, s, j], z3.Implies(guard, XAt(nm, s, j) == z3.If(own, v_a(h.at(d_sel(h, d), j)), z3.If(keep, XAt(S_, s, j), z3.If(
                RX(S_, s), z3.If(j < XLen(S_, s), XAt(S_, s, j), v_a(h.at(d_sel(h, d), j - XLen(S_, s)))), v_a(h.at(d_sel(h, d), j)))))), [XAt(nm, s, j)])),
            ('XOv.def', FA([nm, s], z3.Implies(guard, XOv(nm, s) == z3.If(own, h.val(v_a(d_reaches(h, d)), K_('overrides')), z3.If(keep, XOv(S_, s), z3.If(
                RX(S_, s), XOv(S_, s), VBool(False))))), [XOv(nm, s)])),
        ]

    def entry_spec(h, e, U, s, R):
        """entry dict e carries the expression sequence specified for (type U, step s)"""
        r = h.val(e, K_('reaches'))
        L_ = v_a(h.val(v_a(r), SEK))
        j = z3.Int('j!es')
        return z3.And(
            h.has(e, K_('reaches')), z3.Or(is_VNone(r), z3.And(is_VRef(r), h.cls(v_a(r)) == CLS_DICT, v_a(r) != R, v_a(r) >= 0, v_a(r) < h.alloc)),
            RX(U, s) == z3.And(is_VRef(r), h.has(v_a(r), SEK)),
            z3.Implies(RX(U, s), z3.And(
                is_VRef(h.val(v_a(r), SEK)), h.cls(L_) == CLS_LIST, h.len(L_) == XLen(U, s), L_ >= 0, L_ < h.alloc,
                h.val(v_a(r), K_('overrides')) == XOv(U, s),
                FA([j], z3.Implies(z3.And(0 <= j, j < XLen(U, s)), z3.And(is_VRef(h.at(L_, j)), h.orig(v_a(h.at(L_, j))) == XAt(U, s, j))), [h.at(L_, j)]))))

    def distinct_entries(h, R, have, rx_of):
        """different step names have different entry dicts and different expression lists (so that an update of one entry does
        not touch another).  Dual: proved pairwise, assumed as inverse functions."""
        s1, s2 = z3.Const('s1!de', Str), z3.Const('s2!de', Str)
        e = lambda q: v_a(h.val(R, VStr(q)))
        lst = lambda q: v_a(h.val(v_a(h.val(e(q), K_('reaches'))), SEK))
        return [
            ('entries-distinct', Dual(
                FA([s1, s2], z3.Implies(z3.And(have(s1), have(s2), e(s1) == e(s2)), s1 == s2), [(h.val(R, VStr(s1)), h.val(R, VStr(s2)))]),
                FA([s1], z3.Implies(have(s1), ENTRY_OF(e(s1)) == s1), [h.val(R, VStr(s1))]))),
            ('lists-distinct', Dual(
                FA([s1, s2], z3.Implies(z3.And(have(s1), have(s2), rx_of(s1), rx_of(s2), lst(s1) == lst(s2)), s1 == s2), [(h.val(R, VStr(s1)), h.val(R, VStr(s2)))]),
                FA([s1], z3.Implies(z3.And(have(s1), rx_of(s1)), LIST_OF(lst(s1)) == s1), [h.val(R, VStr(s1))]))),
        ]

    def entries(c, h, R, have, base_of):
        """R has exactly the keys `have(s)`; the entry for s is a (copy of a copy of ...) the declaration base_of(s)"""
        k = z3.Const('k!en', Val)
        s = z3.Const('s!en', Str)
        return [('keys', FA([k], h.has(R, k) == z3.And(is_VStr(k), have(v_s(k))), [h.has(R, k)])),
                ('typed', FA([k], z3.Implies(h.has(R, k), z3.And(is_VRef(h.val(R, k)), v_a(h.val(R, k)) >= 0, v_a(h.val(R, k)) < h.alloc, v_a(h.val(R, k)) != R)), [h.val(R, k)])),
                ('origins', FA([s], z3.Implies(have(s), h.orig(v_a(h.val(R, VStr(s)))) == base_of(s)), [h.val(R, VStr(s))]))]

    def post(c, R, h, functional=True):
        o = c.old
        out = [
            ('result-fresh', z3.And(R >= o.alloc, R < h.alloc, h.cls(R) == CLS_DICT)),
            ('separation', fresh_closed(h, o.alloc)),
        ] + old_region_unchanged_all(o, h)
        if functional:
            T_ = c.asset_type
            out += [('fold.' + nm, f) for nm, f in entries(c, h, R, lambda s: Inh(T_, s), lambda s: Base(T_, s))]
            s_ = z3.Const('s!rp', Str)
            out.append(('fold.reaches', FA([s_], z3.Implies(Inh(T_, s_), entry_spec(h, v_a(h.val(R, VStr(s_))), T_, s_, R)), [h.val(R, VStr(s_))])))
            out += [('fold.' + nm, f) for nm, f in distinct_entries(h, R, lambda q: Inh(T_, q), lambda q: RX(T_, q))]
        return out

    def inv(c: LCtx):
        o, h = c.old, c.h
        R = c.ret().t
        a = c.local('asset')
        rec = a.t if a.kind == 'ref' else v_a(a.t)
        sup = o.val(rec, K_('superAsset'))
        has_sup = z3.And(is_VStr(sup), v_s(sup) != str_const(''))
        T_ = c.asset_type
        done_decl = lambda s: z3.And(is_VRef(SDecl(rec, s)), z3.Select(c.done, SDecl(rec, s)) > 0)
        have = lambda s: z3.Or(z3.And(has_sup, Inh(v_s(sup), s)), done_decl(s))
        base_of = lambda s: z3.If(done_decl(s), Base(T_, s), Base(v_s(sup), s))
        s_ = z3.Const('s!ri', Str)
        e_ = v_a(h.val(R, VStr(s_)))
        return post(c, R, h, functional=False) + [('fold.' + nm, f) for nm, f in entries(c, h, R, have, base_of)] + [
            ('asset-record', z3.And(SAsset(T_) == VRef(rec), c.it == v_a(o.val(rec, K_('attackSteps'))))),
            ('fold.reaches', FA([s_], z3.Implies(have(s_), z3.And(z3.Implies(done_decl(s_), entry_spec(h, e_, T_, s_, R)),
                                                                 z3.Implies(z3.Not(done_decl(s_)), entry_spec(h, e_, v_s(sup), s_, R)))), [h.val(R, VStr(s_))])),
        ] + [('fold.' + nm, f) for nm, f in distinct_entries(h, R, have, lambda q: z3.If(done_decl(q), RX(T_, q), RX(v_s(sup), q)))]

    def originals(h, L):
        """the step records of the specification are originals (their own origin)"""
        a, d = A('a!og'), A('d!og')
        AL = spec_assets_of(h, L)
        j = z3.Int('j!og')
        member = z3.And(h.cnt(AL, a) > 0, h.cnt(v_a(h.val(a, K_('attackSteps'))), d) > 0)
        rd = v_a(d_reaches(h, d))
        return z3.And(
            # langspec layout: a reaches dict carries a boolean 'overrides'
            FA([a, d], z3.Implies(z3.And(member, is_VRef(d_reaches(h, d))), z3.And(h.has(rd, K_('overrides')), is_VBool(h.val(rd, K_('overrides'))))),
               [h.cnt(v_a(h.val(a, K_('attackSteps'))), d)]),
            FA([a, d], z3.Implies(member, h.orig(d) == d), [h.cnt(v_a(h.val(a, K_('attackSteps'))), d)]),
            FA([a, d, j], z3.Implies(z3.And(member, d_has_se(h, d), 0 <= j, j < h.len(d_sel(h, d))),
                                     z3.And(is_VRef(h.at(d_sel(h, d), j)), h.cls(v_a(h.at(d_sel(h, d), j))) == CLS_DICT,
                                            h.orig(v_a(h.at(d_sel(h, d), j))) == v_a(h.at(d_sel(h, d), j)))),
               [(h.cnt(v_a(h.val(a, K_('attackSteps'))), d), h.at(d_sel(h, d), j))]))

    def dc_hint(c):
        """what is copied belongs to the (unchanged) specification"""
        h0 = c.extra['caller_h0']
        x = c.x
        K = lambda s_: VStr(str_const(s_))
        def same_row(obj):
            return z3.And(obj >= 0, obj < h0.alloc, c.old.cls(obj) == h0.cls(obj),
                          z3.Select(c.old.arr['D_has'], obj) == z3.Select(h0.arr['D_has'], obj),
                          z3.Select(c.old.arr['D_val'], obj) == z3.Select(h0.arr['D_val'], obj),
                          z3.Select(c.old.arr['L_bag'], obj) == z3.Select(h0.arr['L_bag'], obj),
                          z3.Select(c.old.arr['L_len'], obj) == z3.Select(h0.arr['L_len'], obj),
                          z3.Select(c.old.arr['L_at'], obj) == z3.Select(h0.arr['L_at'], obj))
        rv = h0.val(v_a(x), K('reaches'))
        lv = h0.val(v_a(rv), K('stepExpressions'))
        is_step = z3.And(is_VRef(x), h0.cls(v_a(x)) == CLS_DICT, h0.has(v_a(x), K('reaches')))
        nested = [('reaches-is-old', z3.Implies(z3.And(is_step, is_VRef(rv)), same_row(v_a(rv)))),
                  ('expressions-are-old', z3.Implies(z3.And(is_step, is_VRef(rv), h0.cls(v_a(rv)) == CLS_DICT, h0.has(v_a(rv), K('stepExpressions')), is_VRef(lv)),
                                                     same_row(v_a(lv))))]
        return nested + [('arg-is-old', z3.Implies(is_VRef(x), z3.And(v_a(x) >= 0, v_a(x) < h0.alloc))),
                ('arg-unchanged', z3.Implies(is_VRef(x), z3.And(c.old.cls(v_a(x)) == h0.cls(v_a(x)),
                                                                z3.Select(c.old.arr['D_has'], v_a(x)) == z3.Select(h0.arr['D_has'], v_a(x)),
                                                                z3.Select(c.old.arr['D_val'], v_a(x)) == z3.Select(h0.arr['D_val'], v_a(x)))))]

    reg.add(Contract(ML + ':LanguageGraph._get_attacks_for_asset_type', {'self': Obj(LG), 'asset_type': T.str},
                     returns=STEPS_RESULT,
                     requires=lambda c: [('wf_lang.acyclic', wf_lang(c.old, c.self)), ('wf_lang.typed', spec_typed(c.old, c.self)),
                                         ('originals', originals(c.old, c.self))] +
                                        [('fold.' + nm, f) for nm, f in fold_defs(c.old, c.self) if not nm.endswith('.def')],
                     defs=lambda c: [f for nm, f in fold_defs(c.old, c.self) if nm.endswith('.def')],
                     ensures=lambda c: post(c, c.res, c.h), modifies=CONTAINER_ARRAYS, allocates=True,
                     decreases=lambda c: depth(c.asset_type), loops={0: LoopSpec(inv)},
                     locals_ty={'attack_steps': STEPS_RESULT}, call_lemmas={'deepcopy': dc_hint}, props=('C03', 'C16', 'C02', 'C01'),
                     may_raise=(),
                     note='proved: the fold of the property statement — the result has exactly the step names the type declares or inherits; each '
                          'entry is a copy (ghost origin map) of its base declaration (nearest overriding declaration, else the top-most one); its '
                          'expression list is the inherited sequence, replaced by an override (->), extended by an extension (+>), untouched by a '
                          'redefinition without reaches — as sequences of specification records; purity (nothing allocated before the call is '
                          'written), separation (everything reachable from the result is fresh), termination, no KeyError / TypeError under the '
                          'langspec record layout (TYPES).  Assumed: DEEPCOPY.'))


# ---------------------------------------------------------------------------------------------------
def install_lg_queries(reg: Registry):
    install_lg_objects(reg)

    # ---- LanguageGraphAsset.is_subasset_of (C15, C01)
    def req(c):
        hs = spec_heap(c.old.schema)
        return [('ANC.def', z3.And(*anc_axioms(hs))), ('wf_lang.inheritance', wf_inheritance(hs)), ('HS.agree', agree(hs, c.old)),
                ('HS.objects', z3.And(c.self >= 0, c.self < hs.alloc, c.target_asset >= 0, c.target_asset < hs.alloc)),
                ('HS.closed', z3.And(*heap_closed(hs)))]

    def inv(c: LCtx):
        o, h = c.old, c.h
        S = c.local('current_assets').t
        s = A('s!is')
        v = z3.Const('v!is', Val)
        l = A('l!is')
        return [
            ('stack-fresh', z3.And(S >= o.alloc, S < h.alloc, h.cls(S) == CLS_LIST)),
            ('old-lists', z3.And(FA([l], z3.Implies(l < o.alloc, h.bagof(l) == o.bagof(l)), [h.bagof(l)]),
                                 FA([l], z3.Implies(l < o.alloc, h.len(l) == o.len(l)), [h.len(l)]),
                                 FA([l], z3.Implies(l < o.alloc, z3.Select(h.arr['L_at'], l) == z3.Select(o.arr['L_at'], l)), [z3.Select(h.arr['L_at'], l)]),
                                 FA([l], z3.Implies(l < o.alloc, z3.And(h.cls(l) == o.cls(l), h.own_obj(l) == o.own_obj(l))), [h.cls(l)]),
                                 FA([l], z3.Implies(l < o.alloc, h.own_obj(l) == o.own_obj(l)), [h.own_obj(l)]))),
            ('fields-same', z3.And(h.arr['f_super_assets'] == o.arr['f_super_assets'])),
            ('stack-elems', FA([v], z3.Implies(h.bag(S, v) > 0, z3.And(is_VRef(v), ANC(c.self, v_a(v)), v_a(v) >= 0, v_a(v) < spec_heap(o.schema).alloc)), [h.bag(S, v)])),
            ('target-still-reachable', z3.Implies(ANC(c.self, c.target_asset),
                                                  z3.Exists([s], z3.And(h.cnt(S, s) > 0, ANC(s, c.target_asset))))),
            ('at-most-one', z3.And(h.len(S) <= 1, h.len(S) >= 0)),
            ('top', z3.Implies(h.len(S) == 1, is_VRef(h.at(S, 0)))),
        ]

    def variant(c: LCtx):
        h = c.h
        S = c.local('current_assets').t
        return z3.If(h.len(S) >= 1, 1 + ldepth(v_a(h.at(S, 0))), 0)

    reg.add(Contract(ML + ':LanguageGraphAsset.is_subasset_of', {'self': Obj(LGA), 'target_asset': Obj(LGA)}, returns=T.bool,
                     requires=req, ensures=lambda c: [('def', c.res == ANC(c.self, c.target_asset)),
                                                      ('no-fresh-dicts', FA([A('d!nd')], z3.Implies(z3.And(A('d!nd') >= c.old.alloc, A('d!nd') < c.h.alloc),
                                                                                                   c.h.cls(A('d!nd')) != CLS_DICT), [c.h.cls(A('d!nd'))]))]
                                                     + old_region_unchanged_all(c.old, c.h),
                     modifies=LIST_ARRAYS + ('cls', 'own_obj'), allocates=True,
                     loops={0: LoopSpec(inv, variant=variant)}, props=('C15', 'C01'),
                     note='equality of language-graph assets is identity (EQ-ID: asset names are unique)'))


_install_l0 = install


def install(reg: Registry):
    _install_l0(reg)
    install_lg_queries(reg)
