"""Contracts for the dict encoding of the instance model (C07, save side): Model.attacker_to_dict, Model.association_to_dict.
asset_to_dict / _to_dict / _from_dict are decided by the bounded floor (they live on python_jsonschema_objects internals)."""
from __future__ import annotations
import z3
from pyvc.theory import *
from pyvc.contract import *
from .graph_spec import A, FA
from .model_spec import *

MM = 'maltoolbox.model'
K = lambda s_: VStr(str_const(s_))


def region_same(o: H, h: H):
    x = A('x!rs')
    return [('pure.' + n, FA([x], z3.Implies(z3.And(x >= 0, x < o.alloc), z3.Select(h.arr[n], x) == z3.Select(o.arr[n], x)),
                             [z3.Select(h.arr[n], x), z3.Select(o.arr[n], x)]))
            for n in h.arr if not z3.eq(h.arr[n], o.arr[n])]


def install(reg: Registry):
    AAN = reg.schema.storage(AA, 'name')

    # ---- Model.attacker_to_dict: (attacker.id, {'name': str(name), 'entry_points': {asset id: {'attack_steps': <the step list>}}})
    def ep_map(o, h, DE, E, done=None):
        """DE has one entry per (processed) entry-point tuple, keyed by the id of the tuple's asset: a fresh one-key dict whose
        'attack_steps' is the tuple's own list of step names (shared, as the code does); and nothing else"""
        t = A('t!em')
        k = z3.Const('k!em', Val)
        inl = (lambda q: z3.Select(done, VRef(q)) > 0) if done is not None else (lambda q: o.cnt(E, q) > 0)
        pat = (lambda q: z3.Select(done, VRef(q))) if done is not None else (lambda q: o.cnt(E, q))
        key = lambda q: VInt(v_i(o.f('id', o.f('t0', q))))
        d = lambda q: v_a(h.val(DE, key(q)))
        k2 = z3.Const('k2!em', Val)
        return z3.And(
            FA([t], z3.Implies(inl(t), z3.And(h.has(DE, key(t)), is_VRef(h.val(DE, key(t))), d(t) >= o.alloc, d(t) < h.alloc, h.cls(d(t)) == CLS_DICT,
                                              h.val(d(t), K('attack_steps')) == VRef(o.f('t1', t)),
                                              FA([k2], h.has(d(t), k2) == (k2 == K('attack_steps')), [h.has(d(t), k2)]))), [pat(t)]),
            FA([k], z3.Implies(h.has(DE, k), z3.Exists([t], z3.And(inl(t), o.cnt(E, t) > 0, key(t) == k), patterns=[pat(t)])), [h.has(DE, k)]))

    def a_shape(o, h, R, att):
        DE = v_a(h.val(R, K('entry_points')))
        k = z3.Const('k!ms', Val)
        nm = o.f(AAN, att)
        return [('fresh', z3.And(R >= o.alloc, R < h.alloc, h.cls(R) == CLS_DICT)),
                ('keys', FA([k], h.has(R, k) == z3.Or(k == K('name'), k == K('entry_points')), [h.has(R, k)])),
                ('name', h.val(R, K('name')) == VStr(z3.If(is_VStr(nm), v_s(nm), str_of_val(nm)))),
                ('sub-dict', z3.And(is_VRef(h.val(R, K('entry_points'))), DE >= o.alloc, DE < h.alloc, DE != R, h.cls(DE) == CLS_DICT))]

    def a_requires(c):
        o, a = c.old, c.attacker
        t, u = A('t!aq2'), A('u!aq2')
        kv = z3.Const('k!aq2', Val)
        E = o.f('entry_points', a)
        return [('tuples', FA([kv], z3.Implies(o.bag(E, kv) > 0, z3.And(is_VRef(kv), o.cls(v_a(kv)) == class_id(EP))), [o.bag(E, kv)])),
                ('asset-ids-are-ints', FA([t], z3.Implies(o.cnt(E, t) > 0, is_VInt(o.f('id', o.f('t0', t)))), [o.cnt(E, t)])),
                # one entry per asset id (wf_model: one tuple per asset, asset ids distinct) — otherwise a later tuple overwrites an earlier one
                ('one-tuple-per-asset-id', FA([t, u], z3.Implies(z3.And(o.cnt(E, t) > 0, o.cnt(E, u) > 0, o.f('id', o.f('t0', t)) == o.f('id', o.f('t0', u))), t == u),
                                              [(o.cnt(E, t), o.cnt(E, u))]))]

    def a_inv(c: LCtx):
        o, h = c.old, c.h
        R = c.local('attacker_dict').t
        DE = v_a(h.val(R, K('entry_points')))
        return a_shape(o, h, R, c.attacker) + region_same(o, h) + [('entries-so-far', ep_map(o, h, DE, o.f('entry_points', c.attacker), done=c.done))]

    def a_ensures(c):
        o, h = c.old, c.h
        R = c.result.elts[1].t
        DE = v_a(h.val(R, K('entry_points')))
        return a_shape(o, h, R, c.attacker) + region_same(o, h) + [
            ('id', to_val(c.result.elts[0]) == o.f('id', c.attacker)),
            ('entry_points', ep_map(o, h, DE, o.f('entry_points', c.attacker)))]

    reg.add(Contract(MM + ':Model.attacker_to_dict', {'self': Obj(MODEL), 'attacker': Obj(AA)},
                     returns=T('tuple', elts=[T('int', opt=True), Dict(T.str, T.val)]), requires=a_requires, ensures=a_ensures,
                     modifies=DICT_ARRAYS + ('cls', 'own_obj'), allocates=True, loops={0: LoopSpec(a_inv, iter_src='attacker.entry_points')},
                     props=('C07',), note='the step-name lists are stored by reference (not copied), as the code does'))

    # ---- Model.association_to_dict: {<class name>: {<left field>: [ids], <right field>: [ids]}} (+ 'extras' when non-empty)
    def ids_list(o, h, LL, F):
        j = z3.Int('j!il')
        return z3.And(LL >= o.alloc, LL < h.alloc, h.cls(LL) == CLS_LIST, h.len(LL) == o.len(F),
                      FA([j], z3.Implies(z3.And(0 <= j, j < o.len(F)), h.at(LL, j) == VInt(v_i(o.f('id', v_a(o.at(F, j)))))), [h.at(LL, j)]))

    def s_requires(c):
        o, s = c.old, c.association
        kv = z3.Const('k!sq', Val)
        return [('association-typed', z3.And(o.f('lname', s) != o.f('rname', s), o.f('clsname', s) != str_const('extras'),
                                             *[FA([kv], z3.Implies(o.bag(o.f(f, s), kv) > 0, z3.And(is_VRef(kv), is_VInt(o.f('id', v_a(kv))))), [o.bag(o.f(f, s), kv)])
                                               for f in ('lfield', 'rfield')]))]

    def s_ensures(c):
        o, h, s = c.old, c.h, c.association
        R = c.res
        k = z3.Const('k!se', Val)
        ck = VStr(o.f('clsname', s))
        I = v_a(h.val(R, ck))
        X = o.f('extras', s)
        XR = v_a(h.val(R, K('extras')))
        return region_same(o, h) + [
            ('fresh', z3.And(R >= o.alloc, R < h.alloc, h.cls(R) == CLS_DICT)),
            ('keys', FA([k], h.has(R, k) == z3.Or(k == ck, z3.And(k == K('extras'), o.size(X) > 0)), [h.has(R, k)])),
            ('fields-dict', z3.And(is_VRef(h.val(R, ck)), I >= o.alloc, I < h.alloc, I != R, h.cls(I) == CLS_DICT,
                                   FA([k], h.has(I, k) == z3.Or(k == VStr(o.f('lname', s)), k == VStr(o.f('rname', s))), [h.has(I, k)]))),
            ('left-ids', z3.And(is_VRef(h.val(I, VStr(o.f('lname', s)))), ids_list(o, h, v_a(h.val(I, VStr(o.f('lname', s)))), o.f('lfield', s)))),
            ('right-ids', z3.And(is_VRef(h.val(I, VStr(o.f('rname', s)))), ids_list(o, h, v_a(h.val(I, VStr(o.f('rname', s)))), o.f('rfield', s)))),
            ('extras', z3.Implies(o.size(X) > 0, z3.And(is_VRef(h.val(R, K('extras'))), XR >= o.alloc, h.cls(XR) == CLS_DICT,
                                                       z3.Select(h.arr['D_has'], XR) == z3.Select(o.arr['D_has'], X),
                                                       z3.Select(h.arr['D_val'], XR) == z3.Select(o.arr['D_val'], X)))),
        ]

    reg.add(Contract(MM + ':Model.association_to_dict', {'self': Obj(MODEL), 'association': Obj(ASSOC)}, returns=Dict(T.str, T.val),
                     requires=s_requires, ensures=s_ensures, modifies=LIST_ARRAYS + DICT_ARRAYS + ('cls', 'own_obj'), allocates=True,
                     props=('C07',), note='PJS: `association.extras.as_dict()` is modelled as a shallow copy of the extras dict (assumed)'))


    # ---- Model.asset_to_dict: (asset.id, {'name', 'type', 'defenses' iff any non-default defense, 'extras' iff non-empty})
    DefensesOf = z3.Function('DefensesOf', Addr, Addr)      # abstract: the dict get_asset_defenses builds for an asset (PJS internals)
    # spec function: how many defenses of an asset differ from their language default — a function of the asset's (ghost)
    # defense-value dict and its type; get_asset_defenses returns a dict of that size
    _HasRow, _ValRow = z3.ArraySort(Val, z3.BoolSort()), z3.ArraySort(Val, Val)
    NonDefaultCount = z3.Function('NonDefaultCount', _HasRow, _ValRow, Str, z3.IntSort())

    def ndc(o, x):
        dv = o.f('defvals', x)
        return NonDefaultCount(z3.Select(o.arr['D_has'], dv), z3.Select(o.arr['D_val'], dv), o.f('type', x))
    reg.add(Contract(MM + ':Model.get_asset_defenses', {'self': Obj(MODEL), 'asset': Obj(ASSET), 'include_defaults': T.bool}, returns=Dict(T.str, T.val),
                     trusted=True, allocates=True, modifies=DICT_ARRAYS + ('cls', 'own_obj'),
                     ensures=lambda c: [('fresh', z3.And(c.res >= c.old.alloc, c.res < c.h.alloc, c.h.cls(c.res) == CLS_DICT)),
                                        ('size', z3.Implies(z3.Not(c.include_defaults), z3.And(c.h.size(c.res) == ndc(c.old, c.asset), ndc(c.old, c.asset) >= 0)))] + region_same(c.old, c.h),
                     note='PJS internals (asset._properties, json_schema lookups, value.default()): a fresh dict of the non-default defense values; its size is '
                          'the spec function NonDefaultCount(defense values of the asset, its type); the entries themselves are not specified'))
    reg.contracts[MM + ':Model.get_asset_defenses'].defaults = {'include_defaults': sv_bool(False)}

    def x_ensures(c):
        o, h, x = c.old, c.h, c.asset
        R = c.result.elts[1].t
        k = z3.Const('k!xe', Val)
        Dd = v_a(h.val(R, K('defenses')))
        X = o.f('extras', x)
        XR = v_a(h.val(R, K('extras')))
        return region_same(o, h) + [
            ('id', to_val(c.result.elts[0]) == o.f('id', x)),
            ('fresh', z3.And(R >= o.alloc, R < h.alloc, h.cls(R) == CLS_DICT)),
            ('name-type', z3.And(h.val(R, K('name')) == VStr(o.f('name', x)), h.val(R, K('type')) == VStr(o.f('type', x)))),
            ('keys', FA([k], z3.Implies(h.has(R, k), z3.Or(k == K('name'), k == K('type'), k == K('defenses'), k == K('extras'))), [h.has(R, k)])),
            ('required-keys', z3.And(h.has(R, K('name')), h.has(R, K('type')))),
            ('defenses.iff', h.has(R, K('defenses')) == (ndc(o, x) > 0)),
            ('defenses', z3.Implies(h.has(R, K('defenses')), z3.And(is_VRef(h.val(R, K('defenses'))), Dd >= o.alloc, h.cls(Dd) == CLS_DICT, h.size(Dd) > 0))),
            ('extras', z3.And(h.has(R, K('extras')) == (o.size(X) > 0),
                              z3.Implies(o.size(X) > 0, z3.And(is_VRef(h.val(R, K('extras'))), XR >= o.alloc, h.cls(XR) == CLS_DICT,
                                                               z3.Select(h.arr['D_has'], XR) == z3.Select(o.arr['D_has'], X),
                                                               z3.Select(h.arr['D_val'], XR) == z3.Select(o.arr['D_val'], X))))),
        ]
    reg.add(Contract(MM + ':Model.asset_to_dict', {'self': Obj(MODEL), 'asset': Obj(ASSET)},
                     returns=T('tuple', elts=[T('int', opt=True), Dict(T.str, T.val)]), ensures=x_ensures,
                     modifies=DICT_ARRAYS + ('cls', 'own_obj'), allocates=True, props=('C07',),
                     note='the defense values come from get_asset_defenses (assumed: python_jsonschema_objects internals)'))


    # ---- Model._to_dict: metadata + one entry per asset (keyed by id), one list element per association (in order), one entry per
    # attacker (keyed by id).  Requires distinct attacker ids: two attackers with one id collide on their key (known finding C07).
    from .lang_spec import LG
    LCF = 'LanguageClassesFactory'
    reg.schema.add_class(MODEL, {'lang_classes_factory': Obj(LCF)})
    reg.schema.add_class(LG, {'metadata': Dict(T.str, T.val)})
    LGF = reg.schema.storage(LCF, 'lang_graph')
    VERSION = z3.Const('maltoolbox___version__', Str)
    reg.module_consts = getattr(reg, 'module_consts', {})
    reg.module_consts.setdefault(MM, {})['__version__'] = SV('str', VERSION)

    def sub(h, R, key): return v_a(h.val(R, K(key)))

    def m_requires(c):
        o, M = c.old, c.self
        x, y, a, b = A('x!mq'), A('y!mq'), A('a!mq'), A('b!mq')
        kv = z3.Const('k!mq', Val)
        XL, SL, AL = o.f('assets', M), o.f('associations', M), o.f('attackers', M)
        MD = o.f('metadata', o.f(LGF, o.f('lang_classes_factory', M)))
        return [('typed', z3.And(*[FA([kv], z3.Implies(o.bag(L_, kv) > 0, is_VRef(kv)), [o.bag(L_, kv)]) for L_ in (XL, SL, AL)])),
                ('metadata', z3.And(o.has(MD, K('version')), o.has(MD, K('id')))),
                ('asset-ids', FA([x], z3.Implies(o.cnt(XL, x) > 0, is_VInt(o.f('id', x))), [o.cnt(XL, x)])),
                ('asset-ids-distinct', FA([x, y], z3.Implies(z3.And(o.cnt(XL, x) > 0, o.cnt(XL, y) > 0, o.f('id', x) == o.f('id', y)), x == y), [(o.cnt(XL, x), o.cnt(XL, y))])),
                ('attacker-ids-distinct', FA([a, b], z3.Implies(z3.And(o.cnt(AL, a) > 0, o.cnt(AL, b) > 0, o.f('id', a) == o.f('id', b)), a == b), [(o.cnt(AL, a), o.cnt(AL, b))])),
                ('associations-typed', FA([a], z3.Implies(o.cnt(SL, a) > 0, s_requires_of(o, a)), [o.cnt(SL, a)])),
                ('attackers-typed', FA([a], z3.Implies(o.cnt(AL, a) > 0, z3.And(*[f for _, f in a_requires_of(o, a)])), [o.cnt(AL, a)]))]

    def s_requires_of(o, s):
        class C0: pass
        C0.old, C0.association = o, s
        return z3.And(*[f for _, f in s_requires(C0)])

    def a_requires_of(o, a):
        class C0: pass
        C0.old, C0.attacker = o, a
        return a_requires(C0)

    def shape(o, h, R, M):
        k = z3.Const('k!ms2', Val)
        MDo = o.f('metadata', o.f(LGF, o.f('lang_classes_factory', M)))
        MT, AS, SS, AT = sub(h, R, 'metadata'), sub(h, R, 'assets'), sub(h, R, 'associations'), sub(h, R, 'attackers')
        fresh = lambda q: z3.And(q >= o.alloc, q < h.alloc)
        return [('fresh', z3.And(fresh(R), h.cls(R) == CLS_DICT)),
                ('keys', FA([k], h.has(R, k) == z3.Or(k == K('metadata'), k == K('assets'), k == K('associations'), k == K('attackers')), [h.has(R, k)])),
                ('parts', z3.And(*[is_VRef(h.val(R, K(x))) for x in ('metadata', 'assets', 'associations', 'attackers')],
                                 fresh(MT), fresh(AS), fresh(SS), fresh(AT), h.cls(MT) == CLS_DICT, h.cls(AS) == CLS_DICT, h.cls(SS) == CLS_LIST, h.cls(AT) == CLS_DICT,
                                 z3.Distinct(R, MT, AS, AT))),
                ('metadata', z3.And(h.val(MT, K('name')) == VStr(o.f('name', M)), h.val(MT, K('langVersion')) == o.val(MDo, K('version')),
                                    h.val(MT, K('langID')) == o.val(MDo, K('id')), h.val(MT, K('MAL-Toolbox Version')) == VStr(VERSION)))]

    def keyed(o, h, D, L, key_of, done=None, lo=None):
        """dict D has one fresh-dict entry per (processed) member of L under key_of(member), and no other key"""
        x = A('x!ky')
        k = z3.Const('k!ky', Val)
        inl = (lambda q: z3.Select(done, VRef(q)) > 0) if done is not None else (lambda q: o.cnt(L, q) > 0)
        pat = (lambda q: z3.Select(done, VRef(q))) if done is not None else (lambda q: o.cnt(L, q))
        e = lambda q: v_a(h.val(D, key_of(q)))
        return z3.And(FA([x], z3.Implies(z3.And(inl(x), o.cnt(L, x) > 0), z3.And(h.has(D, key_of(x)), is_VRef(h.val(D, key_of(x))), e(x) >= o.alloc, e(x) < h.alloc,
                                                                                h.cls(e(x)) == CLS_DICT, *(lo(x, e(x)) if lo else []))), [pat(x)]),
                      FA([k], z3.Implies(h.has(D, k), z3.Exists([x], z3.And(inl(x), o.cnt(L, x) > 0, key_of(x) == k), patterns=[pat(x)])), [h.has(D, k)]))

    def asset_entry(o, h):
        return lambda x, e: [h.val(e, K('name')) == VStr(o.f('name', x)), h.val(e, K('type')) == VStr(o.f('type', x))]

    def attacker_entry(o, h):
        return lambda a, e: [h.has(e, K('name')), h.has(e, K('entry_points'))]

    akey = lambda o: (lambda x: VInt(v_i(o.f('id', x))))
    tkey = lambda o: (lambda a: o.f('id', a))

    def assoc_list(o, h, SS, SL, upto):
        j = z3.Int('j!al2')
        e = lambda q: v_a(h.at(SS, q))
        return z3.And(h.len(SS) == upto, FA([j], z3.Implies(z3.And(0 <= j, j < upto), z3.And(
            is_VRef(h.at(SS, j)), e(j) >= o.alloc, e(j) < h.alloc, h.cls(e(j)) == CLS_DICT, h.has(e(j), VStr(o.f('clsname', v_a(o.at(SL, j))))))), [h.at(SS, j)]))

    def inv_of(phase):
        def inv(c: LCtx):
            o, h, M = c.old, c.h, c.self
            R = c.local('contents').t
            XL, SL, AL = o.f('assets', M), o.f('associations', M), o.f('attackers', M)
            AS, SS, AT = sub(h, R, 'assets'), sub(h, R, 'associations'), sub(h, R, 'attackers')
            out = shape(o, h, R, M) + region_same(o, h)
            out.append(('assets', keyed(o, h, AS, XL, akey(o), done=c.done if phase == 0 else None, lo=asset_entry(o, h))))
            out.append(('associations', assoc_list(o, h, SS, SL, z3.IntVal(0) if phase == 0 else (c.i if phase == 1 else o.len(SL)))))
            out.append(('attackers', keyed(o, h, AT, AL, tkey(o), done=c.done, lo=attacker_entry(o, h)) if phase == 2 else z3.Select(h.arr['D_has'], AT) == EMPTY_HAS))
            return out
        return inv

    def m_ensures(c):
        o, h, M, R = c.old, c.h, c.self, c.res
        XL, SL, AL = o.f('assets', M), o.f('associations', M), o.f('attackers', M)
        return shape(o, h, R, M) + region_same(o, h) + [
            ('one-entry-per-asset', keyed(o, h, sub(h, R, 'assets'), XL, akey(o), lo=asset_entry(o, h))),
            ('one-element-per-association', assoc_list(o, h, sub(h, R, 'associations'), SL, o.len(SL))),
            ('one-entry-per-attacker', keyed(o, h, sub(h, R, 'attackers'), AL, tkey(o), lo=attacker_entry(o, h)))]

    reg.add(Contract(MM + ':Model._to_dict', {'self': Obj(MODEL)}, returns=Dict(T.str, T.val), requires=m_requires, ensures=m_ensures,
                     modifies=LIST_ARRAYS + DICT_ARRAYS + ('cls', 'own_obj'), allocates=True,
                     loops={0: LoopSpec(inv_of(0), iter_src='self.assets'), 1: LoopSpec(inv_of(1), iter_src='self.associations'),
                            2: LoopSpec(inv_of(2), iter_src='self.attackers')}, props=('C07',),
                     note='requires pairwise different attacker ids: _to_dict keys attackers by id (the known finding of C07 is a model that violates this)'))
