"""Contracts for the dict encoding of the instance model (C07, save side): Model.attacker_to_dict, Model.association_to_dict.
asset_to_dict / _to_dict / _from_dict are decided by the bounded floor (they live on python_jsonschema_objects internals)."""
from __future__ import annotations
import z3
from pyvc.theory import *
from pyvc.contract import *
from .graph_spec import A, FA
from .model_spec import *

MM = 'maltoolbox.model'
K = lambda s_: VStr(str_const(s_))


def region_same(o: H, h: H):
    x = A('x!rs')
    return [('pure.' + n, FA([x], z3.Implies(z3.And(x >= 0, x < o.alloc), z3.Select(h.arr[n], x) == z3.Select(o.arr[n], x)),
                             [z3.Select(h.arr[n], x), z3.Select(o.arr[n], x)]))
            for n in h.arr if not z3.eq(h.arr[n], o.arr[n])]


def install(reg: Registry):
    AAN = reg.schema.storage(AA, 'name')

    # ---- Model.attacker_to_dict: (attacker.id, {'name': str(name), 'entry_points': {asset id: {'attack_steps': <the step list>}}})
    def ep_map(o, h, DE, E, done=None):
        """DE has one entry per (processed) entry-point tuple, keyed by the id of the tuple's asset: a fresh one-key dict whose
        'attack_steps' is the tuple's own list of step names (shared, as the code does); and nothing else"""
        t = A('t!em')
        k = z3.Const('k!em', Val)
        inl = (lambda q: z3.Select(done, VRef(q)) > 0) if done is not None else (lambda q: o.cnt(E, q) > 0)
        pat = (lambda q: z3.Select(done, VRef(q))) if done is not None else (lambda q: o.cnt(E, q))
        key = lambda q: VInt(v_i(o.f('id', o.f('t0', q))))
        d = lambda q: v_a(h.val(DE, key(q)))
        k2 = z3.Const('k2!em', Val)
        return z3.And(
            FA([t], z3.Implies(inl(t), z3.And(h.has(DE, key(t)), is_VRef(h.val(DE, key(t))), d(t) >= o.alloc, d(t) < h.alloc, h.cls(d(t)) == CLS_DICT,
                                              h.val(d(t), K('attack_steps')) == VRef(o.f('t1', t)),
                                              FA([k2], h.has(d(t), k2) == (k2 == K('attack_steps')), [h.has(d(t), k2)]))), [pat(t)]),
            FA([k], z3.Implies(h.has(DE, k), z3.Exists([t], z3.And(inl(t), o.cnt(E, t) > 0, key(t) == k), patterns=[pat(t)])), [h.has(DE, k)]))

    def a_shape(o, h, R, att):
        DE = v_a(h.val(R, K('entry_points')))
        k = z3.Const('k!ms', Val)
        nm = o.f(AAN, att)
        return [('fresh', z3.And(R >= o.alloc, R < h.alloc, h.cls(R) == CLS_DICT)),
                ('keys', FA([k], h.has(R, k) == z3.Or(k == K('name'), k == K('entry_points')), [h.has(R, k)])),
                ('name', h.val(R, K('name')) == VStr(z3.If(is_VStr(nm), v_s(nm), str_of_val(nm)))),
                ('sub-dict', z3.And(is_VRef(h.val(R, K('entry_points'))), DE >= o.alloc, DE < h.alloc, DE != R, h.cls(DE) == CLS_DICT))]

    def a_requires(c):
        o, a = c.old, c.attacker
        t, u = A('t!aq2'), A('u!aq2')
        kv = z3.Const('k!aq2', Val)
        E = o.f('entry_points', a)
        return [('tuples', FA([kv], z3.Implies(o.bag(E, kv) > 0, z3.And(is_VRef(kv), o.cls(v_a(kv)) == class_id(EP))), [o.bag(E, kv)])),
                ('asset-ids-are-ints', FA([t], z3.Implies(o.cnt(E, t) > 0, is_VInt(o.f('id', o.f('t0', t)))), [o.cnt(E, t)])),
                # one entry per asset id (wf_model: one tuple per asset, asset ids distinct) — otherwise a later tuple overwrites an earlier one
                ('one-tuple-per-asset-id', FA([t, u], z3.Implies(z3.And(o.cnt(E, t) > 0, o.cnt(E, u) > 0, o.f('id', o.f('t0', t)) == o.f('id', o.f('t0', u))), t == u),
                                              [(o.cnt(E, t), o.cnt(E, u))]))]

    def a_inv(c: LCtx):
        o, h = c.old, c.h
        R = c.local('attacker_dict').t
        DE = v_a(h.val(R, K('entry_points')))
        return a_shape(o, h, R, c.attacker) + region_same(o, h) + [('entries-so-far', ep_map(o, h, DE, o.f('entry_points', c.attacker), done=c.done))]

    def a_ensures(c):
        o, h = c.old, c.h
        R = c.result.elts[1].t
        DE = v_a(h.val(R, K('entry_points')))
        return a_shape(o, h, R, c.attacker) + region_same(o, h) + [
            ('id', to_val(c.result.elts[0]) == o.f('id', c.attacker)),
            ('entry_points', ep_map(o, h, DE, o.f('entry_points', c.attacker)))]

    reg.add(Contract(MM + ':Model.attacker_to_dict', {'self': Obj(MODEL), 'attacker': Obj(AA)},
                     returns=T('tuple', elts=[T('int', opt=True), Dict(T.str, T.val)]), requires=a_requires, ensures=a_ensures,
                     modifies=DICT_ARRAYS + ('cls', 'own_obj'), allocates=True, loops={0: LoopSpec(a_inv, iter_src='attacker.entry_points')},
                     props=('C07',), note='the step-name lists are stored by reference (not copied), as the code does'))

    # ---- Model.association_to_dict: {<class name>: {<left field>: [ids], <right field>: [ids]}} (+ 'extras' when non-empty)
    def ids_list(o, h, LL, F):
        j = z3.Int('j!il')
        return z3.And(LL >= o.alloc, LL < h.alloc, h.cls(LL) == CLS_LIST, h.len(LL) == o.len(F),
                      FA([j], z3.Implies(z3.And(0 <= j, j < o.len(F)), h.at(LL, j) == VInt(v_i(o.f('id', v_a(o.at(F, j)))))), [h.at(LL, j)]))

    def s_requires(c):
        o, s = c.old, c.association
        kv = z3.Const('k!sq', Val)
        return [('association-typed', z3.And(o.f('lname', s) != o.f('rname', s), o.f('clsname', s) != str_const('extras'),
                                             *[FA([kv], z3.Implies(o.bag(o.f(f, s), kv) > 0, z3.And(is_VRef(kv), is_VInt(o.f('id', v_a(kv))))), [o.bag(o.f(f, s), kv)])
                                               for f in ('lfield', 'rfield')]))]

    def s_ensures(c):
        o, h, s = c.old, c.h, c.association
        R = c.res
        k = z3.Const('k!se', Val)
        ck = VStr(o.f('clsname', s))
        I = v_a(h.val(R, ck))
        X = o.f('extras', s)
        XR = v_a(h.val(R, K('extras')))
        return region_same(o, h) + [
            ('fresh', z3.And(R >= o.alloc, R < h.alloc, h.cls(R) == CLS_DICT)),
            ('keys', FA([k], h.has(R, k) == z3.Or(k == ck, z3.And(k == K('extras'), o.size(X) > 0)), [h.has(R, k)])),
            ('fields-dict', z3.And(is_VRef(h.val(R, ck)), I >= o.alloc, I < h.alloc, I != R, h.cls(I) == CLS_DICT,
                                   FA([k], h.has(I, k) == z3.Or(k == VStr(o.f('lname', s)), k == VStr(o.f('rname', s))), [h.has(I, k)]))),
            ('left-ids', z3.And(is_VRef(h.val(I, VStr(o.f('lname', s)))), ids_list(o, h, v_a(h.val(I, VStr(o.f('lname', s)))), o.f('lfield', s)))),
            ('right-ids', z3.And(is_VRef(h.val(I, VStr(o.f('rname', s)))), ids_list(o, h, v_a(h.val(I, VStr(o.f('rname', s)))), o.f('rfield', s)))),
            ('extras', z3.Implies(o.size(X) > 0, z3.And(is_VRef(h.val(R, K('extras'))), XR >= o.alloc, h.cls(XR) == CLS_DICT,
                                                       z3.Select(h.arr['D_has'], XR) == z3.Select(o.arr['D_has'], X),
                                                       z3.Select(h.arr['D_val'], XR) == z3.Select(o.arr['D_val'], X)))),
        ]

    reg.add(Contract(MM + ':Model.association_to_dict', {'self': Obj(MODEL), 'association': Obj(ASSOC)}, returns=Dict(T.str, T.val),
                     requires=s_requires, ensures=s_ensures, modifies=LIST_ARRAYS + DICT_ARRAYS + ('cls', 'own_obj'), allocates=True,
                     props=('C07',), note='PJS: `association.extras.as_dict()` is modelled as a shallow copy of the extras dict (assumed)'))
