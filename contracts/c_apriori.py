"""Contracts for maltoolbox/attackgraph/analyzers/apriori.py (C08, C13; DESIGN.md A.4)."""
from __future__ import annotations
import z3
from pyvc.theory import *
from pyvc.contract import *
from .graph_spec import *

MP = 'maltoolbox.attackgraph.analyzers.apriori'
LabelArr = z3.ArraySort(Addr, z3.BoolSort())
S = str_const


def is_or(h, n): return h.f('type', n) == S('or')
def is_and(h, n): return h.f('type', n) == S('and')
def is_base(h, n): return z3.Or(h.f('type', n) == S('exist'), h.f('type', n) == S('notExist'), h.f('type', n) == S('defense'))


def has_parent(h, n):
    p = A('p!hp')
    return z3.Exists([p], pa(h, n, p) > 0)


def gov(h, n):
    return z3.And(z3.Or(is_or(h, n), is_and(h, n)), has_parent(h, n))


def dist(h, p):
    """p.ttc names a distribution other than Enabled / Disabled (always counts as necessary for its children)"""
    t = h.f('ttc', p)
    d = v_a(t)
    nm = VStr(S('name'))
    return z3.And(is_VRef(t), h.size(d) > 0, h.has(d, nm), h.val(d, nm) != VStr(S('Enabled')), h.val(d, nm) != VStr(S('Disabled')))


def lab(arr, n): return z3.Select(arr, n)


def F(h, n, arr, kind):
    """right-hand side of the equation of a governed node under labelling arr; kind 'v' or 'n'"""
    p = A('p!F')
    if kind == 'v':
        val = lambda q: lab(arr, q)
        ex_ = z3.Exists([p], z3.And(pa(h, n, p) > 0, val(p)))
        al_ = FA([p], z3.Implies(pa(h, n, p) > 0, val(p)), [pa(h, n, p)])
        return z3.If(is_or(h, n), ex_, al_)
    val = lambda q: z3.Or(lab(arr, q), dist(h, q))
    ex_ = z3.Exists([p], z3.And(pa(h, n, p) > 0, val(p)))
    al_ = FA([p], z3.Implies(pa(h, n, p) > 0, val(p)), [pa(h, n, p)])
    return z3.If(is_or(h, n), al_, ex_)


def base_value(h, n, kind):
    ty = h.f('type', n)
    es, ds = h.f('existence_status', n), h.f('defense_status', n)
    dnum = z3.If(is_VInt(ds), z3.ToReal(v_i(ds)), v_r(ds))
    if kind == 'v':
        return z3.If(ty == S('exist'), v_b(es), z3.If(ty == S('notExist'), z3.Not(v_b(es)), dnum != 1))
    return z3.If(ty == S('exist'), z3.Not(v_b(es)), z3.If(ty == S('notExist'), v_b(es), dnum != 0))


def wf_status(h, n):
    ty = h.f('type', n)
    es, ds = h.f('existence_status', n), h.f('defense_status', n)
    dnum = z3.If(is_VInt(ds), z3.ToReal(v_i(ds)), v_r(ds))
    return z3.And(z3.Implies(z3.Or(ty == S('exist'), ty == S('notExist')), is_VBool(es)),
                  z3.Implies(ty == S('defense'), z3.And(z3.Or(is_VReal(ds), is_VInt(ds)), dnum >= 0, dnum <= 1)))


def down(h, G, arr, kind):
    n = A('n!dw')
    return FA([n], z3.Implies(z3.And(is_node(h, G, n), gov(h, n), F(h, n, arr, kind)), lab(arr, n)), [lab(arr, n)])


def viol(h, G, n, arr, kind):
    return z3.And(is_node(h, G, n), gov(h, n), lab(arr, n) != F(h, n, arr, kind))


def postfix(h, G, nu, kind):
    """nu is a post-fixed point on governed nodes: nu(n) => F_nu(n)  (every solution of the equations is one)"""
    n = A('n!pf')
    return FA([n], z3.Implies(z3.And(is_node(h, G, n), gov(h, n), lab(nu, n)), F(h, n, nu, kind)), [lab(nu, n)])


def below(h, G, nu, arr):
    n = A('n!bl')
    return FA([n], z3.Implies(z3.And(is_node(h, G, n), lab(nu, n)), lab(arr, n)), [lab(nu, n)])


def W3(h, G):
    return [x for x in wf_graph(h, G, parts=('W0', 'W1', 'W3'))]


def install(reg: Registry):
    reg.add(Contract(MP + ':_has_ttc_distribution', {'node': Obj(NODE)}, returns=T.bool, pure=True,
                     ensures=lambda c: [('def', c.res == dist(c.old, c.node))], props=('C08',)))
    for kind, fld, fn in (('v', 'is_viable', 'propagate_viability_from_node'), ('n', 'is_necessary', 'propagate_necessity_from_node')):
        install_propagate(reg, kind, fld, fn)
    install_evaluate(reg)
    install_calculate(reg)


def install_propagate(reg, kind, fld, fn):
    arrname = 'f_' + fld

    def L(h): return h.arr[arrname]

    def requires(c):
        h, G, x = c.old, c.G, c.node
        return [('wf.' + nm, f) for nm, f in W3(h, G)] + [
            ('node-in-G', is_node(h, G, x)),
            ('label-false', z3.Not(lab(L(h), x))),
            ('down', down(h, G, L(h), kind)),
            ('nu-postfix', postfix(h, G, c.nu, kind)),
            ('nu-below', below(h, G, c.nu, L(h))),
        ]

    def ensures(c):
        o, h, G, x = c.old, c.h, c.G, c.node
        n = A('n!pe')
        gated = dist(o, x) if kind == 'n' else z3.BoolVal(False)
        return [
            ('viol-shrinks', FA([n], z3.Implies(viol(h, G, n, L(h), kind),
                                               z3.And(viol(o, G, n, L(o), kind), z3.Or(gated, ch(o, x, n) <= 0))), [lab(L(h), n)])),
            ('monotone', FA([n], z3.Implies(lab(L(h), n), lab(L(o), n)), [lab(L(h), n)])),
            ('down', down(h, G, L(h), kind)),
            ('nu-below', below(h, G, c.nu, L(h))),
            ('frame', FA([n], z3.Implies(z3.Or(z3.Not(is_node(o, G, n)), z3.Not(gov(o, n))), lab(L(h), n) == lab(L(o), n)), [lab(L(h), n)])),
            ('gated-noop', z3.Implies(gated, L(h) == L(o))),
        ]

    def inv_children(c: LCtx):
        o, h, G, x = c.old, c.h, c.G, c.node
        n = A('n!pi')
        return [
            ('viol', FA([n], z3.Implies(viol(h, G, n, L(h), kind),
                                        z3.And(viol(o, G, n, L(o), kind), z3.Select(c.done, VRef(n)) <= 0)), [lab(L(h), n)])),
            ('monotone', FA([n], z3.Implies(lab(L(h), n), lab(L(o), n)), [lab(L(h), n)])),
            ('down', down(h, G, L(h), kind)),
            ('nu-below', below(h, G, c.nu, L(h))),
            ('frame', FA([n], z3.Implies(z3.Or(z3.Not(is_node(o, G, n)), z3.Not(gov(o, n))), lab(L(h), n) == lab(L(o), n)), [lab(L(h), n)])),
        ]

    def inv_fold(c: LCtx):
        # the accumulator is the local assigned to the label after the fold; addressed by role: the only bool local
        # written in the loop body
        h = c.h
        p = A('p!pf2')
        acc = c.extra['acc'](c)
        val = (lambda q: lab(L(h), q)) if kind == 'v' else (lambda q: z3.Or(lab(L(h), q), dist(h, q)))
        return [('fold', acc == z3.Exists([p], z3.And(z3.Select(c.done, VRef(p)) > 0, val(p))))]

    def term_rel(new, entry):
        """the set {n in G | label(n)} strictly shrinks (finite set, strict subset: well-founded, T6)"""
        n = A('n!tm')
        G = entry.G
        return [('subset', FA([n], z3.Implies(z3.And(is_node(new.old, G, n), lab(L(new.old), n)), lab(L(entry.old), n)), [lab(L(new.old), n)])),
                ('strict', z3.And(is_node(entry.old, G, new.node), lab(L(entry.old), new.node), z3.Not(lab(L(new.old), new.node))))]

    # loop ordinals: viability: loop0 children, loop1 parents fold.  necessity: same (the TTC gate is an if, not a loop)
    reg.add(Contract(MP + ':' + fn, {'node': Obj(NODE)}, ghosts={'G': Addr, 'nu': LabelArr},
                     requires=requires, ensures=ensures, modifies=(arrname,),
                     loops={0: LoopSpec(inv_children, iter_src='node.children'), 1: LoopSpec(inv_fold_factory(inv_fold), iter_src='child.parents')},
                     term_rel=term_rel, props=('C08',)))


def inv_fold_factory(inv_fold):
    def f(c: LCtx):
        c.extra['acc'] = _bool_acc
        return inv_fold(c)
    return f


def _bool_acc(c: LCtx):
    """the fold accumulator, addressed by role: the unique local assigned in the loop body (robust to renaming)"""
    names = [k for k in c.extra.get('assigned', []) if k in c.locals]
    if len(names) != 1 or c.locals[names[0]].kind != 'bool':
        raise Unsupported('cannot identify the fold accumulator among %s' % names)
    return c.locals[names[0]].t


def install_evaluate(reg):
    for kind, fld, fn in (('v', 'is_viable', 'evaluate_viability'), ('n', 'is_necessary', 'evaluate_necessity')):
        arrname = 'f_' + fld

        def mk(kind, arrname):
            def requires(c):
                return [('status-wf', wf_status(c.old, c.node)), ('base-type', is_base(c.old, c.node))]

            def ensures(c):
                n = A('n!ev')
                return [('label', lab(c.h.arr[arrname], c.node) == base_value(c.old, c.node, kind)),
                        ('frame', FA([n], z3.Implies(n != c.node, lab(c.h.arr[arrname], n) == lab(c.old.arr[arrname], n)),
                                     [lab(c.h.arr[arrname], n)]))]
            return requires, ensures
        req, ens = mk(kind, arrname)
        reg.add(Contract(MP + ':' + fn, {'node': Obj(NODE)}, requires=req, ensures=ens, modifies=(arrname,),
                         loops={0: LoopSpec(lambda c: []), 1: LoopSpec(lambda c: [])}, props=('C08',),
                         note='only called on exist / notExist / defense nodes by calculate_viability_and_necessity; the or/and '
                              'arms are outside this contract (requires base type)'))

    def ens_both(c):
        n = A('n!ev2')
        return [('viable', lab(c.h.arr['f_is_viable'], c.node) == base_value(c.old, c.node, 'v')),
                ('necessary', lab(c.h.arr['f_is_necessary'], c.node) == base_value(c.old, c.node, 'n')),
                ('frame-v', FA([n], z3.Implies(n != c.node, lab(c.h.arr['f_is_viable'], n) == lab(c.old.arr['f_is_viable'], n)),
                               [lab(c.h.arr['f_is_viable'], n)])),
                ('frame-n', FA([n], z3.Implies(n != c.node, lab(c.h.arr['f_is_necessary'], n) == lab(c.old.arr['f_is_necessary'], n)),
                               [lab(c.h.arr['f_is_necessary'], n)]))]
    reg.add(Contract(MP + ':evaluate_viability_and_necessity', {'node': Obj(NODE)},
                     requires=lambda c: [('status-wf', wf_status(c.old, c.node)), ('base-type', is_base(c.old, c.node))],
                     ensures=ens_both, modifies=('f_is_viable', 'f_is_necessary'), props=('C08',)))


def solution(h, G, nu, kind):
    """nu satisfies the equations of the property statement on G"""
    n = A('n!so')
    return z3.And(
        FA([n], z3.Implies(z3.And(is_node(h, G, n), is_base(h, n)), lab(nu, n) == base_value(h, n, kind)), [lab(nu, n)]),
        FA([n], z3.Implies(z3.And(is_node(h, G, n), gov(h, n)), lab(nu, n) == F(h, n, nu, kind)), [lab(nu, n)]))


def install_calculate(reg):
    V = lambda h: h.arr['f_is_viable']
    N = lambda h: h.arr['f_is_necessary']

    def requires(c):
        h, G = c.old, c.graph
        n = A('n!cr')
        return [('wf.' + nm, f) for nm, f in W3(h, G)] + [
            ('status-wf', FA([n], z3.Implies(is_node(h, G, n), wf_status(h, n)), [h.cnt(nodes_l(h, G), n)])),
            ('fresh-labels', FA([n], z3.Implies(is_node(h, G, n), z3.And(lab(V(h), n), lab(N(h), n))), [h.cnt(nodes_l(h, G), n)])),
            ('nuV-solution', solution(h, G, c.nuV, 'v')), ('nuN-solution', solution(h, G, c.nuN, 'n')),
        ]

    def common(c, h, done=None):
        o, G = c.old, c.graph
        n = A('n!cc')
        out = [
            ('no-viol-v', FA([n], z3.Not(viol(h, G, n, V(h), 'v')), [lab(V(h), n)])),
            ('no-viol-n', FA([n], z3.Not(viol(h, G, n, N(h), 'n')), [lab(N(h), n)])),
            ('down-v', down(h, G, V(h), 'v')), ('down-n', down(h, G, N(h), 'n')),
            ('nuV-below', below(h, G, c.nuV, V(h))), ('nuN-below', below(h, G, c.nuN, N(h))),
            ('parentless', FA([n], z3.Implies(z3.And(is_node(h, G, n), z3.Or(is_or(h, n), is_and(h, n)), z3.Not(has_parent(h, n))),
                                              z3.And(lab(V(h), n), lab(N(h), n))), [lab(V(h), n)])),
        ]
        if done is None:
            out.append(('base', FA([n], z3.Implies(z3.And(is_node(h, G, n), is_base(h, n)),
                                                   z3.And(lab(V(h), n) == base_value(h, n, 'v'), lab(N(h), n) == base_value(h, n, 'n'))),
                                   [lab(V(h), n)])))
        else:
            out.append(('base-done', FA([n], z3.Implies(z3.And(is_node(h, G, n), is_base(h, n), z3.Select(done, VRef(n)) > 0),
                                                        z3.And(lab(V(h), n) == base_value(h, n, 'v'), lab(N(h), n) == base_value(h, n, 'n'))),
                                        [lab(V(h), n)])))
            out.append(('base-todo', FA([n], z3.Implies(z3.And(is_node(h, G, n), is_base(h, n), z3.Select(done, VRef(n)) <= 0),
                                                        z3.And(lab(V(h), n), lab(N(h), n))), [lab(V(h), n)])))
        return out

    def ensures(c):
        return common(c, c.h) + [
            ('greatest-v', z3.Implies(solution(c.old, c.graph, c.nuV, 'v'), below(c.h, c.graph, c.nuV, V(c.h)))),
            ('greatest-n', z3.Implies(solution(c.old, c.graph, c.nuN, 'n'), below(c.h, c.graph, c.nuN, N(c.h)))),
        ]

    def after_evaluate(c):
        """assigning the base values to one node can only disturb the equations of that node's children (W3 mirror)"""
        h, G, x = c.h, c.extra['ex'].args['graph'].t, c.node
        n = A('n!ae')
        return [('viol-v-local', FA([n], z3.Implies(viol(h, G, n, V(h), 'v'), ch(h, x, n) > 0), [lab(V(h), n)])),
                ('viol-n-local', FA([n], z3.Implies(viol(h, G, n, N(h), 'n'), z3.And(ch(h, x, n) > 0, z3.Not(dist(h, x)))), [lab(N(h), n)])),
                ('down-v', down(h, G, V(h), 'v')), ('down-n', down(h, G, N(h), 'n')),
                ('nuV-below', below(h, G, c.extra['ex'].ghosts['nuV'], V(h))),
                ('nuN-below', below(h, G, c.extra['ex'].ghosts['nuN'], N(h)))]

    reg.add(Contract(MP + ':calculate_viability_and_necessity', {'graph': Obj(GRAPH)}, ghosts={'nuV': LabelArr, 'nuN': LabelArr},
                     call_lemmas={'evaluate_viability_and_necessity': after_evaluate},
                     requires=requires, ensures=ensures, modifies=('f_is_viable', 'f_is_necessary'),
                     loops={0: LoopSpec(lambda c: common(c, c.h, c.done))},
                     call_ghosts={('propagate_viability_from_node', 'G'): lambda ex, st, args: ex.args['graph'].t,
                                  ('propagate_viability_from_node', 'nu'): lambda ex, st, args: ex.ghosts['nuV'],
                                  ('propagate_necessity_from_node', 'G'): lambda ex, st, args: ex.args['graph'].t,
                                  ('propagate_necessity_from_node', 'nu'): lambda ex, st, args: ex.ghosts['nuN']},
                     props=('C08',), solver_budget=45))      # the monotonicity step `down-n` after a base assignment needs MBQI (~30 s)


# ---------------------------------------------------------------------------------------------------
# C13: prune_unviable_and_unnecessary_nodes
def prunable(h, n):
    return z3.And(z3.Or(is_or(h, n), is_and(h, n)), z3.Or(z3.Not(h.f('is_viable', n)), z3.Not(h.f('is_necessary', n))))


def install_prune(reg):
    def requires(c):
        return [('wf.' + nm, f) for nm, f in wf_graph(c.old, c.graph)]

    def kept(o, h, G, removed):
        """node list = old node list minus `removed`; edges among the remaining nodes and attackers' references are kept"""
        n, m, a = A('n!pk'), A('m!pk'), A('a!pk')
        NL = nodes_l(o, G)
        return [
            ('nodes', FA([n], h.cnt(NL, n) == z3.If(removed(n), 0, o.cnt(NL, n)), [h.cnt(NL, n)])),
            ('edges', FA([n, m], z3.Implies(z3.And(is_node(h, G, n), is_node(h, G, m)),
                                           z3.And(ch(h, n, m) == ch(o, n, m), pa(h, n, m) == pa(o, n, m))), [ch(h, n, m)])),
            ('edges2', FA([n, m], z3.Implies(z3.And(is_node(h, G, n), is_node(h, G, m)),
                                            z3.And(ch(h, n, m) == ch(o, n, m), pa(h, n, m) == pa(o, n, m))), [pa(h, n, m)])),
            ('attackers', z3.And(list_unchanged(o, h, atts_l(o, G)),
                                 FA([a, m], z3.Implies(z3.And(is_att(o, G, a), is_node(h, G, m)),
                                                       z3.And(reached(h, a, m) == reached(o, a, m), entry(h, a, m) == entry(o, a, m))), [reached(h, a, m)]))),
            ('same-list-objects', z3.And(h.f('nodes', G) == o.f('nodes', G), h.f('attackers', G) == o.f('attackers', G))),
        ]

    def inv(c: LCtx):
        o, h, G = c.old, c.h, c.graph
        return [('wf.' + nm, f) for nm, f in wf_graph(h, G)] + kept(
            o, h, G, lambda n: z3.And(z3.Select(c.done, VRef(n)) > 0, prunable(o, n), o.cnt(nodes_l(o, G), n) > 0)) + [
            ('copy-fresh', z3.And(c.it >= o.alloc, c.it < h.alloc, h.own_obj(c.it) == -1))]

    def ensures(c):
        o, h, G = c.old, c.h, c.graph
        n = A('n!pe2')
        return [('wf.' + nm, f) for nm, f in wf_graph(h, G)] + kept(
            o, h, G, lambda n: z3.And(prunable(o, n), o.cnt(nodes_l(o, G), n) > 0)) + [
            ('no-prunable-node-remains', FA([n], z3.Implies(is_node(h, G, n), z3.Not(prunable(h, n))), [h.cnt(nodes_l(h, G), n)])),
            ('every-other-node-remains', FA([n], z3.Implies(z3.And(is_node(o, G, n), z3.Not(prunable(o, n))), is_node(h, G, n)),
                                            [o.cnt(nodes_l(o, G), n)])),
        ]

    reg.add(Contract(MP + ':prune_unviable_and_unnecessary_nodes', {'graph': Obj(GRAPH)}, requires=requires, ensures=ensures,
                     modifies=LIST_ARRAYS + DICT_ARRAYS + ('cls', 'own_obj', 'own_fld', 'f_entry_points'), allocates=True,
                     loops={0: LoopSpec(inv)}, call_ghosts={}, props=('C13', 'C09'),
                     note='labels (is_viable / is_necessary / type) are outside the frame: unchanged'))


_install_a = install


def install(reg: Registry):
    _install_a(reg)
    install_prune(reg)
