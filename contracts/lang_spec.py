"""Specification library for the language side: record types of the language specification (langspec.json layout),
LanguageGraph schema, freshness / separation predicates."""
from __future__ import annotations
import z3
from pyvc.theory import *
from pyvc.contract import *
from .graph_spec import A, FA

EXPR = Dict(T.str, T.val)     # step-expression dict (recursive tree; fields read with constant keys)
EXPR.rec = {'type': T.str, 'name': T.str, 'lhs': EXPR, 'rhs': EXPR, 'stepExpression': EXPR, 'subType': T.str}
EXPR.req = {'type'}
REACHES = Dict(T.str, T.val, rec={'overrides': T.bool, 'stepExpressions': List(EXPR)})
STEP = Dict(T.str, T.val, rec={'name': T.str, 'type': T.str, 'reaches': Opt(REACHES), 'requires': Opt(REACHES),
                               'ttc': Dict(T.str, T.val, opt=True), 'tags': List(T.str), 'meta': Dict(T.str, T.val)})
VARIABLE = Dict(T.str, T.val, rec={'name': T.str, 'stepExpression': EXPR})
ASSET = Dict(T.str, T.val, rec={'name': T.str, 'superAsset': T('str', opt=True), 'attackSteps': List(STEP),
                                'variables': List(VARIABLE), 'isAbstract': T.bool})
ASSOC = Dict(T.str, T.val, rec={'name': T.str, 'leftAsset': T.str, 'rightAsset': T.str, 'leftField': T.str, 'rightField': T.str})
LANGSPEC = Dict(T.str, T.val, rec={'assets': List(ASSET), 'associations': List(ASSOC)})
STEPS_RESULT = Dict(T.str, STEP)

LG = 'LanguageGraph'


def install_schema(reg: Registry):
    reg.schema.add_class(LG, {'_lang_spec': LANGSPEC, 'assets': List(Obj('LanguageGraphAsset')),
                              'associations': List(Obj('LanguageGraphAssociation'))})
    reg.classes[LG] = ClassInfo(LG, 'maltoolbox.language.languagegraph', False)
    reg.add_exception('LanguageGraphException')


def fresh_closed(h: H, a0):
    """SEP: every container allocated since a0 references (as dict value / list element) only containers allocated since a0"""
    d = A('d!fc')
    k = z3.Const('k!fc', Val)
    return z3.And(
        FA([d, k], z3.Implies(z3.And(d >= a0, d < h.alloc, h.cls(d) == CLS_DICT, h.has(d, k), is_VRef(h.val(d, k))), v_a(h.val(d, k)) >= a0), [h.val(d, k)]),
        FA([d, k], z3.Implies(z3.And(d >= a0, d < h.alloc, h.cls(d) == CLS_LIST, h.bag(d, k) > 0, is_VRef(k)), v_a(k) >= a0), [h.bag(d, k)]))


def old_region_unchanged_all(o: H, h: H):
    """PURE: nothing allocated before is written (every array agrees on every address below the old allocation pointer)"""
    x = A('x!pu')
    out = []
    for n in o.arr:
        if z3.eq(o.arr[n], h.arr[n]):
            continue
        out.append(('pure.' + n, FA([x], z3.Implies(z3.And(x >= 0, x < o.alloc), z3.Select(h.arr[n], x) == z3.Select(o.arr[n], x)),
                                    [z3.Select(h.arr[n], x)])))
    return out
