"""Specification library for the language side: record types of the language specification (langspec.json layout),
LanguageGraph schema, freshness / separation predicates."""
from __future__ import annotations
import z3
from pyvc.theory import *
from pyvc.contract import *
from .graph_spec import A, FA

EXPR = Dict(T.str, T.val)     # step-expression dict (recursive tree; fields read with constant keys)
EXPR.rec = {'type': T.str, 'name': T.str, 'lhs': EXPR, 'rhs': EXPR, 'stepExpression': EXPR, 'subType': T.str}
EXPR.req = {'type'}
REACHES = Dict(T.str, T.val, rec={'overrides': T.bool, 'stepExpressions': List(EXPR)})
STEP = Dict(T.str, T.val, rec={'name': T.str, 'type': T.str, 'reaches': Opt(REACHES), 'requires': Opt(REACHES),
                               'ttc': Dict(T.str, T.val, opt=True), 'tags': List(T.str), 'meta': Dict(T.str, T.val)})
VARIABLE = Dict(T.str, T.val, rec={'name': T.str, 'stepExpression': EXPR})
ASSET = Dict(T.str, T.val, rec={'name': T.str, 'superAsset': T('str', opt=True), 'attackSteps': List(STEP),
                                'variables': List(VARIABLE), 'isAbstract': T.bool})
ASSOC = Dict(T.str, T.val, rec={'name': T.str, 'leftAsset': T.str, 'rightAsset': T.str, 'leftField': T.str, 'rightField': T.str})
LANGSPEC = Dict(T.str, T.val, rec={'assets': List(ASSET), 'associations': List(ASSOC)})
STEPS_RESULT = Dict(T.str, STEP)

LG = 'LanguageGraph'


def install_schema(reg: Registry):
    reg.schema.add_class(LG, {'_lang_spec': LANGSPEC, 'assets': List(Obj('LanguageGraphAsset')),
                              'associations': List(Obj('LanguageGraphAssociation'))})
    reg.classes[LG] = ClassInfo(LG, 'maltoolbox.language.languagegraph', False)
    reg.add_exception('LanguageGraphException')


_HS = {}


def spec_heap(schema) -> H:
    """the specification heap HS: a fixed snapshot (global constants) of the language specification, the language graph and
    the model, over which Sem / nav / ANC are defined.  Functions require that the current heap agrees with HS on every
    object of HS (those objects are never written), so the definitions need not be re-proved when the heap grows."""
    k = id(schema)
    if k not in _HS or set(_HS[k].arr) != set(H.fresh(schema, 'probe').arr):
        _HS[k] = H.fresh(schema, 'spec')
    return _HS[k]


def agree(hs: H, h: H, skip=('f_attack_step_nodes',), both=False):
    """every object of HS is unchanged in h — except the extended property `attack_step_nodes` that generation writes
    on assets (outside the model's serialized view)"""
    x = A('x!ag')
    out = [hs.alloc >= 0, hs.alloc <= h.alloc]
    for n in hs.arr:
        if n in skip:
            continue
        out.append(FA([x], z3.Implies(z3.And(x >= 0, x < hs.alloc), z3.Select(h.arr[n], x) == z3.Select(hs.arr[n], x)),
                      [z3.Select(h.arr[n], x), z3.Select(hs.arr[n], x)] if both else [z3.Select(h.arr[n], x)]))
    return z3.And(*out)


def fresh_closed(h: H, a0):
    """SEP: every container allocated since a0 references (as dict value / list element) only containers allocated since a0
    (references to non-container objects held inside plain data are outside the claim)"""
    d = A('d!fc')
    k = z3.Const('k!fc', Val)
    is_c = lambda a: z3.Or(h.cls(a) == CLS_LIST, h.cls(a) == CLS_DICT)
    return z3.And(
        FA([d, k], z3.Implies(z3.And(d >= a0, d < h.alloc, h.cls(d) == CLS_DICT, h.has(d, k), is_VRef(h.val(d, k)), is_c(v_a(h.val(d, k)))),
                              v_a(h.val(d, k)) >= a0), [h.val(d, k)]),
        FA([d, k], z3.Implies(z3.And(d >= a0, d < h.alloc, h.cls(d) == CLS_LIST, h.bag(d, k) > 0, is_VRef(k), is_c(v_a(k))), v_a(k) >= a0), [h.bag(d, k)]))


def old_region_unchanged_all(o: H, h: H):
    """PURE: nothing allocated before is written (every array agrees on every address below the old allocation pointer)"""
    x = A('x!pu')
    out = []
    for n in o.arr:
        if z3.eq(o.arr[n], h.arr[n]):
            continue
        out.append(('pure.' + n, FA([x], z3.Implies(z3.And(x >= 0, x < o.alloc), z3.Select(h.arr[n], x) == z3.Select(o.arr[n], x)),
                                    [z3.Select(h.arr[n], x)])))
    return out


# ---------------------------------------------------------------------------------------------------
# language-graph objects (C15, used by C01)
LGA = 'LanguageGraphAsset'
ANC = z3.Function('ANC', Addr, Addr, z3.BoolSort())        # spec relation: reflexive-transitive closure of `extends`
ldepth = z3.Function('ldepth', Addr, z3.IntSort())        # ghost: height of an asset in the inheritance forest


def install_lg_objects(reg: Registry):
    reg.schema.add_class(LGA, {'name': T.str, 'super_assets': List(Obj(LGA)), 'sub_assets': List(Obj(LGA)),
                               'is_abstract': T('bool', opt=True)})
    reg.classes[LGA] = ClassInfo(LGA, 'maltoolbox.language.languagegraph', False)


def sup(h: H, x, s):
    return h.cnt(h.f('super_assets', x), s) > 0


def anc_axioms(h: H):
    """definition of ANC as the least reflexive relation closed under `extends` (T6): closure rules + case unfolding"""
    x, y, z = A('x!an'), A('y!an'), A('z!an')
    return [
        FA([x], ANC(x, x), [ANC(x, x)]),
        FA([x, y, z], z3.Implies(z3.And(ANC(x, y), sup(h, y, z)), ANC(x, z)), [(ANC(x, y), h.cnt(h.f('super_assets', y), z))]),
        FA([x, y, z], z3.Implies(z3.And(sup(h, x, y), ANC(y, z)), ANC(x, z)), [(h.cnt(h.f('super_assets', x), y), ANC(y, z))]),
        # unfolding (valid for the least fixed point): an ancestor is the node itself or an ancestor of one of its parents
        # (trigger: only for assets whose super_assets list is looked at — unfolding the Skolem parent again would be a matching loop)
        FA([x, z], z3.Implies(z3.And(ANC(x, z), x != z), z3.Exists([y], z3.And(sup(h, x, y), ANC(y, z)))), [(ANC(x, z), h.f('super_assets', x))]),
    ]


def wf_inheritance(h: H):
    """wf_lang on language-graph objects: single inheritance, acyclic (ghost height ldepth)"""
    x, s = A('x!wi'), A('s!wi')
    v = z3.Const('v!wi', Val)
    return z3.And(
        FA([x, s], z3.Implies(sup(h, x, s), z3.And(ldepth(s) >= 0, ldepth(s) < ldepth(x))), [h.cnt(h.f('super_assets', x), s)]),
        FA([x], z3.And(h.len(h.f('super_assets', x)) <= 1, ldepth(x) >= 0), [h.f('super_assets', x)]),
        FA([x, v], z3.Implies(h.bag(h.f('super_assets', x), v) > 0, is_VRef(v)), [h.bag(h.f('super_assets', x), v)]))
