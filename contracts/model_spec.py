"""Specification library for the instance model (model.py): assumed object model of python_jsonschema_objects (PJS),
model view, wf_model."""
from __future__ import annotations
import z3
from pyvc.theory import *
from pyvc.contract import *
from .graph_spec import A, FA, inv_fn, distinct_by

ASSET, ASSOC, MODEL = 'Asset', 'Association', 'Model'


def install_schema(reg: Registry):
    s = reg.schema
    # PJS (assumed): an asset is a heap object with `name`, `id`, `type`, a back-reference list `associations`;
    # an association object has exactly two array properties; their names are modelled as the ghost-like fields
    # lname / rname (schema order) and their contents as lfield / rfield (the list objects the library wraps).
    s.add_class(ASSET, {'name': T.str, 'id': T('int', opt=True), 'type': T.str, 'associations': List(Obj(ASSOC)),
                        'attack_step_nodes': List(Obj('AttackGraphNode'))})
    s.add_class(ASSOC, {'lname': T.str, 'rname': T.str, 'lfield': List(Obj(ASSET)), 'rfield': List(Obj(ASSET)), 'clsname': T.str})
    s.add_class(MODEL, {'name': T.str, 'assets': List(Obj(ASSET)), 'associations': List(Obj(ASSOC)),
                        '_type_to_association': Dict(T.str, List(Obj(ASSOC))), 'attackers': List(Obj('AttackerAttachment'))})
    reg.classes[ASSOC] = ClassInfo(ASSOC, None, False)
    reg.classes[ASSOC].class_name_field = 'clsname'
    # mutators (c_modelmut.py): index sets, id counter; PJS attributes that exist only once assigned (`name`, `extras`)
    # are modelled with ghost presence flags (hasattr(asset, 'name') <-> has_name)
    s.add_class(ASSET, {'extras': Dict(T.str, T.val), 'has_name': T.bool, 'has_extras': T.bool})
    s.add_class(ASSOC, {'extras': Dict(T.str, T.val)})
    s.add_class(MODEL, {'asset_ids': T('set', cls='set', elem=T.int), 'asset_names': T('set', cls='set', elem=T.str), 'next_id': T.int})
    s.presence[(ASSET, 'name')] = 'has_name'
    s.presence[(ASSET, 'extras')] = 'has_extras'

    def assoc_getattr(ex, st, o, name):
        a = ex.as_ref(o, st, 'getattr')
        h = st.h
        is_l, is_r = name.t == h.f('lname', a), name.t == h.f('rname', a)
        ex.side_raise(st, 'AttributeError', z3.Not(z3.Or(is_l, is_r)), 'getattr(association, unknown field)')
        r = z3.If(is_l, h.f('lfield', a), h.f('rfield', a))
        sv = st.name_sv(sv_ref(r, List(Obj(ASSET))))
        ex.assume_type(sv, st)
        return sv
    reg.classes[ASSOC].getattr_hook = assoc_getattr

    # PJS (assumed): getattr(asset, <defense name>) reads the asset's value of that defense property; modelled as a lookup in a
    # ghost dict `defvals` of the asset (AttributeError when the generated class has no such property)
    s.add_class(ASSET, {'defvals': Dict(T.str, T.val)})

    def asset_getattr(ex, st, o, name):
        a = ex.as_ref(o, st, 'getattr')
        D = st.h.f('defvals', a)
        ex.side_raise(st, 'AttributeError', z3.Not(st.h.has(D, VStr(name.t))), 'getattr(asset, <name>): no such property')
        return SV('val', st.h.val(D, VStr(name.t)), T.val)
    if ASSET not in reg.classes:
        reg.classes[ASSET] = ClassInfo(ASSET, None, False)
    reg.classes[ASSET].getattr_hook = asset_getattr


def linked_through(h: H, s, f, x, y):
    """association s links x to y through field f (y sits in the field named f, x in the opposite field)"""
    return z3.Or(z3.And(h.f('rname', s) == f, h.cnt(h.f('lfield', s), x) > 0, h.cnt(h.f('rfield', s), y) > 0),
                 z3.And(h.f('lname', s) == f, h.cnt(h.f('rfield', s), x) > 0, h.cnt(h.f('lfield', s), y) > 0))


def nav(h: H, M, f, x, y):
    """MAL field navigation on the model view: y is reached from x through field f (self-links included)"""
    s = A('s!nav')
    return z3.Exists([s], z3.And(h.cnt(h.f('associations', M), s) > 0, linked_through(h, s, f, x, y)))


def backrefs_ok(h: H, M, x):
    """wf_model, back-reference clause for asset x: x lists an association exactly when the association is in the model
    and lists x in one of its fields; field names of one association differ"""
    s = A('s!br')
    k = z3.Const('k!br', Val)
    AL = h.f('associations', x)
    return z3.And(
        FA([s], (h.cnt(AL, s) > 0) == z3.And(h.cnt(h.f('associations', M), s) > 0,
                                             z3.Or(h.cnt(h.f('lfield', s), x) > 0, h.cnt(h.f('rfield', s), x) > 0)), [h.cnt(AL, s)]),
        FA([s], z3.Implies(h.cnt(h.f('associations', M), s) > 0, h.f('lname', s) != h.f('rname', s)), [h.cnt(h.f('associations', M), s)]),
        FA([k], z3.Implies(h.bag(AL, k) > 0, is_VRef(k)), [h.bag(AL, k)]),
        FA([s, k], z3.Implies(z3.And(h.cnt(h.f('associations', M), s) > 0, h.bag(h.f('lfield', s), k) > 0), is_VRef(k)), [h.bag(h.f('lfield', s), k)]),
        FA([s, k], z3.Implies(z3.And(h.cnt(h.f('associations', M), s) > 0, h.bag(h.f('rfield', s), k) > 0), is_VRef(k)), [h.bag(h.f('rfield', s), k)]))


# ---------------------------------------------------------------------------------------------------
# wf_model (C05): the representation invariant of Model; every public mutator is verified to preserve it
AA, EP = 'AttackerAttachment', 'EPTuple'
BUCKET = '<dict value>'


def is_asset(h, M, x): return h.cnt(h.f('assets', M), x) > 0
def is_assoc(h, M, s): return h.cnt(h.f('associations', M), s) > 0
def is_attk(h, M, a): return h.cnt(h.f('attackers', M), a) > 0
def in_l(h, s, x): return h.cnt(h.f('lfield', s), x)
def in_r(h, s, x): return h.cnt(h.f('rfield', s), x)
def owned(h, l, obj, fld): return z3.And(h.own_obj(l) == obj, h.own_fld(l) == field_id(fld))
def ep_of(h, a, t): return h.cnt(h.f('entry_points', a), t) > 0


def wf_att(h: H, a, tag='wa'):
    """well-formedness of one AttackerAttachment: it owns its entry-point list, whose elements are distinct
    (asset, [step names]) tuples with pairwise different assets, each owning its list of step names"""
    t, u = A('t!' + tag), A('u!' + tag)
    k = z3.Const('k!' + tag, Val)
    E = h.f('entry_points', a)
    return [
        ('A.own', owned(h, E, a, 'entry_points')),
        ('A.elems', FA([k], z3.And(h.bag(E, k) >= 0, z3.Implies(h.bag(E, k) > 0, is_VRef(k))), [h.bag(E, k)])),
        ('A.tuples', FA([t], z3.Implies(ep_of(h, a, t), z3.And(h.cls(t) == class_id(EP), owned(h, h.f('t1', t), t, 't1'), h.cnt(E, t) <= 1)),
                        [h.cnt(E, t)])),
        ('A.one-tuple-per-asset', distinct_by(h, E, h.arr['f_t0'], lambda q: h.f('t0', q), 'tup')),
        ('A.steps', FA([t, k], z3.Implies(ep_of(h, a, t), z3.And(h.bag(h.f('t1', t), k) >= 0, z3.Implies(h.bag(h.f('t1', t), k) > 0, is_VStr(k)))),
                       [h.bag(h.f('t1', t), k)])),
    ]


def entry(h: H, a, x, step):
    """abstract view of an attachment: (asset x, step) is an entry point of a"""
    t = A('t!en')
    return z3.Exists([t], z3.And(ep_of(h, a, t), h.f('t0', t) == x, h.bag(h.f('t1', t), VStr(step)) > 0))


def wf_model(h: H, M, parts=('M0', 'M1', 'M2', 'M3', 'M4', 'M5', 'M6')):
    x, y, s, r, a, b, t, u = A('x!wm'), A('y!wm'), A('s!wm'), A('r!wm'), A('a!wm'), A('b!wm'), A('t!wm'), A('u!wm')
    k, k2 = z3.Const('k!wm', Val), z3.Const('k2!wm', Val)
    XL, SL, AL, D = h.f('assets', M), h.f('associations', M), h.f('attackers', M), h.f('_type_to_association', M)
    IDS, NMS = h.f('asset_ids', M), h.f('asset_names', M)
    out = []
    if 'M0' in parts:
        out += [
            ('M0.own.model', z3.And(*[owned(h, h.f(f, M), M, f) for f in ('assets', 'associations', 'attackers', '_type_to_association',
                                                                          'asset_ids', 'asset_names')])),
            ('M0.own.asset', FA([x], z3.Implies(is_asset(h, M, x), owned(h, h.f('associations', x), x, 'associations')), [h.f('associations', x)])),
            ('M0.own.assoc', FA([s], z3.Implies(is_assoc(h, M, s), z3.And(owned(h, h.f('lfield', s), s, 'lfield'), owned(h, h.f('rfield', s), s, 'rfield'))),
                                [h.f('lfield', s)], )),
            ('M0.own.assoc2', FA([s], z3.Implies(is_assoc(h, M, s), z3.And(owned(h, h.f('lfield', s), s, 'lfield'), owned(h, h.f('rfield', s), s, 'rfield'))),
                                 [h.f('rfield', s)], )),
            ('M0.own.bucket', FA([k], z3.Implies(h.has(D, k), z3.And(is_VRef(h.val(D, k)), is_VStr(k), owned(h, v_a(h.val(D, k)), D, BUCKET),
                                                                    h.cls(v_a(h.val(D, k))) == CLS_LIST, v_a(h.val(D, k)) >= 0, v_a(h.val(D, k)) < h.alloc)),
                                 [h.has(D, k)], )),
            ('M0.bucket-keys', Dual(
                FA([k, k2], z3.Implies(z3.And(h.has(D, k), h.has(D, k2), h.val(D, k) == h.val(D, k2)), k == k2), [(h.has(D, k), h.has(D, k2))]),
                FA([k], z3.Implies(h.has(D, k), inv_fn('INV!bucket', SetVB, MapVV, Val, Val)(z3.Select(h.arr['D_has'], D), z3.Select(h.arr['D_val'], D), h.val(D, k)) == k),
                   [h.has(D, k)]))),
            ('M0.cls', z3.And(FA([x], z3.Implies(is_asset(h, M, x), h.cls(x) == class_id(ASSET)), [h.cnt(XL, x)]),
                              FA([s], z3.Implies(is_assoc(h, M, s), h.cls(s) == class_id(ASSOC)), [h.cnt(SL, s)]),
                              FA([a], z3.Implies(is_attk(h, M, a), h.cls(a) == class_id(AA)), [h.cnt(AL, a)]), h.cls(M) == class_id(MODEL))),
            ('M0.elems', z3.And(*[FA([k], z3.And(h.bag(L_, k) >= 0, z3.Implies(h.bag(L_, k) > 0, is_VRef(k))), [h.bag(L_, k)]) for L_ in (XL, SL, AL)])),
            ('M0.elems.assoc', z3.And(*[FA([s, k], z3.Implies(is_assoc(h, M, s), z3.And(h.bag(h.f(f, s), k) >= 0, z3.Implies(h.bag(h.f(f, s), k) > 0, is_VRef(k)))),
                                            [h.bag(h.f(f, s), k)]) for f in ('lfield', 'rfield')])),
            ('M0.elems.backrefs', FA([x, k], z3.Implies(is_asset(h, M, x), z3.And(h.bag(h.f('associations', x), k) >= 0,
                                                                                  z3.Implies(h.bag(h.f('associations', x), k) > 0, is_VRef(k)))),
                                     [h.bag(h.f('associations', x), k)])),
            ('M0.elems.bucket', FA([k, k2], z3.Implies(h.has(D, k), z3.And(h.bag(v_a(h.val(D, k)), k2) >= 0,
                                                                           z3.Implies(h.bag(v_a(h.val(D, k)), k2) > 0, is_VRef(k2)))),
                                   [h.bag(v_a(h.val(D, k)), k2)])),
        ]
    if 'M1' in parts:
        out += [
            ('M1.nodup', FA([x], h.cnt(XL, x) <= 1, [h.cnt(XL, x)])),
            ('M1.ids', FA([x], z3.Implies(is_asset(h, M, x), z3.And(is_VInt(h.f('id', x)), h.f('has_name', x))), [h.cnt(XL, x)])),
            ('M1.ids-distinct', distinct_by(h, XL, h.arr['f_id'], lambda q: h.f('id', q), 'aid')),
            ('M1.names-distinct', distinct_by(h, XL, h.arr['f_name'], lambda q: h.f('name', q), 'anm')),
        ]
    if 'M2' in parts:
        out += [
            ('M2.ids.complete', FA([x], z3.Implies(is_asset(h, M, x), h.has(IDS, h.f('id', x))), [h.cnt(XL, x)])),
            ('M2.ids.sound', FA([k], z3.Implies(h.has(IDS, k), z3.Exists([x], z3.And(is_asset(h, M, x), h.f('id', x) == k))), [h.has(IDS, k)])),
            ('M2.names.complete', FA([x], z3.Implies(is_asset(h, M, x), h.has(NMS, VStr(h.f('name', x)))), [h.cnt(XL, x)])),
            ('M2.names.sound', FA([k], z3.Implies(h.has(NMS, k), z3.Exists([x], z3.And(is_asset(h, M, x), VStr(h.f('name', x)) == k))), [h.has(NMS, k)])),
        ]
    if 'M3' in parts:
        out += [
            ('M3.nodup', FA([s], h.cnt(SL, s) <= 1, [h.cnt(SL, s)])),
            ('M3.field-names', FA([s], z3.Implies(is_assoc(h, M, s), h.f('lname', s) != h.f('rname', s)), [h.cnt(SL, s)])),
            ('M3.closed.l', FA([s, x], z3.Implies(z3.And(is_assoc(h, M, s), in_l(h, s, x) > 0), is_asset(h, M, x)), [in_l(h, s, x)])),
            ('M3.closed.r', FA([s, x], z3.Implies(z3.And(is_assoc(h, M, s), in_r(h, s, x) > 0), is_asset(h, M, x)), [in_r(h, s, x)])),
            ('M3.field-nodup', FA([s, x], z3.Implies(is_assoc(h, M, s), z3.And(in_l(h, s, x) <= 1, in_r(h, s, x) <= 1)), [in_l(h, s, x)], )),
            ('M3.field-nodup2', FA([s, x], z3.Implies(is_assoc(h, M, s), z3.And(in_l(h, s, x) <= 1, in_r(h, s, x) <= 1)), [in_r(h, s, x)], )),
            # an asset lists an association exactly when (once) that association is in the model and lists the asset
            ('M3.backrefs', FA([x, s], z3.Implies(is_asset(h, M, x), h.cnt(h.f('associations', x), s) ==
                                                  z3.If(z3.And(is_assoc(h, M, s), z3.Or(in_l(h, s, x) > 0, in_r(h, s, x) > 0)), 1, 0)),
                               [h.cnt(h.f('associations', x), s)])),
        ]
    if 'M4' in parts:
        out += [
            ('M4.bucket.complete', FA([s], z3.Implies(is_assoc(h, M, s), z3.And(h.has(D, VStr(h.f('clsname', s))),
                                                                               h.cnt(v_a(h.val(D, VStr(h.f('clsname', s)))), s) == 1)), [h.cnt(SL, s)])),
            ('M4.bucket.nonempty', FA([k], z3.Implies(h.has(D, k), h.len(v_a(h.val(D, k))) > 0), [h.has(D, k)])),
            ('M4.bucket.sound', FA([k, s], z3.Implies(z3.And(h.has(D, k), h.cnt(v_a(h.val(D, k)), s) > 0),
                                                      z3.And(is_assoc(h, M, s), VStr(h.f('clsname', s)) == k, h.cnt(v_a(h.val(D, k)), s) == 1)),
                                   [h.cnt(v_a(h.val(D, k)), s)])),
        ]
    if 'M5' in parts:
        E = lambda q: h.f('entry_points', q)
        out += [
            ('M5.nodup', FA([a], h.cnt(AL, a) <= 1, [h.cnt(AL, a)])),
            ('M5.own', FA([a], z3.Implies(is_attk(h, M, a), owned(h, E(a), a, 'entry_points')), [E(a)])),
            ('M5.elems', FA([a, k], z3.Implies(is_attk(h, M, a), z3.And(h.bag(E(a), k) >= 0, z3.Implies(h.bag(E(a), k) > 0, is_VRef(k)))), [h.bag(E(a), k)])),
            ('M5.tuples', FA([a, t], z3.Implies(z3.And(is_attk(h, M, a), ep_of(h, a, t)),
                                                z3.And(h.cls(t) == class_id(EP), owned(h, h.f('t1', t), t, 't1'), h.cnt(E(a), t) <= 1,
                                                       is_asset(h, M, h.f('t0', t)))), [h.cnt(E(a), t)])),
            ('M5.one-tuple-per-asset', Dual(
                FA([a, t, u], z3.Implies(z3.And(is_attk(h, M, a), ep_of(h, a, t), ep_of(h, a, u), h.f('t0', t) == h.f('t0', u)), t == u),
                   [(h.cnt(E(a), t), h.cnt(E(a), u))]),
                FA([a, t], z3.Implies(z3.And(is_attk(h, M, a), ep_of(h, a, t)),
                                      inv_fn('INV!tup!Int', BagSort, h.arr['f_t0'].sort(), Addr, Addr)(h.bagof(E(a)), h.arr['f_t0'], h.f('t0', t)) == t), [h.cnt(E(a), t)]))),
            ('M5.tuples-unshared', Dual(
                FA([a, b, t], z3.Implies(z3.And(is_attk(h, M, a), is_attk(h, M, b), ep_of(h, a, t), ep_of(h, b, t)), a == b),
                   [(h.cnt(E(a), t), h.cnt(E(b), t))]),
                FA([a, t], z3.Implies(z3.And(is_attk(h, M, a), ep_of(h, a, t)),
                                      inv_fn('INV!owner', BagSort, h.arr['f_entry_points'].sort(), h.arr['L_bag'].sort(), Addr, Addr)(
                                          h.bagof(AL), h.arr['f_entry_points'], h.arr['L_bag'], t) == a), [h.cnt(E(a), t)]))),
            ('M5.steps', FA([a, t, k], z3.Implies(z3.And(is_attk(h, M, a), ep_of(h, a, t)),
                                                  z3.And(h.bag(h.f('t1', t), k) >= 0, z3.Implies(h.bag(h.f('t1', t), k) > 0, is_VStr(k)))),
                            [(h.cnt(E(a), t), h.bag(h.f('t1', t), k))])),
        ]
    if 'M6' in parts:
        # C06: no pair of assets is linked twice by associations of one class (a link that already exists is rejected)
        link = lambda q, a_, b_: z3.And(in_l(h, q, a_) > 0, in_r(h, q, b_) > 0)
        OWNER = inv_fn('INV!link', BagSort, h.arr['L_bag'].sort(), h.arr['f_lfield'].sort(), h.arr['f_rfield'].sort(), Str, Addr, Addr, Addr)
        out.append(('M6.no-duplicate-links', Dual(
            FA([s, r, x, y], z3.Implies(z3.And(is_assoc(h, M, s), is_assoc(h, M, r), h.f('clsname', s) == h.f('clsname', r), link(s, x, y), link(r, x, y)), s == r),
               [(in_l(h, s, x), in_r(h, s, y), in_l(h, r, x), in_r(h, r, y))]),
            FA([s, x, y], z3.Implies(z3.And(is_assoc(h, M, s), link(s, x, y)),
                                     OWNER(h.bagof(SL), h.arr['L_bag'], h.arr['f_lfield'], h.arr['f_rfield'], h.f('clsname', s), x, y) == s),
               [(in_l(h, s, x), in_r(h, s, y))]))))
    return out
