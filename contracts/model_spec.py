"""Specification library for the instance model (model.py): assumed object model of python_jsonschema_objects (PJS),
model view, wf_model."""
from __future__ import annotations
import z3
from pyvc.theory import *
from pyvc.contract import *
from .graph_spec import A, FA

ASSET, ASSOC, MODEL = 'Asset', 'Association', 'Model'


def install_schema(reg: Registry):
    s = reg.schema
    # PJS (assumed): an asset is a heap object with `name`, `id`, `type`, a back-reference list `associations`;
    # an association object has exactly two array properties; their names are modelled as the ghost-like fields
    # lname / rname (schema order) and their contents as lfield / rfield (the list objects the library wraps).
    s.add_class(ASSET, {'name': T.str, 'id': T('int', opt=True), 'type': T.str, 'associations': List(Obj(ASSOC)),
                        'attack_step_nodes': List(Obj('AttackGraphNode'))})
    s.add_class(ASSOC, {'lname': T.str, 'rname': T.str, 'lfield': List(Obj(ASSET)), 'rfield': List(Obj(ASSET)), 'clsname': T.str})
    s.add_class(MODEL, {'name': T.str, 'assets': List(Obj(ASSET)), 'associations': List(Obj(ASSOC)),
                        '_type_to_association': Dict(T.str, List(Obj(ASSOC))), 'attackers': List(Obj('AttackerAttachment'))})
    reg.classes[ASSOC] = ClassInfo(ASSOC, None, False)

    def assoc_getattr(ex, st, o, name):
        a = ex.as_ref(o, st, 'getattr')
        h = st.h
        is_l, is_r = name.t == h.f('lname', a), name.t == h.f('rname', a)
        ex.side_raise(st, 'AttributeError', z3.Not(z3.Or(is_l, is_r)), 'getattr(association, unknown field)')
        r = z3.If(is_l, h.f('lfield', a), h.f('rfield', a))
        sv = st.name_sv(sv_ref(r, List(Obj(ASSET))))
        ex.assume_type(sv, st)
        return sv
    reg.classes[ASSOC].getattr_hook = assoc_getattr


def linked_through(h: H, s, f, x, y):
    """association s links x to y through field f (y sits in the field named f, x in the opposite field)"""
    return z3.Or(z3.And(h.f('rname', s) == f, h.cnt(h.f('lfield', s), x) > 0, h.cnt(h.f('rfield', s), y) > 0),
                 z3.And(h.f('lname', s) == f, h.cnt(h.f('rfield', s), x) > 0, h.cnt(h.f('lfield', s), y) > 0))


def nav(h: H, M, f, x, y):
    """MAL field navigation on the model view: y is reached from x through field f (self-links included)"""
    s = A('s!nav')
    return z3.Exists([s], z3.And(h.cnt(h.f('associations', M), s) > 0, linked_through(h, s, f, x, y)))


def backrefs_ok(h: H, M, x):
    """wf_model, back-reference clause for asset x: x lists an association exactly when the association is in the model
    and lists x in one of its fields; field names of one association differ"""
    s = A('s!br')
    k = z3.Const('k!br', Val)
    AL = h.f('associations', x)
    return z3.And(
        FA([s], (h.cnt(AL, s) > 0) == z3.And(h.cnt(h.f('associations', M), s) > 0,
                                             z3.Or(h.cnt(h.f('lfield', s), x) > 0, h.cnt(h.f('rfield', s), x) > 0)), [h.cnt(AL, s)]),
        FA([s], z3.Implies(h.cnt(h.f('associations', M), s) > 0, h.f('lname', s) != h.f('rname', s)), [h.cnt(h.f('associations', M), s)]),
        FA([k], z3.Implies(h.bag(AL, k) > 0, is_VRef(k)), [h.bag(AL, k)]),
        FA([s, k], z3.Implies(z3.And(h.cnt(h.f('associations', M), s) > 0, h.bag(h.f('lfield', s), k) > 0), is_VRef(k)), [h.bag(h.f('lfield', s), k)]),
        FA([s, k], z3.Implies(z3.And(h.cnt(h.f('associations', M), s) > 0, h.bag(h.f('rfield', s), k) > 0), is_VRef(k)), [h.bag(h.f('rfield', s), k)]))
