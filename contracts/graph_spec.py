"""
Shared specification library for the attack-graph side (DESIGN.md §3.1): schema of the plain classes, views,
`wf_graph(G)` (W0..W5), spec function full_name.  Everything here is specification: nothing is copied from /repo.
"""
from __future__ import annotations
import z3
from pyvc.theory import *
from pyvc.contract import *

NODE, ATT, GRAPH = 'AttackGraphNode', 'Attacker', 'AttackGraph'


def install_schema(reg: Registry):
    s = reg.schema
    s.add_class(NODE, {
        'type': T.str, 'name': T.str, 'ttc': Dict(T.str, T.val, opt=True), 'id': T('int', opt=True),
        'asset': Obj('Asset', opt=True), 'children': List(Obj(NODE)), 'parents': List(Obj(NODE)),
        'defense_status': T('real', opt=True), 'existence_status': T('bool', opt=True),
        'is_viable': T.bool, 'is_necessary': T.bool, 'compromised_by': List(Obj(ATT)),
        'mitre_info': T('str', opt=True), 'tags': List(T.str), 'attributes': Dict(T.str, T.val, opt=True),
        'extras': Dict(T.str, T.val),
    })
    s.add_class(ATT, {
        'name': T.str, 'entry_points': List(Obj(NODE)), 'reached_attack_steps': List(Obj(NODE)), 'id': T('int', opt=True),
    })
    s.add_class(GRAPH, {
        'nodes': List(Obj(NODE)), 'attackers': List(Obj(ATT)),
        '_id_to_node': Dict(T.int, Obj(NODE)), '_full_name_to_node': Dict(T.str, Obj(NODE)),
        '_id_to_attacker': Dict(T.int, Obj(ATT)),
        'model': Obj('Model', opt=True), 'lang_graph': Obj('LanguageGraph', opt=True),
        'next_node_id': T.int, 'next_attacker_id': T.int,
    })
    s.add_class('Asset', {'name': T.str, 'id': T('int', opt=True), 'type': T.str})
    # the parts of the instance model the attack-graph side reads (model.py has its own contract file)
    s.add_class('EPTuple', {'t0': Obj('Asset'), 't1': List(T.str)})          # (asset, [step names]) entry-point tuple
    s.add_class('AttackerAttachment', {'name': T('str', opt=True), 'entry_points': List(Obj('EPTuple')), 'id': T('int', opt=True)})
    s.add_class('Model', {'name': T.str, 'attackers': List(Obj('AttackerAttachment')), 'assets': List(Obj('Asset'))})

    def dflt_none(ex, st): return SV_NONE
    def dflt_list(elem): return lambda ex, st: ex.new_list(st, elem)
    def dflt_dict(ex, st): return ex.new_dict(st, T.str, T.val)
    def dflt_true(ex, st): return sv_bool(True)
    reg.classes[NODE] = ClassInfo(NODE, 'maltoolbox.attackgraph.node', True, [
        ('type', None), ('name', None), ('ttc', dflt_none), ('id', dflt_none), ('asset', dflt_none),
        ('children', dflt_list(Obj(NODE))), ('parents', dflt_list(Obj(NODE))), ('defense_status', dflt_none),
        ('existence_status', dflt_none), ('is_viable', dflt_true), ('is_necessary', dflt_true),
        ('compromised_by', dflt_list(Obj(ATT))), ('mitre_info', dflt_none), ('tags', dflt_list(T.str)),
        ('attributes', dflt_none), ('extras', dflt_dict)])
    reg.classes[ATT] = ClassInfo(ATT, 'maltoolbox.attackgraph.attacker', True, [
        ('name', None), ('entry_points', dflt_list(Obj(NODE))), ('reached_attack_steps', dflt_list(Obj(NODE))),
        ('id', dflt_none)])
    reg.classes[GRAPH] = ClassInfo(GRAPH, 'maltoolbox.attackgraph.attackgraph', False)
    reg.classes['EPTuple'] = ClassInfo('EPTuple', None, False, tuple_fields=['t0', 't1'])
    reg.classes['AttackerAttachment'] = ClassInfo('AttackerAttachment', 'maltoolbox.model', False)
    reg.classes['Model'] = ClassInfo('Model', 'maltoolbox.model', False)
    reg.classes['Asset'] = ClassInfo('Asset', None, False)
    reg.add_exception('AttackGraphException')
    reg.add_exception('AttackGraphStepExpressionError')


# ---------------------------------------------------------------------------------------------------
# views

def nodes_l(h, G): return h.f('nodes', G)
def atts_l(h, G): return h.f('attackers', G)
def is_node(h, G, n): return h.cnt(nodes_l(h, G), n) > 0
def is_att(h, G, a): return h.cnt(atts_l(h, G), a) > 0
def ch(h, n, c): return h.cnt(h.f('children', n), c)
def pa(h, n, p): return h.cnt(h.f('parents', n), p)
def cb(h, n, a): return h.cnt(h.f('compromised_by', n), a)
def reached(h, a, n): return h.cnt(h.f('reached_attack_steps', a), n)
def entry(h, a, n): return h.cnt(h.f('entry_points', a), n)

COLON = None


def full_name(h, n):
    """spec function of AttackGraphNode.full_name (A.1): asset.name + ':' + name if asset else str(id) + ':' + name"""
    asset = h.f('asset', n)
    nm = h.f('name', n)
    idv = h.f('id', n)
    with_asset = concat(concat(h.f('name', v_a(asset)), str_const(':')), nm)
    without = concat(concat(z3.If(is_VInt(idv), py_str(v_i(idv)), str_of_val(idv)), str_const(':')), nm)
    return z3.If(is_VNone(asset), without, with_asset)


_fn_cache = {}


def full_name_fn(h):
    """(FN, axiom): an uninterpreted function equal to full_name over heap h — usable inside quantifier patterns"""
    key = (h.arr['f_asset'].get_id(), h.arr['f_name'].get_id(), h.arr['f_id'].get_id())
    if key not in _fn_cache:
        fn = z3.Function('FN!%d' % len(_fn_cache), Addr, Str)
        x = z3.Const('x!fn', Addr)
        _fn_cache[key] = (fn, z3.ForAll([x], fn(x) == full_name(h, x), patterns=[fn(x)]))
    return _fn_cache[key]


def A(name): return z3.Const(name, Addr)


def FA(vs, body, pats):
    """pats: list of alternative triggers; a tuple entry is a multi-pattern"""
    ps = [z3.MultiPattern(*p) if isinstance(p, tuple) else p for p in pats]
    return z3.ForAll(vs, body, patterns=ps)


_INV = {}


def inv_fn(name, *sorts):
    if name not in _INV:
        _INV[name] = z3.Function(name, *sorts)
    return _INV[name]


def distinct_by(h: H, L, keyarr, key_of, tag, guard=None):
    """members of list L have pairwise different keys.  goal: pairwise; hyp: an inverse function from keys back to members
    (INV(bag row of L, key array, key(x)) == x) — a Skolemised consequence of the pairwise form"""
    x, y = A('x!' + tag), A('y!' + tag)
    g = guard or (lambda q: z3.BoolVal(True))
    row = h.bagof(L)
    ksort = key_of(x).sort()
    F = inv_fn('INV!%s!%s' % (tag.split('.')[0], ksort.name()), row.sort(), keyarr.sort(), ksort, Addr)
    goal = FA([x, y], z3.Implies(z3.And(h.cnt(L, x) > 0, h.cnt(L, y) > 0, g(x), g(y), key_of(x) == key_of(y)), x == y), [(h.cnt(L, x), h.cnt(L, y))])
    hyp = FA([x], z3.Implies(z3.And(h.cnt(L, x) > 0, g(x)), F(row, keyarr, key_of(x)) == x), [h.cnt(L, x)])
    return Dual(goal, hyp)



NODE_LISTS = ('children', 'parents', 'compromised_by')     # containers a node owns exclusively (tags may be shared with node.attributes)
ATT_LISTS = ('entry_points', 'reached_attack_steps')
GRAPH_CONT = ('nodes', 'attackers', '_id_to_node', '_full_name_to_node', '_id_to_attacker')


def wf_graph(h: H, G, parts=('W0', 'W1', 'W2', 'W3', 'W4', 'W5')):
    n, m, a, b = A('n!w'), A('m!w'), A('a!w'), A('b!w')
    k = z3.Const('k!w', Val)
    out = []
    NL, AL = nodes_l(h, G), atts_l(h, G)
    if 'W0' in parts:
        # ownership / separation of the mutable containers
        for f in NODE_LISTS + ('extras',):
            out.append(('W0.own.node.' + f, FA([n], z3.Implies(is_node(h, G, n), z3.And(h.own_obj(h.f(f, n)) == n, h.own_fld(h.f(f, n)) == field_id(f))),
                                                [h.f(f, n)])))
        for f in ATT_LISTS:
            out.append(('W0.own.att.' + f, FA([a], z3.Implies(is_att(h, G, a), z3.And(h.own_obj(h.f(f, a)) == a, h.own_fld(h.f(f, a)) == field_id(f))),
                                               [h.f(f, a)])))
        out.append(('W0.own.graph', z3.And(*[z3.And(h.own_obj(h.f(f, G)) == G, h.own_fld(h.f(f, G)) == field_id(f)) for f in GRAPH_CONT])))
        out.append(('W0.cls', z3.And(
            FA([n], z3.Implies(is_node(h, G, n), h.cls(n) == class_id(NODE)), [h.cnt(NL, n)]),
            FA([a], z3.Implies(is_att(h, G, a), h.cls(a) == class_id(ATT)), [h.cnt(AL, a)]),
            h.cls(G) == class_id(GRAPH))))
        out.append(('W0.elems', z3.And(
            FA([k], z3.Implies(h.bag(NL, k) > 0, is_VRef(k)), [h.bag(NL, k)]),
            FA([k], z3.Implies(h.bag(AL, k) > 0, is_VRef(k)), [h.bag(AL, k)]))))
        for f in ('children', 'parents', 'compromised_by'):
            out.append(('W0.elems.node.' + f, FA([n, k], z3.Implies(z3.And(is_node(h, G, n), h.bag(h.f(f, n), k) > 0), is_VRef(k)),
                                                 [h.bag(h.f(f, n), k)])))
        for f in ATT_LISTS:
            out.append(('W0.elems.att.' + f, FA([a, k], z3.Implies(z3.And(is_att(h, G, a), h.bag(h.f(f, a), k) > 0), is_VRef(k)),
                                                [h.bag(h.f(f, a), k)])))
    if 'W1' in parts:
        out.append(('W1.ids', FA([n], z3.Implies(is_node(h, G, n), z3.And(is_VInt(h.f('id', n)), v_i(h.f('id', n)) < h.f('next_node_id', G))),
                                 [h.cnt(NL, n)])))
        out.append(('W1.distinct', distinct_by(h, NL, h.arr['f_id'], lambda q: h.f('id', q), 'nid')))
        out.append(('W1.nodup', FA([n], h.cnt(NL, n) <= 1, [h.cnt(NL, n)])))
    if 'W2' in parts:
        D = h.f('_id_to_node', G)
        out.append(('W2.id.complete', FA([n], z3.Implies(is_node(h, G, n), z3.And(h.has(D, h.f('id', n)), h.val(D, h.f('id', n)) == VRef(n))),
                                         [h.cnt(NL, n)])))
        out.append(('W2.id.sound', FA([k], z3.Implies(h.has(D, k), z3.And(is_VRef(h.val(D, k)), is_node(h, G, v_a(h.val(D, k))),
                                                                          h.f('id', v_a(h.val(D, k))) == k)), [h.has(D, k)])))
        F = h.f('_full_name_to_node', G)
        out.append(('W2.name.complete', FA([n], z3.Implies(is_node(h, G, n), z3.And(h.has(F, VStr(full_name(h, n))),
                                                                                     h.val(F, VStr(full_name(h, n))) == VRef(n))), [h.cnt(NL, n)])))
        out.append(('W2.name.sound', FA([k], z3.Implies(h.has(F, k), z3.And(is_VRef(h.val(F, k)), is_node(h, G, v_a(h.val(F, k))),
                                                                            VStr(full_name(h, v_a(h.val(F, k)))) == k)), [h.has(F, k)])))
    if 'W3' in parts:
        out.append(('W3.children.closed', FA([n, m], z3.Implies(z3.And(is_node(h, G, n), ch(h, n, m) > 0), is_node(h, G, m)), [ch(h, n, m)])))
        out.append(('W3.parents.closed', FA([n, m], z3.Implies(z3.And(is_node(h, G, n), pa(h, n, m) > 0), is_node(h, G, m)), [pa(h, n, m)])))
        out.append(('W3.mirror', FA([n, m], z3.Implies(z3.And(is_node(h, G, n), is_node(h, G, m)), ch(h, n, m) == pa(h, m, n)),
                                    [ch(h, n, m)], ) ))
        out.append(('W3.mirror2', FA([n, m], z3.Implies(z3.And(is_node(h, G, n), is_node(h, G, m)), ch(h, n, m) == pa(h, m, n)),
                                     [pa(h, m, n)])))
    if 'W4' in parts:
        out.append(('W4.ids', FA([a], z3.Implies(is_att(h, G, a), z3.And(is_VInt(h.f('id', a)), v_i(h.f('id', a)) < h.f('next_attacker_id', G))),
                                 [h.cnt(AL, a)])))
        out.append(('W4.distinct', distinct_by(h, AL, h.arr['f_id'], lambda q: h.f('id', q), 'tid')))
        out.append(('W4.nodup', FA([a], h.cnt(AL, a) <= 1, [h.cnt(AL, a)])))
        D = h.f('_id_to_attacker', G)
        out.append(('W4.idx.complete', FA([a], z3.Implies(is_att(h, G, a), z3.And(h.has(D, h.f('id', a)), h.val(D, h.f('id', a)) == VRef(a))),
                                          [h.cnt(AL, a)])))
        out.append(('W4.idx.sound', FA([k], z3.Implies(h.has(D, k), z3.And(is_VRef(h.val(D, k)), is_att(h, G, v_a(h.val(D, k))),
                                                                           h.f('id', v_a(h.val(D, k))) == k)), [h.has(D, k)])))
        out.append(('W4.reached.closed', FA([a, n], z3.Implies(z3.And(is_att(h, G, a), reached(h, a, n) > 0), is_node(h, G, n)), [reached(h, a, n)])))
        out.append(('W4.entry.closed', FA([a, n], z3.Implies(z3.And(is_att(h, G, a), entry(h, a, n) > 0), is_node(h, G, n)), [entry(h, a, n)])))
        out.append(('W4.cb.closed', FA([n, a], z3.Implies(z3.And(is_node(h, G, n), cb(h, n, a) > 0), is_att(h, G, a)), [cb(h, n, a)])))
    if 'W5' in parts:
        out.append(('W5.agree', FA([a, n], z3.Implies(z3.And(is_att(h, G, a), is_node(h, G, n)),
                                                      z3.And(reached(h, a, n) == cb(h, n, a), reached(h, a, n) <= 1, reached(h, a, n) >= 0)),
                                   [reached(h, a, n)])))
        out.append(('W5.agree2', FA([a, n], z3.Implies(z3.And(is_att(h, G, a), is_node(h, G, n)),
                                                       z3.And(reached(h, a, n) == cb(h, n, a), cb(h, n, a) <= 1, cb(h, n, a) >= 0)),
                                    [cb(h, n, a)])))
    return out


def bags_nonneg(h: H, lists):
    """bag multiplicities are >= 0 (list-theory axiom instance for the named lists)"""
    v = z3.Const('v!nn', Val)
    return [FA([v], h.bag(l, v) >= 0, [h.bag(l, v)]) for l in lists]


def list_unchanged(old: H, new: H, l):
    return z3.And(new.bagof(l) == old.bagof(l), new.len(l) == old.len(l),
                  z3.Select(new.arr['L_at'], l) == z3.Select(old.arr['L_at'], l))


def lists_unchanged_except(old: H, new: H, excepted):
    """every list object other than the excepted addresses keeps len/at/bag"""
    l = A('l!fr')
    cond = z3.And(*[l != e for e in excepted]) if excepted else z3.BoolVal(True)
    return z3.And(
        FA([l], z3.Implies(cond, new.bagof(l) == old.bagof(l)), [new.bagof(l)]),
        FA([l], z3.Implies(cond, new.len(l) == old.len(l)), [new.len(l)]),
        FA([l], z3.Implies(cond, z3.Select(new.arr['L_at'], l) == z3.Select(old.arr['L_at'], l)), [z3.Select(new.arr['L_at'], l)]))
