"""Contracts for maltoolbox/model.py under the assumed object model of python_jsonschema_objects (PJS, PJS-EQ)."""
from __future__ import annotations
import z3
from pyvc.theory import *
from pyvc.contract import *
from .graph_spec import A, FA
from .model_spec import *
from .lang_spec import spec_heap, agree
from pyvc.state import heap_closed

MM = 'maltoolbox.model'


def install(reg: Registry):
    install_schema(reg)

    # PJS (assumed): association._properties.keys() yields the two field names in schema order
    reg.add(Contract(MM + ':Model.get_association_field_names', {'self': Obj(MODEL), 'association': Obj(ASSOC)},
                     returns=T('tuple', elts=[T.str, T.str]), trusted=True,
                     ensures=lambda c: [('names', z3.And(c.result.elts[0].t == c.old.f('lname', c.association),
                                                         c.result.elts[1].t == c.old.f('rname', c.association)))],
                     note='PJS: `_properties.keys()` of a generated association object are its two field names, in schema order'))

    # ---- Model.get_associated_assets_by_field_name (C01, C05)
    def HS(c):
        return spec_heap(c.old.schema)

    def requires(c):
        # the model is read through a snapshot HS that the current heap agrees with (the function writes nothing old)
        hs = HS(c)
        return [('HS.agree', agree(hs, c.old)), ('HS.closed', z3.And(*heap_closed(hs))),
                ('HS.objects', z3.And(c.self >= 0, c.self < hs.alloc, c.asset >= 0, c.asset < hs.alloc)),
                ('backrefs', backrefs_ok(hs, c.self, c.asset))]

    def frame(o, h):
        l = A('l!gf')
        return z3.And(*[FA([l], z3.Implies(z3.And(l >= 0, l < o.alloc), z3.Select(h.arr[n], l) == z3.Select(o.arr[n], l)), [z3.Select(h.arr[n], l)])
                        for n in h.arr if not z3.eq(h.arr[n], o.arr[n])], z3.BoolVal(True))

    def member(o, done, f, x, y):
        s = A('s!gm')
        return z3.Exists([s], z3.And(z3.Select(done, VRef(s)) > 0, linked_through(o, s, f, x, y)))

    def inv(c: LCtx):
        o, h = c.old, c.h
        acc = c.ret().t
        y = A('y!gi')
        v = z3.Const('v!gi', Val)
        l = A('l!gi')
        return [
            ('fresh', z3.And(acc >= o.alloc, acc < h.alloc, h.cls(acc) == CLS_LIST)),
            ('old-lists', frame(o, h)),
            ('elems', FA([v], z3.Implies(h.bag(acc, v) > 0, is_VRef(v)), [h.bag(acc, v)])),
            ('members', FA([y], (h.cnt(acc, y) > 0) == member(HS(c), c.done, c.field_name, c.asset, y), [h.cnt(acc, y)])),
        ]

    def ensures(c):
        o, h = c.old, c.h
        y = A('y!ge')
        l = A('l!ge')
        return [
            ('fresh', c.res >= o.alloc),
            ('fresh2', z3.And(c.res < h.alloc, h.cls(c.res) == CLS_LIST)),
            ('elems', FA([z3.Const('v!ge', Val)], z3.Implies(h.bag(c.res, z3.Const('v!ge', Val)) > 0, is_VRef(z3.Const('v!ge', Val))), [h.bag(c.res, z3.Const('v!ge', Val))])),
            ('neighbours', FA([y], (h.cnt(c.res, y) > 0) == nav(HS(c), c.self, c.field_name, c.asset, y), [h.cnt(c.res, y)])),
            ('old-lists', frame(o, h)),
            ('no-fresh-dicts', FA([l], z3.Implies(z3.And(l >= o.alloc, l < h.alloc), h.cls(l) != CLS_DICT), [h.cls(l)])),
        ]

    reg.add(Contract(MM + ':Model.get_associated_assets_by_field_name', {'self': Obj(MODEL), 'asset': Obj(ASSET), 'field_name': T.str},
                     returns=List(Obj(ASSET)), requires=requires, ensures=ensures,
                     modifies=LIST_ARRAYS + ('cls', 'own_obj'), allocates=True, loops={0: LoopSpec(inv)}, props=('C01', 'C05')))


def install_lookups(reg: Registry):
    K = lambda s_: VStr(str_const(s_))

    # ---- get_asset_by_id / get_asset_by_name / get_attacker_by_id : first element of the list with that key, None if none
    def first_with(list_field, key_field, argname, elem_cls, by_val):
        def ens(c):
            o = c.old
            L = o.f(list_field, c.self)
            x = A('x!fw')
            key = (lambda q: o.f(key_field, q))
            arg = to_val(c.sv(argname)) if by_val else c.sv(argname).t
            match = lambda q: (key(q) == arg)
            return [('hit-is-member-with-key', z3.Implies(is_VRef(c.res), z3.And(o.cnt(L, v_a(c.res)) > 0, match(v_a(c.res))))),
                    ('none-iff-no-member-has-key', is_VNone(c.res) == z3.Not(z3.Exists([x], z3.And(o.cnt(L, x) > 0, match(x))))),
                    ('ref-or-none', z3.Or(is_VRef(c.res), is_VNone(c.res)))]
        return ens
    reg.add(Contract(MM + ':Model.get_asset_by_id', {'self': Obj(MODEL), 'asset_id': T('int', opt=True)}, returns=Obj(ASSET, opt=True), pure=True,
                     ensures=first_with('assets', 'id', 'asset_id', ASSET, True), props=('C05', 'C07')))
    reg.add(Contract(MM + ':Model.get_asset_by_name', {'self': Obj(MODEL), 'asset_name': T.str}, returns=Obj(ASSET, opt=True), pure=True,
                     ensures=first_with('assets', 'name', 'asset_name', ASSET, False), props=('C05', 'C10')))
    reg.add(Contract(MM + ':Model.get_attacker_by_id', {'self': Obj(MODEL), 'attacker_id': T.int}, returns=Obj('AttackerAttachment', opt=True), pure=True,
                     ensures=first_with('attackers', 'id', 'attacker_id', 'AttackerAttachment', True), props=('C05',)))

    # ---- association_exists_between_assets (C06 "adding a link that already exists is rejected", C05)
    def links(h, s, l, r):
        """association s links (an asset with the id of) l on its left field to (an asset with the id of) r on its right field"""
        x, y = A('x!lk'), A('y!lk')
        return z3.And(z3.Exists([x], z3.And(h.cnt(h.f('lfield', s), x) > 0, h.f('id', x) == h.f('id', l)), patterns=[h.cnt(h.f('lfield', s), x)]),
                      z3.Exists([y], z3.And(h.cnt(h.f('rfield', s), y) > 0, h.f('id', y) == h.f('id', r)), patterns=[h.cnt(h.f('rfield', s), y)]))
    reg.links_by_id = links

    def exists_link(o, M, ty, l, r):
        s = A('s!el')
        return z3.Exists([s], z3.And(o.cnt(o.f('associations', M), s) > 0, o.f('clsname', s) == ty, links(o, s, l, r)),
                         patterns=[o.cnt(o.f('associations', M), s)])
    reg.exists_link = exists_link

    def ae_inv(c: LCtx):
        o, h, M = c.old, c.h, c.self
        s = A('s!ai')
        l_ = A('l!ai')
        D, k = o.f('_type_to_association', M), VStr(c.association_type)
        return [('no-match-so-far', FA([s], z3.Implies(z3.Select(c.done, VRef(s)) > 0, z3.Not(links(o, s, c.left_asset, c.right_asset))),
                                       [z3.Select(c.done, VRef(s))])),
                ('old', z3.And(*[FA([l_], z3.Implies(z3.And(l_ >= 0, l_ < o.alloc), z3.Select(h.arr[n], l_) == z3.Select(o.arr[n], l_)),
                                    [z3.Select(h.arr[n], l_), z3.Select(o.arr[n], l_)])
                                 for n in h.arr if not z3.eq(h.arr[n], o.arr[n])], z3.BoolVal(True))),
                # the iterated list is the bucket of that class name, or the fresh empty default
                ('bucket', z3.If(o.has(D, k), c.it == v_a(o.val(D, k)), z3.And(c.it >= o.alloc, c.hl.len(c.it) == 0)))]

    def ae_ensures(c):
        o, h = c.old, c.h
        l_ = A('l!ae')
        return [('def', c.res == exists_link(c.old, c.self, c.association_type, c.left_asset, c.right_asset))] + [
            ('pure.' + n, FA([l_], z3.Implies(z3.And(l_ >= 0, l_ < o.alloc), z3.Select(h.arr[n], l_) == z3.Select(o.arr[n], l_)),
                             [z3.Select(h.arr[n], l_), z3.Select(o.arr[n], l_)]))
            for n in h.arr if not z3.eq(h.arr[n], o.arr[n])]

    from .model_spec import wf_model
    reg.add(Contract(MM + ':Model.association_exists_between_assets',
                     {'self': Obj(MODEL), 'association_type': T.str, 'left_asset': Obj(ASSET), 'right_asset': Obj(ASSET)}, returns=T.bool,
                     requires=lambda c: [('wf.' + nm, f) for nm, f in wf_model(c.old, c.self, ('M0', 'M3', 'M4'))], ensures=ae_ensures,
                     modifies=LIST_ARRAYS + ('cls', 'own_obj'), allocates=True,
                     loops={0: LoopSpec(ae_inv, iter_src='associations')}, props=('C06', 'C05'),
                     note='EVERY association of that class is inspected (not only the first); links are compared by asset id, as the code does'))


_install_m0 = install


def install(reg: Registry):
    _install_m0(reg)
    install_lookups(reg)
