"""Contracts for maltoolbox/model.py under the assumed object model of python_jsonschema_objects (PJS, PJS-EQ)."""
from __future__ import annotations
import z3
from pyvc.theory import *
from pyvc.contract import *
from .graph_spec import A, FA
from .model_spec import *
from .lang_spec import spec_heap, agree
from pyvc.state import heap_closed

MM = 'maltoolbox.model'


def install(reg: Registry):
    install_schema(reg)

    # PJS (assumed): association._properties.keys() yields the two field names in schema order
    reg.add(Contract(MM + ':Model.get_association_field_names', {'self': Obj(MODEL), 'association': Obj(ASSOC)},
                     returns=T('tuple', elts=[T.str, T.str]), trusted=True,
                     ensures=lambda c: [('names', z3.And(c.result.elts[0].t == c.old.f('lname', c.association),
                                                         c.result.elts[1].t == c.old.f('rname', c.association)))],
                     note='PJS: `_properties.keys()` of a generated association object are its two field names, in schema order'))

    # ---- Model.get_associated_assets_by_field_name (C01, C05)
    def HS(c):
        return spec_heap(c.old.schema)

    def requires(c):
        # the model is read through a snapshot HS that the current heap agrees with (the function writes nothing old)
        hs = HS(c)
        return [('HS.agree', agree(hs, c.old)), ('HS.closed', z3.And(*heap_closed(hs))),
                ('HS.objects', z3.And(c.self >= 0, c.self < hs.alloc, c.asset >= 0, c.asset < hs.alloc)),
                ('backrefs', backrefs_ok(hs, c.self, c.asset))]

    def frame(o, h):
        l = A('l!gf')
        return z3.And(*[FA([l], z3.Implies(z3.And(l >= 0, l < o.alloc), z3.Select(h.arr[n], l) == z3.Select(o.arr[n], l)), [z3.Select(h.arr[n], l)])
                        for n in h.arr if not z3.eq(h.arr[n], o.arr[n])], z3.BoolVal(True))

    def member(o, done, f, x, y):
        s = A('s!gm')
        return z3.Exists([s], z3.And(z3.Select(done, VRef(s)) > 0, linked_through(o, s, f, x, y)))

    def inv(c: LCtx):
        o, h = c.old, c.h
        acc = c.ret().t
        y = A('y!gi')
        v = z3.Const('v!gi', Val)
        l = A('l!gi')
        return [
            ('fresh', z3.And(acc >= o.alloc, acc < h.alloc, h.cls(acc) == CLS_LIST)),
            ('old-lists', frame(o, h)),
            ('elems', FA([v], z3.Implies(h.bag(acc, v) > 0, is_VRef(v)), [h.bag(acc, v)])),
            ('members', FA([y], (h.cnt(acc, y) > 0) == member(HS(c), c.done, c.field_name, c.asset, y), [h.cnt(acc, y)])),
        ]

    def ensures(c):
        o, h = c.old, c.h
        y = A('y!ge')
        l = A('l!ge')
        return [
            ('fresh', c.res >= o.alloc),
            ('fresh2', z3.And(c.res < h.alloc, h.cls(c.res) == CLS_LIST)),
            ('elems', FA([z3.Const('v!ge', Val)], z3.Implies(h.bag(c.res, z3.Const('v!ge', Val)) > 0, is_VRef(z3.Const('v!ge', Val))), [h.bag(c.res, z3.Const('v!ge', Val))])),
            ('neighbours', FA([y], (h.cnt(c.res, y) > 0) == nav(HS(c), c.self, c.field_name, c.asset, y), [h.cnt(c.res, y)])),
            ('old-lists', frame(o, h)),
        ]

    reg.add(Contract(MM + ':Model.get_associated_assets_by_field_name', {'self': Obj(MODEL), 'asset': Obj(ASSET), 'field_name': T.str},
                     returns=List(Obj(ASSET)), requires=requires, ensures=ensures,
                     modifies=LIST_ARRAYS + ('cls', 'own_obj'), allocates=True, loops={0: LoopSpec(inv)}, props=('C01', 'C05')))
