"""Contract of attackgraph._process_step_expression (C01): the evaluator computes the MAL set semantics Sem.

Sem is an uninterpreted spec function with one definitional axiom per expression type (the `match` arms unfold it once;
sub-expressions go through the function's own contract: induction on the ghost rank).  Scope of the deductive part:
expressions without the transitive operator (requires NoTrans(e)); the transitive arm is decided by the bounded floor.
"""
from __future__ import annotations
import z3
from pyvc.theory import *
from pyvc.contract import *
from .graph_spec import A, FA
from .lang_spec import *
from .model_spec import *
from pyvc.state import heap_closed

MG = 'maltoolbox.attackgraph.attackgraph'
ML = 'maltoolbox.language.languagegraph'
SetA = z3.ArraySort(Addr, z3.BoolSort())
Sem = z3.Function('Sem', Addr, SetA, SetA)
NoTrans = z3.Function('NoTrans', Addr, z3.BoolSort())
EndsInStep = z3.Function('EndsInStep', Addr, z3.BoolSort())
StepName = z3.Function('StepName', Addr, Val)
rank = z3.Function('rank', Addr, z3.IntSort())
VarE = z3.Function('VarE', Str, Str, Val)              # the expression a variable resolves to for an asset type
AssetByName = z3.Function('AssetByName', Str, Val)     # language-graph asset with that name (None if absent)
VarAny = z3.Function('VarAny', Str, Val)                # the expression variable `name` resolves to for every live asset (uniform resolution)
SetOf = z3.Function('SetOf', BagSort, SetA)            # the set of references held by a list (given by its bag)
K = lambda s_: VStr(str_const(s_))
S = str_const


def etype(h, e): return v_s(h.val(e, K('type')))
def ename(h, e): return v_s(h.val(e, K('name')))
def sub_e(h, e, key): return v_a(h.val(e, K(key)))


def sem_axioms(h: H, M):
    """definition of Sem / StepName / EndsInStep / NoTrans / rank, case by case on the expression type (heap h = entry heap)"""
    e, x, y = A('e!sx'), A('x!sx'), A('y!sx')
    X = z3.Const('X!sx', SetA)
    ty = etype(h, e)
    l, r, s = sub_e(h, e, 'lhs'), sub_e(h, e, 'rhs'), sub_e(h, e, 'stepExpression')
    ax = []
    def D(name, cond, body, pats):
        ax.append(('Sem.' + name, FA([e, X], z3.Implies(cond, body), pats)))
    D('attackStep', ty == S('attackStep'), Sem(e, X) == X, [Sem(e, X)])
    D('union', ty == S('union'), FA([y], z3.Select(Sem(e, X), y) == z3.Or(z3.Select(Sem(l, X), y), z3.Select(Sem(r, X), y)), [z3.Select(Sem(e, X), y)]), [Sem(e, X)])
    D('intersection', ty == S('intersection'), FA([y], z3.Select(Sem(e, X), y) == z3.And(z3.Select(Sem(l, X), y), z3.Select(Sem(r, X), y)), [z3.Select(Sem(e, X), y)]), [Sem(e, X)])
    D('difference', ty == S('difference'), FA([y], z3.Select(Sem(e, X), y) == z3.And(z3.Select(Sem(l, X), y), z3.Not(z3.Select(Sem(r, X), y))), [z3.Select(Sem(e, X), y)]), [Sem(e, X)])
    D('collect', ty == S('collect'), Sem(e, X) == Sem(r, Sem(l, X)), [Sem(e, X)])
    D('field', ty == S('field'), FA([y], z3.Select(Sem(e, X), y) == z3.Exists([x], z3.And(z3.Select(X, x), nav(h, M, ename(h, e), x, y))),
                                    [z3.Select(Sem(e, X), y)]), [Sem(e, X)])
    D('subType', ty == S('subType'), FA([y], z3.Select(Sem(e, X), y) == z3.And(
        z3.Select(Sem(s, X), y), ANC(v_a(AssetByName(h.f('type', y))), v_a(AssetByName(v_s(h.val(e, K('subType'))))))), [z3.Select(Sem(e, X), y)]), [Sem(e, X)])
    D('variable', ty == S('variable'), z3.And(
        z3.Implies(z3.Exists([x], z3.Select(X, x)), Sem(e, X) == Sem(v_a(VarAny(ename(h, e))), X)),
        z3.Implies(z3.Not(z3.Exists([x], z3.Select(X, x))), Sem(e, X) == z3.K(Addr, z3.BoolVal(False)))), [Sem(e, X)])
    # lemma SEM-STRICT (proved separately by induction on rank, see lemma_sem_strict): nothing is reached from the empty set
    ax.append(('Sem.strict', FA([e], z3.Implies(NoTrans(e), Sem(e, z3.K(Addr, z3.BoolVal(False))) == z3.K(Addr, z3.BoolVal(False))),
                                [Sem(e, z3.K(Addr, z3.BoolVal(False)))])))
    # step names / shape / rank
    t = A('t!sx')
    sty = z3.Const('sty!sx', Str)
    ax += [
        ('StepName', FA([e], StepName(e) == z3.If(ty == S('attackStep'), h.val(e, K('name')),
                                          z3.If(ty == S('collect'), StepName(r),
                                                z3.If(ty == S('variable'), StepName(v_a(VarAny(ename(h, e)))), VNone))), [StepName(e)])),
        ('EndsInStep', FA([e], EndsInStep(e) == z3.Or(ty == S('attackStep'), z3.And(ty == S('collect'), EndsInStep(r)),
                                                      z3.And(ty == S('variable'), EndsInStep(v_a(VarAny(ename(h, e)))))), [EndsInStep(e)])),
        ('NoTrans', FA([e], z3.Implies(NoTrans(e), z3.And(
            ty != S('transitive'),
            z3.Implies(z3.Or(ty == S('union'), ty == S('intersection'), ty == S('difference'), ty == S('collect')), z3.And(NoTrans(l), NoTrans(r))),
            z3.Implies(ty == S('subType'), NoTrans(s)))), [NoTrans(e)])),
        ('NoTrans.var', FA([e], z3.Implies(z3.And(NoTrans(e), ty == S('variable')), NoTrans(v_a(VarAny(ename(h, e))))), [NoTrans(e)])),
        ('rank', FA([e], z3.And(rank(e) >= 0,
                               z3.Implies(z3.Or(ty == S('union'), ty == S('intersection'), ty == S('difference'), ty == S('collect')),
                                          z3.And(rank(l) < rank(e), rank(r) < rank(e))),
                               z3.Implies(ty == S('subType'), rank(s) < rank(e))), [rank(e)])),
        ('rank.var', FA([e], z3.Implies(ty == S('variable'), rank(v_a(VarAny(ename(h, e)))) < rank(e)), [rank(e)])),
    ]
    return ax


def lemma_sem_strict(reg):
    """SEM-STRICT: Sem(e, {}) == {} for transitive-free e — inductive step: from the definitions and the hypothesis for
    every expression of smaller rank"""
    hs = spec_heap(reg.schema)
    M = z3.Const('M!ss', Addr)
    EMPTY = z3.K(Addr, z3.BoolVal(False))
    e0, e1 = z3.Const('e!ss', Addr), A('e1!ss')
    defs = [f for nm, f in sem_axioms(hs, M) if nm != 'Sem.strict']
    ih = FA([e1], z3.Implies(z3.And(rank(e1) < rank(e0), NoTrans(e1), hs.cls(e1) == CLS_DICT, hs.has(e1, K('type'))), Sem(e1, EMPTY) == EMPTY), [Sem(e1, EMPTY)])
    y = z3.Const('y!ss', Addr)
    hyps = defs + [ih, wf_expr(hs), NoTrans(e0), hs.cls(e0) == CLS_DICT, hs.has(e0, K('type')),
                   FA([z3.Const('n!ss', Str)], z3.Implies(is_VRef(VarAny(z3.Const('n!ss', Str))), z3.And(
                       hs.cls(v_a(VarAny(z3.Const('n!ss', Str)))) == CLS_DICT, hs.has(v_a(VarAny(z3.Const('n!ss', Str))), K('type')))),
                      [VarAny(z3.Const('n!ss', Str))])]
    return [('step', hyps, z3.Not(z3.Select(Sem(e0, EMPTY), y)))]


def wf_expr(h: H):
    """TYPES for expression dicts, in quantified form: the fields an expression of each type carries (langspec layout)"""
    e = A('e!we')
    ty = etype(h, e)
    isd = lambda v: z3.And(is_VRef(v), h.cls(v_a(v)) == CLS_DICT)
    hk = lambda k: h.has(e, K(k))
    return FA([e], z3.Implies(z3.And(h.cls(e) == CLS_DICT, hk('type')), z3.And(
        is_VStr(h.val(e, K('type'))),
        z3.Or(*[ty == S(k_) for k_ in ('attackStep', 'union', 'intersection', 'difference', 'collect', 'field', 'variable', 'subType', 'transitive')]),
        z3.Implies(z3.Or(ty == S('union'), ty == S('intersection'), ty == S('difference'), ty == S('collect')),
                   z3.And(hk('lhs'), hk('rhs'), isd(h.val(e, K('lhs'))), isd(h.val(e, K('rhs'))),
                          h.has(sub_e(h, e, 'lhs'), K('type')), h.has(sub_e(h, e, 'rhs'), K('type')))),
        z3.Implies(z3.Or(ty == S('attackStep'), ty == S('field'), ty == S('variable')), z3.And(hk('name'), is_VStr(h.val(e, K('name'))))),
        z3.Implies(z3.Or(ty == S('subType'), ty == S('transitive')), z3.And(hk('stepExpression'), isd(h.val(e, K('stepExpression'))),
                                                                          h.has(sub_e(h, e, 'stepExpression'), K('type')))),
        z3.Implies(ty == S('subType'), z3.And(hk('subType'), is_VStr(h.val(e, K('subType'))))))), [h.val(e, K('type'))])


def HSc(c):
    return spec_heap(c.old.schema)


def setof_axiom():
    B = z3.Const('B!so', BagSort)
    x = A('x!so')
    return FA([B, x], z3.Select(SetOf(B), x) == (z3.Select(B, VRef(x)) > 0), [z3.Select(SetOf(B), x)])


def set_of_list(h: H, L, X):
    x = A('x!sl')
    v = z3.Const('v!sl', Val)
    return z3.And(X == SetOf(h.bagof(L)), setof_axiom(),
                  FA([x], z3.Select(X, x) == (h.cnt(L, x) > 0), [z3.Select(X, x)]),
                  FA([x], z3.Select(X, x) == (h.cnt(L, x) > 0), [h.cnt(L, x)]),
                  FA([v], z3.Implies(h.bag(L, v) > 0, is_VRef(v)), [h.bag(L, v)]))


def model_ok(h: H, M, LGr):
    """the part of wf_model / wf_lang the evaluator relies on"""
    x, y, s = A('x!mo'), A('y!mo'), A('s!mo')
    k = z3.Const('k!mo', Val)
    ML_ = h.f('assets', M)
    return z3.And(
        # ids identify live assets; every live asset has consistent back-references and a type known to the language graph
        FA([x, y], z3.Implies(z3.And(h.cnt(ML_, x) > 0, h.cnt(ML_, y) > 0, h.f('id', x) == h.f('id', y)), x == y), [(h.cnt(ML_, x), h.cnt(ML_, y))]),
        FA([x], z3.Implies(h.cnt(ML_, x) > 0, z3.And(backrefs_ok(h, M, x), is_VRef(AssetByName(h.f('type', x))))), [h.cnt(ML_, x)]),
        # members of association fields are live assets
        FA([s, y], z3.Implies(z3.And(h.cnt(h.f('associations', M), s) > 0, z3.Or(h.cnt(h.f('lfield', s), y) > 0, h.cnt(h.f('rfield', s), y) > 0)),
                              h.cnt(ML_, y) > 0), [h.cnt(h.f('lfield', s), y)]),
        FA([s, y], z3.Implies(z3.And(h.cnt(h.f('associations', M), s) > 0, z3.Or(h.cnt(h.f('lfield', s), y) > 0, h.cnt(h.f('rfield', s), y) > 0)),
                              h.cnt(ML_, y) > 0), [h.cnt(h.f('rfield', s), y)]))


def asset_by_name_def(h: H, LGr):
    """definition of AssetByName: the language-graph asset with that name (names are unique), None if there is none"""
    a = A('a!ab')
    nm = z3.Const('nm!ab', Str)
    LA = h.f('assets', LGr)
    return z3.And(
        FA([a], z3.Implies(h.cnt(LA, a) > 0, AssetByName(h.f('name', a)) == VRef(a)), [h.cnt(LA, a)]),
        FA([nm], z3.Or(is_VNone(AssetByName(nm)), z3.And(is_VRef(AssetByName(nm)), h.cnt(LA, v_a(AssetByName(nm))) > 0,
                                                        h.f('name', v_a(AssetByName(nm))) == nm)), [AssetByName(nm)]))


def install(reg: Registry):
    reg.add_lemma('SEM-STRICT.nothing-is-reached-from-the-empty-set', ('C01',), lemma_sem_strict)
    # ---- LanguageGraph.get_asset_by_name (C15, C01)
    def gabn_inv(c: LCtx):
        a = A('a!gi2')
        return [('not-yet', FA([a], z3.Implies(z3.Select(c.done, VRef(a)) > 0, HSc(c).f('name', a) != c.asset_name), [z3.Select(c.done, VRef(a))]))]
    reg.add(Contract(ML + ':LanguageGraph.get_asset_by_name', {'self': Obj(LG), 'asset_name': T.str}, returns=Obj(LGA, opt=True), pure=True,
                     requires=lambda c: [('AssetByName.def', asset_by_name_def(HSc(c), c.self)), ('HS.agree', agree(HSc(c), c.old)),
                                         ('HS.objects', z3.And(c.self >= 0, c.self < HSc(c).alloc)), ('HS.closed', z3.And(*heap_closed(HSc(c))))],
                     ensures=lambda c: [('def', c.res == AssetByName(c.asset_name))], loops={0: LoopSpec(gabn_inv)}, props=('C15', 'C01')))

    # ---- LanguageGraph._get_variable_for_asset_type_by_name : the definition of VarE is its contract (verified below)
    install_variable_lookup(reg)

    # ---- _process_step_expression
    # The expression handed in is either a record of the specification or a deep copy of one (generation passes copies made by
    # _get_attacks_for_asset_type): everything is stated about its ORIGIN E = orig(step_expression) (ghost origin map), and the
    # copy is required to be faithful: same keys, same scalars, children faithful copies of the origin's children.
    def E(c):
        return c.old.orig(c.step_expression)

    EXPR_KEYS = (('type', False), ('name', False), ('subType', False), ('lhs', True), ('rhs', True), ('stepExpression', True))

    def is_xc(o, hs, d):
        """d is a dict whose origin is an expression-like record of the specification (a dict with a 'type' entry)"""
        od = o.orig(d)
        return z3.And(d >= 0, d < o.alloc, o.cls(d) == CLS_DICT, od >= 0, od < hs.alloc, hs.cls(od) == CLS_DICT, hs.has(od, K('type')))

    def faithful(o, hs):
        """global heap property GF: every dict whose origin is such a record is a faithful copy of it — same expression keys, same
        scalars, children that are again such dicts with the origin's children as origins.  (Deep copies made by DEEPCOPY have
        it by construction; nothing in the toolbox writes the expression keys of a copy.)"""
        d = A('d!ff')
        od = o.orig(d)
        conj = [o.orig(od) == od]
        for k, tree in EXPR_KEYS:
            conj.append(o.has(d, K(k)) == hs.has(od, K(k)))
            if tree:
                ch = v_a(o.val(d, K(k)))
                conj.append(z3.Implies(o.has(d, K(k)), z3.And(is_VRef(o.val(d, K(k))), is_xc(o, hs, ch), o.orig(ch) == v_a(hs.val(od, K(k))))))
            else:
                conj.append(z3.Implies(o.has(d, K(k)), o.val(d, K(k)) == hs.val(od, K(k))))
        return FA([d], z3.Implies(is_xc(o, hs, d), z3.And(*conj)), [o.orig(d)])

    def no_fresh_dicts(o, h):
        """the evaluator allocates lists and sets only: no dict has been created since entry"""
        d = A('d!nf')
        return FA([d], z3.Implies(z3.And(d >= o.alloc, d < h.alloc), h.cls(d) != CLS_DICT), [h.cls(d)])

    def requires(c):
        o = c.old
        hs = spec_heap(o.schema)
        e = E(c)
        x1, x2, nn, tt = A('x1!vu'), A('x2!vu'), z3.Const('n!vu', Str), z3.Const('t!ve', Str)
        eq = A('e!so')
        return [(nm, f) for nm, f in sem_axioms(hs, c.model)] + [
            ('HS.agree', agree(hs, o)),
            ('HS.closed', z3.And(*heap_closed(hs))),
            ('HS.objects', z3.And(e >= 0, e < hs.alloc, c.model >= 0, c.model < hs.alloc, c.lang_graph >= 0, c.lang_graph < hs.alloc)),
            ('expression-is-a-copy-of-a-record', is_xc(o, hs, c.step_expression)),
            ('faithful', faithful(o, hs)),
            ('records-are-originals', FA([eq], z3.Implies(z3.And(eq >= 0, eq < hs.alloc, hs.cls(eq) == CLS_DICT, hs.has(eq, K('type'))), o.orig(eq) == eq),
                                         [hs.has(eq, K('type'))])),
            ('wf_expr', wf_expr(hs)),
            ('expr-is-dict', z3.And(hs.cls(e) == CLS_DICT, hs.has(e, K('type')))),
            ('no-transitive', NoTrans(e)),
            ('X-is-target-set', set_of_list(o, c.target_assets, c.X)),
            ('targets-live', FA([x1], z3.Implies(z3.Select(c.X, x1), hs.cnt(hs.f('assets', c.model), x1) > 0), [z3.Select(c.X, x1)])),
            ('model-ok', model_ok(hs, c.model, c.lang_graph)),
            ('AssetByName.def', asset_by_name_def(hs, c.lang_graph)),
            ('ANC.def', z3.And(*anc_axioms(hs))), ('wf_lang.inheritance', wf_inheritance(hs)),
            ('set-operands-are-asset-expressions', FA([eq], z3.Implies(
                z3.Or(etype(hs, eq) == S('union'), etype(hs, eq) == S('intersection'), etype(hs, eq) == S('difference')),
                z3.And(z3.Not(EndsInStep(sub_e(hs, eq, 'lhs'))), z3.Not(EndsInStep(sub_e(hs, eq, 'rhs'))))), [etype(hs, eq)])),
            ('variables-resolve-uniformly', FA([x1, nn], z3.Implies(hs.cnt(hs.f('assets', c.model), x1) > 0,
                                                                    VarE(hs.f('type', x1), nn) == VarAny(nn)), [VarE(hs.f('type', x1), nn)])),
            ('subtypes-exist', FA([eq], z3.Implies(etype(hs, eq) == S('subType'), is_VRef(AssetByName(v_s(hs.val(eq, K('subType')))))), [etype(hs, eq)])),
            ('variable-targets-are-dicts', FA([nn], z3.Implies(is_VRef(VarAny(nn)), z3.And(
                hs.cls(v_a(VarAny(nn))) == CLS_DICT, hs.has(v_a(VarAny(nn)), K('type')), v_a(VarAny(nn)) >= 0, v_a(VarAny(nn)) < hs.alloc)), [VarAny(nn)])),
            ('variable-expressions-are-dicts', FA([tt, nn], z3.Implies(
                is_VRef(VarE(tt, nn)),
                z3.And(hs.cls(v_a(VarE(tt, nn))) == CLS_DICT, hs.has(v_a(VarE(tt, nn)), K('type')),
                       v_a(VarE(tt, nn)) < hs.alloc, v_a(VarE(tt, nn)) >= 0)), [VarE(tt, nn)])),
            # wf_lang: a variable used in an expression is declared (for the types it is evaluated on: uniform resolution)
            ('variables-declared', FA([eq], z3.Implies(etype(hs, eq) == S('variable'), is_VRef(VarAny(ename(hs, eq)))), [etype(hs, eq)])),
            ('langspec', z3.And(hs.cls(hs.f('_lang_spec', c.lang_graph)) == CLS_DICT, hs.has(hs.f('_lang_spec', c.lang_graph), K('assets')),
                                is_VRef(hs.val(hs.f('_lang_spec', c.lang_graph), K('assets'))), hs.cls(spec_assets(hs, c.lang_graph)) == CLS_LIST)),
        ] + [('var.' + nm, f) for nm, f in var_axioms(hs, c.lang_graph) if not nm.endswith('.def')]

    def old_unchanged(o, h):
        """every array agrees with the pre-state on every object allocated in the pre-state (one trigger per array)"""
        l = A('l!ou')
        return z3.And(*[FA([l], z3.Implies(z3.And(l >= 0, l < o.alloc), z3.Select(h.arr[n], l) == z3.Select(o.arr[n], l)), [z3.Select(h.arr[n], l)])
                        for n in h.arr if not z3.eq(h.arr[n], o.arr[n])], z3.BoolVal(True))

    def ensures(c):
        o, h = c.old, c.h
        e = E(c)
        R = c.result.elts[0].t
        y = A('y!pe')
        v = z3.Const('v!pe', Val)
        return [
            ('semantics-set', SetOf(h.bagof(R)) == Sem(e, c.X)),
            ('semantics', FA([y], (h.cnt(R, y) > 0) == z3.Select(Sem(e, c.X), y), [h.cnt(R, y)])),
            ('semantics2', FA([y], (h.cnt(R, y) > 0) == z3.Select(Sem(e, c.X), y), [z3.Select(Sem(e, c.X), y)])),
            ('elems', FA([v], z3.Implies(h.bag(R, v) > 0, is_VRef(v)), [h.bag(R, v)])),
            ('live', FA([y], z3.Implies(h.cnt(R, y) > 0, HSc(c).cnt(HSc(c).f('assets', c.model), y) > 0), [h.cnt(R, y)])),
            ('step-name', z3.Implies(h.len(R) > 0, to_val(c.result.elts[1]) == StepName(e))),     # the name only matters when something is reached
            ('fresh-or-argument', z3.And(z3.Or(z3.And(R >= o.alloc, R < h.alloc), R == c.target_assets), h.cls(R) == CLS_LIST,
                                         z3.Implies(z3.Not(EndsInStep(e)), R >= o.alloc))),
            ('nothing-old-is-written', old_unchanged(o, h)),
            ('no-fresh-dicts', no_fresh_dicts(o, h)),
        ]

    def bind_X(ex, st, args):
        """ghost: the set of the list passed as target_assets"""
        return SetOf(st.h.bagof(args['target_assets'].t))

    def acc_inv(kind):
        def inv(c: LCtx):
            o, h = c.old, c.h
            acc = c.local('new_target_assets').t
            y = A('y!ai')
            v = z3.Const('v!ai', Val)
            e = E(c)
            lh, rh = c.local('lh_targets').t, c.local('rh_targets').t
            inl = lambda L, q: h.cnt(L, q) > 0
            dn = lambda q: z3.Select(c.done, VRef(q)) > 0
            base = [
                ('HS.agree', agree(HSc(c), h)),
                ('nothing-old-is-written', old_unchanged(o, h)), ('no-fresh-dicts', no_fresh_dicts(o, h)),
                ('acc-elems', FA([v], z3.Implies(h.bag(acc, v) > 0, z3.And(is_VRef(v), HSc(c).cnt(HSc(c).f('assets', c.model), v_a(v)) > 0)), [h.bag(acc, v)])),
                ('operands-kept', z3.And(list_same(c.hl, h, rh), z3.BoolVal(True) if kind == 'union' else list_same(c.hl, h, lh))),
                ('acc-fresh', z3.And(acc >= o.alloc, acc < h.alloc, h.cls(acc) == CLS_LIST, acc != rh) if kind != 'union' else
                              z3.And(acc == lh, acc >= o.alloc, acc < h.alloc, acc != rh)),
            ]
            if kind == 'union':
                base.append(('members', FA([y], inl(acc, y) == z3.Or(c.hl.cnt(lh, y) > 0, dn(y)), [h.cnt(acc, y)])))
            elif kind == 'intersection':
                base.append(('members', FA([y], inl(acc, y) == z3.And(dn(y), inl(lh, y)), [h.cnt(acc, y)])))
                base.append(('acc-not-lhs', acc != lh))
            else:
                base.append(('members', FA([y], inl(acc, y) == z3.And(dn(y), z3.Not(inl(rh, y))), [h.cnt(acc, y)])))
                base.append(('acc-not-lhs', acc != lh))
            return base
        return inv

    def list_same(a, b, L):
        return z3.And(b.bagof(L) == a.bagof(L), b.len(L) == a.len(L))

    # loop ordinals in source order: 0 union, 1 intersection, 2 difference, 3 variable, 4 field, 5 while (transitive),
    # 6, 7 nested for (transitive), 8 subType collect, 9 subType filter
    def variable_inv(c: LCtx):
        return [('first-iteration-returns', c.i == 0), ('nothing-old-is-written', old_unchanged(c.old, c.h)), ('no-fresh-dicts', no_fresh_dicts(c.old, c.h)),
                ('HS.agree', agree(HSc(c), c.h))]

    def field_inv(c: LCtx):
        o, h = c.old, c.h
        acc = c.local('new_target_assets').t
        y, x = A('y!fi'), A('x!fi')
        v = z3.Const('v!fi', Val)
        return [
            ('HS.agree', agree(HSc(c), h)),
            ('nothing-old-is-written', old_unchanged(o, h)), ('no-fresh-dicts', no_fresh_dicts(o, h)),
            ('acc-fresh', z3.And(acc >= o.alloc, acc < h.alloc, h.cls(acc) == CLS_LIST)),
            ('acc-elems', FA([v], z3.Implies(h.bag(acc, v) > 0, z3.And(is_VRef(v), HSc(c).cnt(HSc(c).f('assets', c.model), v_a(v)) > 0)), [h.bag(acc, v)])),
            ('members', FA([y], (h.cnt(acc, y) > 0) == z3.Exists([x], z3.And(z3.Select(c.done, VRef(x)) > 0,
                                                                              nav(HSc(c), c.model, ename(HSc(c), E(c)), x, y))), [h.cnt(acc, y)])),
        ]

    def sub_collect_inv(c: LCtx):
        o, h = c.old, c.h
        acc = c.local('new_target_assets').t
        y = A('y!sc')
        v = z3.Const('v!sc', Val)
        s = sub_e(HSc(c), E(c), 'stepExpression')
        return [
            ('HS.agree', agree(HSc(c), h)),
            ('nothing-old-is-written', old_unchanged(o, h)), ('no-fresh-dicts', no_fresh_dicts(o, h)),
            ('acc-fresh', z3.And(acc >= o.alloc, acc < h.alloc, h.cls(acc) == CLS_LIST)),
            ('acc-elems', FA([v], z3.Implies(h.bag(acc, v) > 0, z3.And(is_VRef(v), HSc(c).cnt(HSc(c).f('assets', c.model), v_a(v)) > 0)), [h.bag(acc, v)])),
            ('members', FA([y], (h.cnt(acc, y) > 0) == z3.And(c.i > 0, z3.Select(Sem(s, c.X), y)), [h.cnt(acc, y)])),
        ]

    def sub_filter_inv(c: LCtx):
        o, h = c.old, c.h
        sel = c.local('selected_new_target_assets').t
        src = c.local('new_target_assets').t
        y = A('y!sf')
        v = z3.Const('v!sf', Val)
        e = E(c)
        ok = lambda q: ANC(v_a(AssetByName(HSc(c).f('type', q))), v_a(AssetByName(v_s(HSc(c).val(e, K('subType'))))))
        return [
            ('HS.agree', agree(HSc(c), h)),
            ('nothing-old-is-written', old_unchanged(o, h)), ('no-fresh-dicts', no_fresh_dicts(o, h)),
            ('sel-fresh', z3.And(sel >= o.alloc, sel < h.alloc, h.cls(sel) == CLS_LIST, sel != src)),
            ('src-kept', list_same(c.hl, h, src)),
            ('sel-elems', FA([v], z3.Implies(h.bag(sel, v) > 0, z3.And(is_VRef(v), HSc(c).cnt(HSc(c).f('assets', c.model), v_a(v)) > 0)), [h.bag(sel, v)])),
            ('members', FA([y], (h.cnt(sel, y) > 0) == z3.And(z3.Select(c.done, VRef(y)) > 0, ok(y)), [h.cnt(sel, y)])),
        ]

    triv = LoopSpec(lambda c: [], stable_iter=False)
    reg.add(Contract(MG + ':_process_step_expression',
                     {'lang_graph': Obj(LG), 'model': Obj(MODEL), 'target_assets': List(Obj(ASSET)), 'step_expression': EXPR},
                     returns=T('tuple', elts=[List(Obj(ASSET)), T('str', opt=True)]), ghosts={'X': SetA},
                     requires=requires, ensures=ensures, modifies=LIST_ARRAYS + DICT_ARRAYS + ('cls', 'own_obj'), allocates=True,
                     decreases=lambda c: rank(c.old.orig(c.step_expression)),
                     call_ghosts={('_process_step_expression', 'X'): bind_X},
                     raises={'LookupError': lambda c: z3.BoolVal(False)},
                     loops={0: LoopSpec(acc_inv('union')), 1: LoopSpec(acc_inv('intersection')), 2: LoopSpec(acc_inv('difference')),
                            3: LoopSpec(variable_inv), 4: LoopSpec(field_inv),
                            5: LoopSpec(lambda c: [], variant=lambda c: z3.IntVal(0)), 6: triv, 7: triv,
                            8: LoopSpec(sub_collect_inv), 9: LoopSpec(sub_filter_inv)},
                     call_lemmas={'_get_variable_for_asset_type_by_name': lambda c: [
                         ('uniform-resolution', VarE(c.asset_type, c.variable_name) == VarAny(c.variable_name)),
                         ('resolved', c.res == v_a(VarAny(c.variable_name)))]},
                     defs=lambda c: [f for nm, f in var_axioms(spec_heap(c.old.schema), c.lang_graph) if nm.endswith('.def')],
                     props=('C01',), no_merge=True,
                     note='deductive for expressions without the transitive operator (requires NoTrans); the transitive arm is decided by '
                          'the bounded floor of C01'))


SpecAsset = z3.Function('SpecAsset', Str, Val)             # the asset record of the language specification with that name (None if absent)
VarDecl = z3.Function('VarDecl', Addr, Str, Val)           # the `let` record named v of an asset record (None if the asset does not declare v)
sdepth = z3.Function('sdepth', Addr, z3.IntSort())         # ghost: height of an asset record in the (acyclic) inheritance forest


def spec_assets(h: H, LGr):
    return v_a(h.val(h.f('_lang_spec', LGr), K('assets')))


def var_axioms(h: H, LGr):
    """Definitions over the specification heap (wf_lang: asset names unique, variable names unique per asset, inheritance
    acyclic — the ghost height sdepth):  SpecAsset / VarDecl by membership + key, and VarE by recursion up the chain:
        VarE(T, v) = stepExpression of the nearest declaration of v on the path T, super(T), super(super(T)), ...   (None if none)"""
    a, d = A('a!va'), A('d!va')
    nm, v = z3.Const('nm!va', Str), z3.Const('v!va', Str)
    AL = spec_assets(h, LGr)
    VL = lambda q: v_a(h.val(q, K('variables')))
    sa = SpecAsset(nm)
    sup_ = h.val(v_a(sa), K('superAsset'))
    decl = VarDecl(v_a(sa), v)
    return [
        ('SpecAsset.member', FA([a], z3.Implies(h.cnt(AL, a) > 0, SpecAsset(v_s(h.val(a, K('name')))) == VRef(a)), [h.cnt(AL, a)])),
        ('SpecAsset.range', FA([nm], z3.Or(is_VNone(sa), z3.And(is_VRef(sa), h.cnt(AL, v_a(sa)) > 0, v_s(h.val(v_a(sa), K('name'))) == nm)), [SpecAsset(nm)])),
        ('VarDecl.member', FA([a, d], z3.Implies(z3.And(h.cnt(AL, a) > 0, h.cnt(VL(a), d) > 0), VarDecl(a, v_s(h.val(d, K('name')))) == VRef(d)),
                              [h.cnt(VL(a), d)])),
        ('VarDecl.range', FA([a, v], z3.Or(is_VNone(VarDecl(a, v)), z3.And(is_VRef(VarDecl(a, v)), h.cnt(VL(a), v_a(VarDecl(a, v))) > 0,
                                                                            v_s(h.val(v_a(VarDecl(a, v)), K('name'))) == v)), [VarDecl(a, v)])),
        ('VarE.def', FA([nm, v], VarE(nm, v) == z3.If(is_VNone(sa), VNone,
                                                    z3.If(is_VRef(decl), h.val(v_a(decl), K('stepExpression')),
                                                          z3.If(is_VStr(sup_), VarE(v_s(sup_), v), VNone))), [VarE(nm, v)])),
        # acyclic single inheritance among the records: the super asset of a record is a record of smaller height
        ('sdepth', FA([a], z3.Implies(z3.And(h.cnt(AL, a) > 0, is_VStr(h.val(a, K('superAsset')))),
                                      z3.And(is_VRef(SpecAsset(v_s(h.val(a, K('superAsset'))))), sdepth(a) > sdepth(v_a(SpecAsset(v_s(h.val(a, K('superAsset')))))),
                                             sdepth(v_a(SpecAsset(v_s(h.val(a, K('superAsset')))))) >= 0)), [h.cnt(AL, a)])),
        ('records', FA([a], z3.Implies(h.cnt(AL, a) > 0, z3.And(
            h.cls(a) == CLS_DICT, h.has(a, K('name')), is_VStr(h.val(a, K('name'))), h.has(a, K('variables')), is_VRef(h.val(a, K('variables'))),
            h.cls(VL(a)) == CLS_LIST, h.has(a, K('superAsset')), z3.Or(is_VNone(h.val(a, K('superAsset'))), is_VStr(h.val(a, K('superAsset')))),
            z3.Implies(is_VStr(h.val(a, K('superAsset'))), v_s(h.val(a, K('superAsset'))) != str_const('')), sdepth(a) >= 0, h.size(a) > 0)), [h.cnt(AL, a)])),
        ('variable-records', FA([a, d], z3.Implies(z3.And(h.cnt(AL, a) > 0, h.cnt(VL(a), d) > 0), z3.And(
            h.cls(d) == CLS_DICT, h.has(d, K('name')), is_VStr(h.val(d, K('name'))), h.has(d, K('stepExpression')),
            is_VRef(h.val(d, K('stepExpression'))), h.cls(v_a(h.val(d, K('stepExpression')))) == CLS_DICT,
            h.has(v_a(h.val(d, K('stepExpression'))), K('type')), h.size(d) > 0, h.size(v_a(h.val(d, K('stepExpression')))) > 0)), [h.cnt(VL(a), d)])),
    ]


def install_variable_lookup(reg):
    def HS(c): return spec_heap(c.old.schema)

    def requires(c):
        hs = HS(c)
        return [('HS.agree', agree(hs, c.old, both=True)), ('HS.closed', z3.And(*heap_closed(hs))), ('HS.objects', z3.And(c.self >= 0, c.self < hs.alloc)),
                ('langspec', z3.And(hs.cls(hs.f('_lang_spec', c.self)) == CLS_DICT, hs.has(hs.f('_lang_spec', c.self), K('assets')),
                                    is_VRef(hs.val(hs.f('_lang_spec', c.self), K('assets'))), hs.cls(spec_assets(hs, c.self)) == CLS_LIST))] + \
               [(nm, f) for nm, f in var_axioms(hs, c.self) if not nm.endswith('.def')]

    def defs(c):
        return [f for nm, f in var_axioms(HS(c), c.self) if nm.endswith('.def')]

    def assets_inv(c: LCtx):
        hs = HS(c)
        a = A('a!vi')
        return [('not-yet', FA([a], z3.Implies(z3.Select(c.done, VRef(a)) > 0, v_s(hs.val(a, K('name'))) != c.asset_type), [z3.Select(c.done, VRef(a))]))]

    def vars_inv(c: LCtx):
        hs = HS(c)
        d = A('d!vi')
        return [('not-yet', FA([d], z3.Implies(z3.Select(c.done, VRef(d)) > 0, v_s(hs.val(d, K('name'))) != c.variable_name), [z3.Select(c.done, VRef(d))]))]

    reg.add(Contract(ML + ':LanguageGraph._get_variable_for_asset_type_by_name', {'self': Obj(LG), 'asset_type': T.str, 'variable_name': T.str},
                     returns=EXPR, pure=True, requires=requires, defs=defs,
                     ensures=lambda c: [('def', VRef(c.res) == VarE(c.asset_type, c.variable_name)), ('non-empty', c.h.size(c.res) > 0)],
                     raises={'LanguageGraphException': lambda c: is_VNone(VarE(c.asset_type, c.variable_name))},
                     decreases=lambda c: z3.If(is_VRef(SpecAsset(c.asset_type)), sdepth(v_a(SpecAsset(c.asset_type))) + 1, 0),
                     props=('C01',),
                     note='VarE(T, v): the nearest declaration of v up the inheritance chain of T in the language specification (wf_lang: unique names, acyclic)'))
