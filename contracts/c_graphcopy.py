"""Contracts for the graph-level deep copy (C14): Attacker.__deepcopy__, AttackGraph.__init__, AttackGraph.__deepcopy__.

The node-level copy is in c_deepcopy.py.  The library routine copy.deepcopy applied to a *list or dict of objects that
are already in the memo* is used through the assumed contract DEEPCOPY-REFS below (CPython's _deepcopy_list /
_deepcopy_dict: a fresh container whose items are the memo images of the items, the memo gains keep-alive entries keyed
by containers only).  copy.deepcopy applied to the list of attackers is assumed to apply Attacker.__deepcopy__'s
(verified) postcondition to every element in order (DEEPCOPY-ATTACKERS)."""
from __future__ import annotations
import z3
from pyvc.theory import *
from pyvc.contract import *
from .graph_spec import *

MA = 'maltoolbox.attackgraph.attacker'
MG = 'maltoolbox.attackgraph.attackgraph'
ATT_LISTS = ('entry_points', 'reached_attack_steps')
CONTAINER_ARRAYS = LIST_ARRAYS + DICT_ARRAYS + ('cls', 'own_obj')


def is_container(h, a):
    return z3.Or(h.cls(a) == CLS_LIST, h.cls(a) == CLS_DICT)


def memo_hit(h, memo, e, cls_name):
    """e (a Val) is an object reference whose copy is registered in the memo, and that copy is a `cls_name`"""
    v = h.val(memo, e)
    return z3.And(is_VRef(e), h.has(memo, e), is_VRef(v), h.cls(v_a(v)) == class_id(cls_name), v_a(v) >= 0, v_a(v) < h.alloc)


def memo_keeps_objects(o, h, memo, extra_exc=None):
    """the memo keeps every entry whose key is not a container identity (lists / dicts / the memo itself get keep-alive entries)"""
    k = z3.Const('k!mk', Val)
    obj_key = z3.And(is_VRef(k), v_a(k) >= 0, v_a(k) < o.alloc, z3.Not(is_container(o, v_a(k))))
    if extra_exc is not None:
        obj_key = z3.And(obj_key, extra_exc(k))
    return z3.And(FA([k], z3.Implies(obj_key, h.has(memo, k) == o.has(memo, k)), [h.has(memo, k)]),
                  FA([k], z3.Implies(obj_key, h.val(memo, k) == o.val(memo, k)), [h.val(memo, k)]))


def old_untouched(o, h, memo):
    """nothing allocated before is written, except the memo dict"""
    x = A('x!ou')
    out = []
    for n in o.arr:
        if z3.eq(o.arr[n], h.arr[n]) or n == 'orig':
            continue
        exc = (x != memo) if n in DICT_ARRAYS else z3.BoolVal(True)
        out.append(('untouched.' + n, FA([x], z3.Implies(z3.And(x >= 0, x < o.alloc, exc), z3.Select(h.arr[n], x) == z3.Select(o.arr[n], x)),
                                         [z3.Select(h.arr[n], x)])))
    return out


def stores_only(o, h, arrays, addrs):
    """exact frame in array form: the named heap arrays differ from the old ones at most at the given addresses"""
    out = []
    for n in arrays:
        t = o.arr[n]
        for a in addrs:
            t = z3.Store(t, a, z3.Select(h.arr[n], a))
        out.append(('only.' + n, h.arr[n] == t))
    return out


def mapped_list(o, h, memo_heap, memo, src, dst):
    """list dst (heap h) is the element-wise memo image of list src (heap o); memo read in memo_heap"""
    j = z3.Int('j!ml')
    return z3.And(h.len(dst) == o.len(src),
                  FA([j], z3.Implies(z3.And(0 <= j, j < o.len(src)), h.at(dst, j) == memo_heap.val(memo, o.at(src, j))), [h.at(dst, j)]))


def install(reg: Registry):
    # ---- assumed contract DEEPCOPY-REFS
    def refs_requires(c):
        o = c.old
        x, memo = v_a(c.x), c.memo
        e = z3.Const('e!rr', Val)
        k = z3.Const('k!rr', Val)
        ok = lambda v: z3.And(is_VRef(v), z3.Not(is_container(o, v_a(v))), o.has(memo, v), is_VRef(o.val(memo, v)))
        return [('a-container', z3.And(is_VRef(c.x), z3.Or(o.cls(x) == CLS_LIST, o.cls(x) == CLS_DICT), x != memo)),
                ('items-are-memo-hits', z3.And(
                    z3.Implies(o.cls(x) == CLS_LIST, FA([e], z3.Implies(o.bag(x, e) > 0, ok(e)), [o.bag(x, e)])),
                    z3.Implies(o.cls(x) == CLS_DICT, FA([k], z3.Implies(o.has(x, k), z3.And(z3.Not(is_VRef(k)), ok(o.val(x, k)))), [o.has(x, k)]))))]

    def refs_ensures(c):
        o, h = c.old, c.h
        x, memo, r = v_a(c.x), c.memo, v_a(c.res)
        j = z3.Int('j!re')
        k = z3.Const('k!re', Val)
        e = z3.Const('e!re', Val)
        y = A('y!re')
        return [
            ('result', z3.And(is_VRef(c.res), r >= o.alloc, r < h.alloc, h.cls(r) == o.cls(x), h.own_obj(r) == -1)),
            ('list', z3.Implies(o.cls(x) == CLS_LIST, z3.And(mapped_list(o, h, o, memo, x, r),
                                                             FA([e], z3.Implies(o.bag(x, e) > 0, h.bag(r, o.val(memo, e)) >= o.bag(x, e)), [o.bag(x, e)])))),
            ('dict', z3.Implies(o.cls(x) == CLS_DICT, z3.And(
                h.size(r) == o.size(x),
                FA([k], h.has(r, k) == o.has(x, k), [h.has(r, k)]),
                FA([k], z3.Implies(o.has(x, k), h.val(r, k) == o.val(memo, o.val(x, k))), [h.val(r, k)])))),
            ('one-object', z3.And(r == o.alloc, h.alloc == o.alloc + 1)),
            ('memo-keeps-objects', memo_keeps_objects(o, h, memo)),
            ('memo-stays-a-dict', h.cls(memo) == o.cls(memo)),
        ] + stores_only(o, h, LIST_ARRAYS + ('cls', 'own_obj'), [r]) + stores_only(o, h, DICT_ARRAYS, [r, memo])

    refs = Contract('copy:deepcopy_refs', {'x': T.val, 'memo': Dict(T.val, T.val)}, returns=T.val, requires=refs_requires, ensures=refs_ensures,
                    modifies=CONTAINER_ARRAYS, allocates=True, trusted=True,
                    note='DEEPCOPY-REFS: copy.deepcopy of a list / dict whose items are objects already registered in the memo returns a fresh '
                         'container of the memo images in the same order / under the same keys (CPython copy._deepcopy_list/_deepcopy_dict); '
                         'the memo gains keep-alive entries keyed by container identities only; nothing else is written')
    reg.add(refs)
    reg.by_func['deepcopy_refs'] = refs

    # ---- Attacker.__deepcopy__ (graph path: the attacker's steps were copied before, i.e. they are memo hits)
    def att_requires(c):
        o, me, memo = c.old, c.self, c.memo
        e = z3.Const('e!ar', Val)
        hit = o.val(memo, VRef(me))
        steps = z3.Or(*[o.bag(o.f(f, me), e) > 0 for f in ATT_LISTS])
        return [('memo-entries-are-attackers', z3.Implies(o.has(memo, VRef(me)), z3.And(is_VRef(hit), o.cls(v_a(hit)) == class_id(ATT)))),
                ('steps-are-nodes', FA([e], z3.Implies(steps, z3.And(is_VRef(e), v_a(e) >= 0, v_a(e) < o.alloc, o.cls(v_a(e)) == class_id(NODE))),
                                       [o.bag(o.f(f, me), e) for f in ATT_LISTS])),
                ('steps-were-copied', FA([e], z3.Implies(steps, memo_hit(o, memo, e, NODE)), [o.bag(o.f(f, me), e) for f in ATT_LISTS])),
                ('memo-is-a-dict', o.cls(memo) == CLS_DICT)]

    def att_copy_post(o, h, me, r, memo, memo_heap=None):
        """r (heap h) is the copy of attacker me (heap o): fresh, same id / name, its two lists are fresh, owned, and the
        element-wise memo images of the original's (memo as it was in o: entries of objects are never overwritten)"""
        fresh = lambda a: z3.And(a >= o.alloc, a < h.alloc)
        out = [z3.And(fresh(r), h.cls(r) == class_id(ATT)), h.f('id', r) == o.f('id', me), h.f('name', r) == o.f('name', me)]
        for f in ATT_LISTS:
            L = h.f(f, r)
            out.append(z3.And(fresh(L), h.cls(L) == CLS_LIST, h.own_obj(L) == r, h.own_fld(L) == field_id(f), mapped_list(o, h, memo_heap or o, memo, o.f(f, me), L)))
        out.append(h.f('entry_points', r) != h.f('reached_attack_steps', r))
        return z3.And(*out)

    def att_ensures(c):
        o, h, me, memo, r = c.old, c.h, c.self, c.memo, c.res
        was = o.has(memo, VRef(me))
        return [
            ('memo-hit', z3.Implies(was, z3.And(r == v_a(o.val(memo, VRef(me))), *[h.arr[n] == o.arr[n] for n in h.arr]))),
            ('copy', z3.Implies(z3.Not(was), att_copy_post(o, h, me, r, memo))),
            ('memo-updated', z3.Implies(z3.Not(was), z3.And(h.has(memo, VRef(me)), h.val(memo, VRef(me)) == VRef(r)))),
            ('memo-keeps-objects', z3.Implies(z3.Not(was), memo_keeps_objects(o, h, memo, lambda k: k != VRef(me)))),
        ] + [(nm, z3.Implies(z3.Not(was), f)) for nm, f in old_untouched(o, h, memo)]

    att_field_arrays = tuple('f_' + f for f in ('name', 'id') + ATT_LISTS)
    reg.add(Contract(MA + ':Attacker.__deepcopy__', {'self': Obj(ATT), 'memo': Dict(T.val, T.val)}, returns=Obj(ATT),
                     requires=att_requires, ensures=att_ensures,
                     modifies=LIST_ARRAYS + DICT_ARRAYS + ('cls', 'own_obj', 'own_fld') + att_field_arrays, allocates=True, props=('C14',),
                     note='graph path of the copy (the attacker\'s entry points and reached steps are memo hits: AttackGraph.__deepcopy__ copies '
                          'the nodes first); assumed: DEEPCOPY-REFS'))
    reg.att_copy_post = att_copy_post

    # ---- AttackGraph._generate_graph: abstract (floor-only function; nothing is known after it)
    graph_arrays = tuple('f_' + f for f in GRAPH_CONT + ('model', 'lang_graph', 'next_node_id', 'next_attacker_id'))
    all_arrays = tuple(sorted(set(LIST_ARRAYS + DICT_ARRAYS + ('cls', 'own_obj', 'own_fld') + graph_arrays
                                  + tuple('f_' + f for f in reg.schema.classes[NODE]) + tuple('f_' + f for f in reg.schema.classes[ATT]))))
    def empty_state(h, G):
        """the five containers of G are empty, pairwise distinct, owned by G, and both counters are 0 (no freshness claim)"""
        out = []
        for f in ('nodes', 'attackers'):
            L = h.f(f, G)
            out.append(z3.And(h.cls(L) == CLS_LIST, h.len(L) == 0, h.bagof(L) == EMPTY_BAG, h.own_obj(L) == G, h.own_fld(L) == field_id(f)))
        k = z3.Const('k!es', Val)
        for f in ('_id_to_node', '_full_name_to_node', '_id_to_attacker'):
            D = h.f(f, G)
            out.append(z3.And(h.cls(D) == CLS_DICT, h.size(D) == 0, FA([k], z3.Not(h.has(D, k)), [h.has(D, k)]),
                              h.own_obj(D) == G, h.own_fld(D) == field_id(f)))
        out.append(z3.Distinct(*[h.f(f, G) for f in GRAPH_CONT]))
        out.append(z3.And(h.f('next_node_id', G) == 0, h.f('next_attacker_id', G) == 0))
        return z3.And(*out)

    reg.add(Contract(MG + ':AttackGraph._generate_graph', {'self': Obj(GRAPH)},
                     requires=lambda c: [('starts-from-the-empty-graph', empty_state(c.old, c.self))],
                     ensures=lambda c: [], modifies=all_arrays, allocates=True, trusted=True,
                     note='ABSTRACT-GEN: generation is not under contract (bounded floor only); callers under contract learn nothing from it. '
                          'Its precondition (taken from its two call sites) is the state a fresh AttackGraph is in: empty node / attacker lists, '
                          'empty indexes, both counters 0 - so __init__ and regenerate_graph must each establish it, which is the deductive part of '
                          '"a regenerated graph is indistinguishable from a freshly generated one" (C09)'))

    # ---- AttackGraph.__init__
    def empty_graph(o, h, G):
        fresh = lambda a: z3.And(a >= o.alloc, a < h.alloc)
        out = []
        for f in ('nodes', 'attackers'):
            L = h.f(f, G)
            out.append(z3.And(fresh(L), h.cls(L) == CLS_LIST, h.len(L) == 0, h.bagof(L) == EMPTY_BAG, h.own_obj(L) == G, h.own_fld(L) == field_id(f)))
        k = z3.Const('k!eg', Val)
        for f in ('_id_to_node', '_full_name_to_node', '_id_to_attacker'):
            D = h.f(f, G)
            out.append(z3.And(fresh(D), h.cls(D) == CLS_DICT, h.size(D) == 0, FA([k], z3.Not(h.has(D, k)), [h.has(D, k)]),
                              h.own_obj(D) == G, h.own_fld(D) == field_id(f)))
        conts = [h.f(f, G) for f in GRAPH_CONT]
        out.append(z3.Distinct(*conts))
        out.append(z3.And(h.f('next_node_id', G) == 0, h.f('next_attacker_id', G) == 0))
        return z3.And(*out)

    def init_ensures(c):
        o, h, G = c.old, c.h, c.self
        plain = z3.Or(is_VNone(c.model), is_VNone(c.lang_graph))
        return [('empty', z3.Implies(plain, empty_graph(o, h, G))),
                ('refs', z3.Implies(plain, z3.And(h.f('model', G) == c.model, h.f('lang_graph', G) == c.lang_graph))),
                ('cls', z3.Implies(plain, h.cls(G) == o.cls(G)))] + \
               [(nm, z3.Implies(plain, f)) for nm, f in old_untouched_but(o, h, G)]

    def old_untouched_but(o, h, G):
        x = A('x!ob')
        out = []
        for n in o.arr:
            if z3.eq(o.arr[n], h.arr[n]) or n == 'orig':
                continue
            exc = (x != G) if n in graph_arrays else z3.BoolVal(True)
            out.append(('untouched.' + n, FA([x], z3.Implies(z3.And(x >= 0, x < o.alloc, exc), z3.Select(h.arr[n], x) == z3.Select(o.arr[n], x)),
                                             [z3.Select(h.arr[n], x)])))
        return out

    reg.add(Contract(MG + ':AttackGraph.__init__', {'self': Obj(GRAPH), 'lang_graph': Obj('LanguageGraph', opt=True), 'model': Obj('Model', opt=True)},
                     ensures=init_ensures, modifies=all_arrays, allocates=True, props=('C14', 'C09'),
                     note='without a model or without a language: an empty well-formed graph with fresh containers; otherwise generation (ABSTRACT-GEN)'))

    # ---- AttackGraph.regenerate_graph: resets to the empty graph, then generation (ABSTRACT-GEN); the obligation is the callee's precondition
    reg.add(Contract(MG + ':AttackGraph.regenerate_graph', {'self': Obj(GRAPH)},
                     ensures=lambda c: [], modifies=all_arrays, allocates=True, props=('C09', 'C16'),
                     note='every container and counter is reset before generation starts (precondition of ABSTRACT-GEN): a stale index, list or '
                          'counter fails call.pre.starts-from-the-empty-graph'))

    # ---- assumed contract KEEP-ALIVE: the library's bookkeeping after x.__deepcopy__(memo) returned
    def ka_ensures(c):
        o, h, memo = c.old, c.h, c.memo
        return [('memo-keeps-objects', memo_keeps_objects(o, h, memo))] + stores_only(o, h, DICT_ARRAYS, [memo])
    ka = Contract('copy:deepcopy_keep_alive', {'memo': Dict(T.val, T.val)}, ensures=ka_ensures, modifies=DICT_ARRAYS, trusted=True,
                  note='KEEP-ALIVE: copy.deepcopy(x, memo) on an object with __deepcopy__ is x.__deepcopy__(memo) followed by memo[id(x)] = result '
                       'and an append to the list memo[id(memo)] (KEEP-ALIVE-OPAQUE: that list is not modelled); entries keyed by objects stay')
    reg.add(ka)
    reg.by_func['deepcopy_keep_alive'] = ka

    # ---- assumed contract DEEPCOPY-ATTACKERS: copy.deepcopy(list of attackers, memo) = the list of Attacker.__deepcopy__ results
    def atts_requires(c):
        o, x, memo = c.old, v_a(c.x), c.memo
        a, e = A('a!tr'), z3.Const('e!tr', Val)
        return [('a-list', z3.And(is_VRef(c.x), o.cls(x) == CLS_LIST, o.cls(memo) == CLS_DICT)),
                ('attackers-not-yet-copied', FA([a], z3.Implies(o.bag(x, VRef(a)) > 0, z3.And(o.cls(a) == class_id(ATT), z3.Not(o.has(memo, VRef(a))))),
                                                [o.bag(x, VRef(a))])),
                ('elements-are-references', FA([e], z3.Implies(o.bag(x, e) > 0, is_VRef(e)), [o.bag(x, e)])),
                ('steps-are-nodes', FA([a, e], z3.Implies(z3.And(o.bag(x, VRef(a)) > 0, z3.Or(*[o.bag(o.f(f, a), e) > 0 for f in ATT_LISTS])),
                                                          z3.And(is_VRef(e), v_a(e) >= 0, v_a(e) < o.alloc, o.cls(v_a(e)) == class_id(NODE))),
                                       [(o.bag(x, VRef(a)), o.bag(o.f(f, a), e)) for f in ATT_LISTS])),
                ('steps-were-copied', FA([a, e], z3.Implies(z3.And(o.bag(x, VRef(a)) > 0, z3.Or(*[o.bag(o.f(f, a), e) > 0 for f in ATT_LISTS])),
                                                            memo_hit(o, memo, e, NODE)), [(o.bag(x, VRef(a)), o.bag(o.f(f, a), e)) for f in ATT_LISTS]))]

    def atts_ensures(c):
        o, h, x, memo, r = c.old, c.h, v_a(c.x), c.memo, v_a(c.res)
        a, b = A('a!te'), A('b!te')
        k = z3.Const('k!te', Val)
        M = lambda q: v_a(h.val(memo, VRef(q)))
        inx = lambda q: o.bag(x, VRef(q)) > 0
        obj_key = z3.And(is_VRef(k), v_a(k) >= 0, v_a(k) < o.alloc, z3.Not(is_container(o, v_a(k))), z3.Not(inx(v_a(k))))
        return [
            ('result', z3.And(is_VRef(c.res), r >= o.alloc, r < h.alloc, h.cls(r) == CLS_LIST, h.own_obj(r) == -1, mapped_list(o, h, h, memo, x, r))),
            ('copies', FA([a], z3.Implies(inx(a), z3.And(h.has(memo, VRef(a)), is_VRef(h.val(memo, VRef(a))), att_copy_post(o, h, a, M(a), memo, h))),
                          [h.val(memo, VRef(a)), h.has(memo, VRef(a)), o.bag(x, VRef(a))])),
            ('copies-distinct', FA([a, b], z3.Implies(z3.And(inx(a), inx(b), a != b), M(a) != M(b)), [(h.val(memo, VRef(a)), h.val(memo, VRef(b)))])),
            ('memo-keeps-objects', z3.And(FA([k], z3.Implies(obj_key, h.has(memo, k) == o.has(memo, k)), [h.has(memo, k)]),
                                          FA([k], z3.Implies(obj_key, h.val(memo, k) == o.val(memo, k)), [h.val(memo, k)]))),
            ('memo-stays-a-dict', h.cls(memo) == o.cls(memo)),
        ] + old_untouched(o, h, memo)

    atts = Contract('copy:deepcopy_attackers', {'x': T.val, 'memo': Dict(T.val, T.val)}, returns=T.val, requires=atts_requires, ensures=atts_ensures,
                    modifies=LIST_ARRAYS + DICT_ARRAYS + ('cls', 'own_obj', 'own_fld') + att_field_arrays, allocates=True, trusted=True,
                    note='DEEPCOPY-ATTACKERS: copy.deepcopy of the list of attackers applies Attacker.__deepcopy__ (verified contract) to each element '
                         'in order (CPython copy._deepcopy_list): a fresh list of the copies; every copy satisfies that contract\'s postcondition')
    reg.add(atts)
    reg.by_func['deepcopy_attackers'] = atts

    # ---- AttackGraph.__deepcopy__ (top-level copy: the memo is the empty private dict copy.deepcopy(graph) creates)
    SCALARS = ('type', 'name', 'id', 'asset', 'defense_status', 'existence_status', 'is_viable', 'is_necessary', 'mitre_info')
    IDX = ('_id_to_node', '_full_name_to_node', '_id_to_attacker')

    def Mh(h, memo, x): return v_a(h.val(memo, VRef(x)))

    def obj_key(o, k):
        return z3.And(is_VRef(k), v_a(k) >= 0, v_a(k) < o.alloc, z3.Not(is_container(o, v_a(k))))

    def g_requires(c):
        o, G, memo = c.old, c.self, c.memo
        k = z3.Const('k!gr', Val)
        n = A('n!gr')
        # the part of the graph invariant the copy relies on (ownership, classes, ids, indexes, closedness); not: mirror / agree
        return [('wf.' + nm, f) for nm, f in wf_graph(o, G) if not nm.startswith(('W3.mirror', 'W5.'))] + [
            ('memo-is-empty', z3.And(FA([k], z3.Not(o.has(memo, k)), [o.has(memo, k)]), o.cls(memo) == CLS_DICT, o.own_obj(memo) == -1)),
            ('memo-is-private', FA([n], z3.Implies(is_node(o, G, n), z3.And(o.f('ttc', n) != VRef(memo), o.f('attributes', n) != VRef(memo))),
                                   [o.cnt(nodes_l(o, G), n)]))]

    def node_copy(o, h, x, y):
        """y (heap h) is the copy of node x (heap o): a fresh node with the same scalar fields whose per-node data is fresh"""
        fr = lambda a: z3.And(a >= o.alloc, a < h.alloc)
        opt = lambda f: z3.If(is_VRef(o.f(f, x)), z3.And(is_VRef(h.f(f, y)), fr(v_a(h.f(f, y)))), h.f(f, y) == o.f(f, x))
        from .c_deepcopy import dict_content
        j = z3.Int('j!nc')
        T0, T1 = o.f('tags', x), h.f('tags', y)
        tags_same = z3.And(h.len(T1) == o.len(T0), h.cls(T1) == CLS_LIST, h.own_obj(T1) == -1,
                           FA([j], z3.Implies(z3.And(0 <= j, j < o.len(T0), z3.Not(is_VRef(o.at(T0, j)))), h.at(T1, j) == o.at(T0, j)), [h.at(T1, j)]))
        content = z3.And(tags_same, dict_content(o, h, o.f('extras', x), h.f('extras', y)),
                         z3.Implies(is_VRef(o.f('ttc', x)), dict_content(o, h, v_a(o.f('ttc', x)), v_a(h.f('ttc', y)))),
                         z3.Implies(is_VRef(o.f('attributes', x)), dict_content(o, h, v_a(o.f('attributes', x)), v_a(h.f('attributes', y)))))
        return z3.And(fr(y), h.cls(y) == class_id(NODE), *[h.f(f, y) == o.f(f, x) for f in SCALARS],
                      fr(h.f('tags', y)), fr(h.f('extras', y)), opt('ttc'), opt('attributes'), content)

    def link_list(o, h, y, f):
        L = h.f(f, y)
        return z3.And(L >= o.alloc, L < h.alloc, h.cls(L) == CLS_LIST, h.own_obj(L) == y, h.own_fld(L) == field_id(f))

    def empty_list(h, L):
        return z3.And(h.len(L) == 0, h.bagof(L) == EMPTY_BAG)

    def copy_graph_facts(c, h, C):
        """the copy C under construction: fresh graph sharing model and language"""
        o, G = c.old, c.self
        return z3.And(C >= o.alloc, C < h.alloc, h.cls(C) == class_id(GRAPH), h.f('model', C) == o.f('model', G), h.f('lang_graph', C) == o.f('lang_graph', G))

    def own_cont(o, h, C, f, cls):
        X = h.f(f, C)
        return z3.And(X >= o.alloc, X < h.alloc, h.cls(X) == cls, h.own_obj(X) == C, h.own_fld(X) == field_id(f))

    def memo_frame(c, h0, h):
        """entries of the memo keyed by objects are the same in h as in h0"""
        k = z3.Const('k!mf', Val)
        o, memo = c.old, c.memo
        return z3.And(FA([k], z3.Implies(obj_key(o, k), h.has(memo, k) == h0.has(memo, k)), [h.has(memo, k)]),
                      FA([k], z3.Implies(obj_key(o, k), h.val(memo, k) == h0.val(memo, k)), [h.val(memo, k)]))

    def nodes_copied(c, h, upto=None):
        """every node of the original (or: every processed node) is a memo hit and its image is its copy"""
        o, G, memo = c.old, c.self, c.memo
        x = A('x!nc')
        guard = is_node(o, G, x) if upto is None else z3.Select(upto, VRef(x)) > 0
        pat = o.cnt(nodes_l(o, G), x) if upto is None else z3.Select(upto, VRef(x))
        return FA([x], z3.Implies(guard, z3.And(memo_hit(h, memo, VRef(x), NODE), node_copy(o, h, x, Mh(h, memo, x)))), [pat])

    def nodes_list_mapped(c, h, C, n):
        o, G, memo = c.old, c.self, c.memo
        j = z3.Int('j!nm')
        CN, NL = h.f('nodes', C), nodes_l(o, G)
        return z3.And(h.len(CN) == n, FA([j], z3.Implies(z3.And(0 <= j, j < n), h.at(CN, j) == h.val(memo, o.at(NL, j))), [h.at(CN, j)]))

    def links(c, h, f, state, upto=None):
        """state of the link list f of every node copy: 'empty' | 'mapped' | ('upto', done): mapped for processed nodes, empty otherwise"""
        o, G, memo = c.old, c.self, c.memo
        x = A('x!lk')
        y = Mh(h, memo, x)
        L = h.f(f, y)
        mp = mapped_list(o, h, h, memo, o.f(f, x), L)
        if state == 'empty':
            body = empty_list(h, L)
        elif state == 'mapped':
            body = mp
        else:
            body = z3.If(z3.Select(upto, VRef(x)) > 0, mp, empty_list(h, L))
        return FA([x], z3.Implies(is_node(o, G, x), z3.And(link_list(o, h, y, f), body)), [o.cnt(nodes_l(o, G), x)])

    def frame_old(c, h):
        return old_untouched(c.old, h, c.memo)

    # loop 0: copy the nodes
    def inv0(c):
        o, h, G, memo = c.old, c.h, c.self, c.memo
        C = c.ret().t      # the graph under construction (the local the function returns: robust against renaming)
        k = z3.Const('k!i0', Val)
        x = A('x!i0')
        y = Mh(h, memo, x)
        out = [('copy-graph', copy_graph_facts(c, h, C)),
               ('copy-containers', z3.And(own_cont(o, h, C, 'nodes', CLS_LIST), own_cont(o, h, C, 'attackers', CLS_LIST),
                                          *[own_cont(o, h, C, f, CLS_DICT) for f in IDX])),
               ('copied-so-far', nodes_copied(c, h, c.done)),
               ('nodes-list', nodes_list_mapped(c, h, C, c.i)),
               ('memo-domain', FA([k], z3.Implies(z3.And(obj_key(o, k), h.has(memo, k)), z3.Select(c.done, k) > 0), [h.has(memo, k)])),
               ('memo-stays-a-dict', h.cls(memo) == CLS_DICT),
               ('links-empty', FA([x], z3.Implies(z3.Select(c.done, VRef(x)) > 0, z3.And(*[z3.And(link_list(o, h, y, f), empty_list(h, h.f(f, y))) for f in NODE_LISTS])),
                                  [z3.Select(c.done, VRef(x))]))]
        return out + frame_old(c, h)

    # loop 1: parents / children of the copies
    def inv1(c):
        o, h, G, memo = c.old, c.h, c.self, c.memo
        C = c.ret().t      # the graph under construction (the local the function returns: robust against renaming)
        return [('copy-graph', copy_graph_facts(c, h, C)),
                ('copy-containers', z3.And(own_cont(o, h, C, 'nodes', CLS_LIST), own_cont(o, h, C, 'attackers', CLS_LIST),
                                           *[own_cont(o, h, C, f, CLS_DICT) for f in IDX])),
                ('nodes-copied', nodes_copied(c, h)),
                ('nodes-list', nodes_list_mapped(c, h, C, o.len(nodes_l(o, G)))),
                ('memo-frame', memo_frame(c, c.hl, h)),
                ('memo-domain', FA([z3.Const('k!i1', Val)], z3.Implies(z3.And(obj_key(o, z3.Const('k!i1', Val)), h.has(memo, z3.Const('k!i1', Val))),
                                                                      o.bag(nodes_l(o, G), z3.Const('k!i1', Val)) > 0), [h.has(memo, z3.Const('k!i1', Val))])),
                ('memo-stays-a-dict', h.cls(memo) == CLS_DICT),
                ('parents', links(c, h, 'parents', 'upto', c.done)),
                ('children', links(c, h, 'children', 'upto', c.done)),
                ('compromised_by', links(c, h, 'compromised_by', 'empty'))] + frame_old(c, h)

    def att_copied(c, h):
        o, G, memo = c.old, c.self, c.memo
        a = A('a!ac')
        return FA([a], z3.Implies(is_att(o, G, a), z3.And(h.has(memo, VRef(a)), is_VRef(h.val(memo, VRef(a))), att_copy_post(o, h, a, Mh(h, memo, a), memo, h))),
                  [o.cnt(atts_l(o, G), a)])

    # loop 2: compromised_by of the copies
    def inv2(c):
        o, h, G, memo = c.old, c.h, c.self, c.memo
        C = c.ret().t      # the graph under construction (the local the function returns: robust against renaming)
        return [('copy-graph', copy_graph_facts(c, h, C)),
                ('copy-containers', z3.And(own_cont(o, h, C, 'nodes', CLS_LIST), own_cont(o, h, C, 'attackers', CLS_LIST),
                                           *[own_cont(o, h, C, f, CLS_DICT) for f in IDX])),
                ('nodes-copied', nodes_copied(c, h)),
                ('nodes-list', nodes_list_mapped(c, h, C, o.len(nodes_l(o, G)))),
                ('attackers-list', mapped_list(o, h, h, memo, atts_l(o, G), h.f('attackers', C))),
                ('attackers-copied', att_copied(c, h)),
                ('memo-frame', memo_frame(c, c.hl, h)),
                ('memo-stays-a-dict', h.cls(memo) == CLS_DICT),
                ('parents', links(c, h, 'parents', 'mapped')),
                ('children', links(c, h, 'children', 'mapped')),
                ('compromised_by', links(c, h, 'compromised_by', 'upto', c.done))] + frame_old(c, h)

    def g_ensures(c):
        o, h, G, memo, r = c.old, c.h, c.self, c.memo, c.res
        k = z3.Const('k!ge', Val)
        idx = []
        for f in IDX:
            D0, D1 = o.f(f, G), h.f(f, r)
            idx.append(z3.And(own_cont(o, h, r, f, CLS_DICT), h.size(D1) == o.size(D0), FA([k], h.has(D1, k) == o.has(D0, k), [h.has(D1, k)]),
                              FA([k], z3.Implies(o.has(D0, k), h.val(D1, k) == h.val(memo, o.val(D0, k))), [h.val(D1, k)])))
        return [('copy-graph', copy_graph_facts(c, h, r)),
                ('counters', z3.And(h.f('next_node_id', r) == o.f('next_node_id', G), h.f('next_attacker_id', r) == o.f('next_attacker_id', G))),
                ('nodes-copied', nodes_copied(c, h)),
                ('nodes-list', z3.And(own_cont(o, h, r, 'nodes', CLS_LIST), nodes_list_mapped(c, h, r, o.len(nodes_l(o, G))))),
                ('attackers-list', z3.And(own_cont(o, h, r, 'attackers', CLS_LIST), mapped_list(o, h, h, memo, atts_l(o, G), h.f('attackers', r)))),
                ('attackers-copied', att_copied(c, h)),
                ('parents', links(c, h, 'parents', 'mapped')),
                ('children', links(c, h, 'children', 'mapped')),
                ('compromised_by', links(c, h, 'compromised_by', 'mapped')),
                ('indexes', z3.And(*idx))] + frame_old(c, h)

    reg.add(Contract(MG + ':AttackGraph.__deepcopy__', {'self': Obj(GRAPH), 'memo': Dict(T.val, T.val)}, returns=Obj(GRAPH),
                     requires=g_requires, ensures=g_ensures, modifies=all_arrays, allocates=True, props=('C14',),
                     loops={0: LoopSpec(inv0, iter_src='self.nodes', forget_history=True), 1: LoopSpec(inv1, iter_src='self.nodes', forget_history=True),
                            2: LoopSpec(inv2, iter_src='self.nodes', forget_history=True)},
                     recv_class={'parents': NODE, 'children': NODE, 'compromised_by': NODE},
                     deepcopy_of={'self.attackers': 'deepcopy_attackers'}, may_raise=('TypeError',),
                     note='top-level copy (empty private memo).  Proved: the copy is a fresh graph sharing only model, language and assets; the memo is '
                          'an isomorphism from the original\'s nodes / attackers onto fresh copies with equal scalar fields; node order, every '
                          'children / parents / compromised_by / entry_points / reached list and the three indexes of the copy are the element-wise '
                          'images; counters are equal; nothing allocated before is written except the memo.  Assumed: DEEPCOPY, DEEPCOPY-REFS, '
                          'DEEPCOPY-ATTACKERS, KEEP-ALIVE.'))
