"""Contracts for the query helpers of LanguageGraphAssociation (C15): field / asset containment and the opposite end."""
from __future__ import annotations
import z3
from pyvc.theory import *
from pyvc.contract import *
from pyvc.state import heap_closed
from .graph_spec import A, FA
from .lang_spec import *

ML = 'maltoolbox.language.languagegraph'
LGS_, LGF_ = 'LanguageGraphAssociation', 'LanguageGraphAssociationField'


def install(reg: Registry):
    sch = reg.schema
    sch.add_class(LGF_, {'asset': Obj(LGA), 'fieldname': T.str, 'minimum': T.int, 'maximum': T.int})
    sch.add_class(LGS_, {'name': T.str, 'left_field': Obj(LGF_), 'right_field': Obj(LGF_)})
    reg.classes[LGF_] = ClassInfo(LGF_, ML, False)
    reg.classes[LGS_] = ClassInfo(LGS_, ML, False)
    reg.add_exception('LanguageGraphAssociationError', 'LanguageGraphException')
    FA_ = sch.storage(LGF_, 'asset')

    def lf(h, s): return h.f('fieldname', h.f('left_field', s))
    def rf(h, s): return h.f('fieldname', h.f('right_field', s))
    def la(h, s): return h.f(FA_, h.f('left_field', s))
    def ra(h, s): return h.f(FA_, h.f('right_field', s))

    reg.add(Contract(ML + ':LanguageGraphAssociation.contains_fieldname', {'self': Obj(LGS_), 'fieldname': T.str}, returns=T.bool, pure=True,
                     ensures=lambda c: [('def', c.res == z3.Or(lf(c.old, c.self) == c.fieldname, rf(c.old, c.self) == c.fieldname))], props=('C15',)))

    reg.add(Contract(ML + ':LanguageGraphAssociation.get_opposite_fieldname', {'self': Obj(LGS_), 'fieldname': T.str}, returns=T.str, pure=True,
                     ensures=lambda c: [('def', c.res == z3.If(lf(c.old, c.self) == c.fieldname, rf(c.old, c.self), lf(c.old, c.self)))],
                     raises={'LanguageGraphAssociationError': lambda c: z3.And(lf(c.old, c.self) != c.fieldname, rf(c.old, c.self) != c.fieldname)},
                     props=('C15',), note='the left end is tried first: for an association whose two fields have the same name the right field name is returned'))

    # containment by asset goes through is_subasset_of (== ANC, the reflexive-transitive closure of `extends`)
    def anc_requires(c):
        hs = spec_heap(c.old.schema)
        o, s = c.old, c.self
        return [('ANC.def', z3.And(*anc_axioms(hs))), ('wf_lang.inheritance', wf_inheritance(hs)), ('HS.agree', agree(hs, o)),
                ('HS.closed', z3.And(*heap_closed(hs))),
                ('HS.objects', z3.And(s >= 0, s < hs.alloc, c.asset >= 0, c.asset < hs.alloc, hs.f('left_field', s) >= 0, hs.f('left_field', s) < hs.alloc,
                                      hs.f('right_field', s) >= 0, hs.f('right_field', s) < hs.alloc, la(hs, s) >= 0, la(hs, s) < hs.alloc, ra(hs, s) >= 0, ra(hs, s) < hs.alloc))]

    def pure_post(c):
        return old_region_unchanged_all(c.old, c.h)

    reg.add(Contract(ML + ':LanguageGraphAssociation.contains_asset', {'self': Obj(LGS_), 'asset': Obj(LGA)}, returns=T.bool,
                     requires=anc_requires, modifies=LIST_ARRAYS + ('cls', 'own_obj'), allocates=True,
                     ensures=lambda c: [('def', c.res == z3.Or(ANC(c.asset, la(c.old, c.self)), ANC(c.asset, ra(c.old, c.self))))] + pure_post(c), props=('C15',)))

    reg.add(Contract(ML + ':LanguageGraphAssociation.get_opposite_asset', {'self': Obj(LGS_), 'asset': Obj(LGA)}, returns=Obj(LGA, opt=True),
                     requires=anc_requires, modifies=LIST_ARRAYS + ('cls', 'own_obj'), allocates=True,
                     ensures=lambda c: [('def', c.res == z3.If(ANC(c.asset, la(c.old, c.self)), VRef(ra(c.old, c.self)),
                                                              z3.If(ANC(c.asset, ra(c.old, c.self)), VRef(la(c.old, c.self)), VNone)))] + pure_post(c),
                     props=('C15',), note='the left end is tried first (the TODO in the source about the tightest fit is not part of the contract)'))


def install_closure_lists(reg: Registry):
    """LanguageGraphAsset.get_all_superassets: the asset itself and everything it (transitively) extends — as a set, the
    ancestors ANC(self, .)"""
    def req(c):
        hs = spec_heap(c.old.schema)
        return [('ANC.def', z3.And(*anc_axioms(hs))), ('wf_lang.inheritance', wf_inheritance(hs)), ('HS.agree', agree(hs, c.old)),
                ('HS.objects', z3.And(c.self >= 0, c.self < hs.alloc)), ('HS.closed', z3.And(*heap_closed(hs)))]

    def inv(c: LCtx):
        o, h = c.old, c.h
        hs = spec_heap(o.schema)
        S, R = c.local('current_assets').t, c.local('superassets').t
        s, y = A('s!gs'), A('y!gs')
        v = z3.Const('v!gs', Val)
        l = A('l!gs')
        return [
            ('fresh', z3.And(S >= o.alloc, S < h.alloc, h.cls(S) == CLS_LIST, R >= o.alloc, R < h.alloc, h.cls(R) == CLS_LIST, S != R)),
            ('old-lists', z3.And(FA([l], z3.Implies(l < o.alloc, h.bagof(l) == o.bagof(l)), [h.bagof(l)]),
                                 FA([l], z3.Implies(l < o.alloc, h.len(l) == o.len(l)), [h.len(l)]),
                                 FA([l], z3.Implies(l < o.alloc, z3.Select(h.arr['L_at'], l) == z3.Select(o.arr['L_at'], l)), [z3.Select(h.arr['L_at'], l)]),
                                 FA([l], z3.Implies(l < o.alloc, z3.And(h.cls(l) == o.cls(l), h.own_obj(l) == o.own_obj(l))), [h.cls(l)]),
                                 FA([l], z3.Implies(l < o.alloc, h.own_obj(l) == o.own_obj(l)), [h.own_obj(l)]))),
            ('stack-elems', FA([v], z3.Implies(h.bag(S, v) > 0, z3.And(is_VRef(v), ANC(c.self, v_a(v)), v_a(v) >= 0, v_a(v) < hs.alloc, h.bag(R, v) > 0)), [h.bag(S, v)])),
            ('result-elems', FA([v], z3.And(h.bag(R, v) >= 0, z3.Implies(h.bag(R, v) > 0, z3.And(is_VRef(v), ANC(c.self, v_a(v)), v_a(v) >= 0, v_a(v) < hs.alloc))),
                                [h.bag(R, v)])),
            ('complete-so-far', FA([y], z3.Implies(ANC(c.self, y), z3.Or(h.cnt(R, y) > 0, z3.Exists([s], z3.And(h.cnt(S, s) > 0, ANC(s, y)), patterns=[h.cnt(S, s), ANC(s, y)]))),
                                   [ANC(c.self, y)])),
            ('at-most-one', z3.And(h.len(S) <= 1, h.len(S) >= 0)),
            ('top', z3.Implies(h.len(S) == 1, is_VRef(h.at(S, 0)))),
            ('self-first', z3.And(h.len(R) >= 1, h.at(R, 0) == VRef(c.self))),
        ]

    def variant(c: LCtx):
        h = c.h
        S = c.local('current_assets').t
        return z3.If(h.len(S) >= 1, 1 + ldepth(v_a(h.at(S, 0))), 0)

    def ens(c):
        o, h, R = c.old, c.h, c.res
        y = A('y!ge2')
        v = z3.Const('v!ge2', Val)
        return [('fresh', z3.And(R >= o.alloc, R < h.alloc, h.cls(R) == CLS_LIST)),
                ('members-are-ancestors', FA([v], z3.Implies(h.bag(R, v) > 0, z3.And(is_VRef(v), ANC(c.self, v_a(v)), v_a(v) >= 0, v_a(v) < spec_heap(o.schema).alloc)),
                                             [h.bag(R, v)])),
                ('every-ancestor-is-a-member', FA([y], z3.Implies(ANC(c.self, y), h.cnt(R, y) > 0), [ANC(c.self, y)])),
                ('self-first', h.at(R, 0) == VRef(c.self))] + old_region_unchanged_all(o, h)

    reg.add(Contract(ML + ':LanguageGraphAsset.get_all_superassets', {'self': Obj(LGA)}, returns=List(Obj(LGA)),
                     requires=req, ensures=ens, modifies=LIST_ARRAYS + ('cls', 'own_obj'), allocates=True,
                     loops={0: LoopSpec(inv, variant=variant)}, props=('C15',),
                     note='single inheritance (wf_lang): the work list never holds more than one asset'))


def install_subassets(reg: Registry):
    """LanguageGraphAsset.get_all_subassets: the asset itself and everything that (transitively) extends it — as a set, the
    descendants {y | ANC(y, self)}"""
    def sub(h, x, c_): return h.cnt(h.f('sub_assets', x), c_) > 0

    def req(c):
        hs = spec_heap(c.old.schema)
        x, y, z = A('x!sq'), A('y!sq'), A('z!sq')
        v = z3.Const('v!sq', Val)
        return [('ANC.def', z3.And(*anc_axioms(hs))), ('wf_lang.inheritance', wf_inheritance(hs)), ('HS.agree', agree(hs, c.old)),
                ('HS.objects', z3.And(c.self >= 0, c.self < hs.alloc)), ('HS.closed', z3.And(*heap_closed(hs))),
                # wf_lang: sub_assets is the mirror of super_assets
                ('mirror', z3.And(FA([x, y], sub(hs, x, y) == sup(hs, y, x), [hs.cnt(hs.f('sub_assets', x), y)]),
                                  FA([x, y], sub(hs, x, y) == sup(hs, y, x), [hs.cnt(hs.f('super_assets', y), x)]),
                                  FA([x, v], z3.Implies(hs.bag(hs.f('sub_assets', x), v) > 0, is_VRef(v)), [hs.bag(hs.f('sub_assets', x), v)]))),
                # last-step unfolding of the closure (valid for the least fixed point): a proper descendant reaches z through a child of z
                ('ANC.unfold-last', FA([y, z], z3.Implies(z3.And(ANC(y, z), y != z), z3.Exists([x], z3.And(sup(hs, x, z), ANC(y, x)))), [ANC(y, z)]))]

    def inv(c: LCtx):
        o, h = c.old, c.h
        hs = spec_heap(o.schema)
        S, R = c.local('current_assets').t, c.local('subassets').t
        s, y = A('s!gb'), A('y!gb')
        v = z3.Const('v!gb', Val)
        l = A('l!gb')
        return [
            ('fresh', z3.And(S >= o.alloc, S < h.alloc, h.cls(S) == CLS_LIST, R >= o.alloc, R < h.alloc, h.cls(R) == CLS_LIST, S != R)),
            ('old-lists', z3.And(FA([l], z3.Implies(l < o.alloc, h.bagof(l) == o.bagof(l)), [h.bagof(l)]),
                                 FA([l], z3.Implies(l < o.alloc, h.len(l) == o.len(l)), [h.len(l)]),
                                 FA([l], z3.Implies(l < o.alloc, z3.Select(h.arr['L_at'], l) == z3.Select(o.arr['L_at'], l)), [z3.Select(h.arr['L_at'], l)]),
                                 FA([l], z3.Implies(l < o.alloc, z3.And(h.cls(l) == o.cls(l), h.own_obj(l) == o.own_obj(l))), [h.cls(l)]),
                                 FA([l], z3.Implies(l < o.alloc, h.own_obj(l) == o.own_obj(l)), [h.own_obj(l)]))),
            ('stack-elems', FA([v], z3.And(h.bag(S, v) >= 0, z3.Implies(h.bag(S, v) > 0, z3.And(is_VRef(v), ANC(v_a(v), c.self), v_a(v) >= 0, v_a(v) < hs.alloc, h.bag(R, v) > 0))),
                               [h.bag(S, v)])),
            ('result-elems', FA([v], z3.And(h.bag(R, v) >= 0, z3.Implies(h.bag(R, v) > 0, z3.And(is_VRef(v), ANC(v_a(v), c.self), v_a(v) >= 0, v_a(v) < hs.alloc))),
                                [h.bag(R, v)])),
            ('complete-so-far', FA([y], z3.Implies(ANC(y, c.self), z3.Or(h.cnt(R, y) > 0, z3.Exists([s], z3.And(h.cnt(S, s) > 0, ANC(y, s)), patterns=[h.cnt(S, s), ANC(y, s)]))),
                                   [ANC(y, c.self)])),
            ('self-first', z3.And(h.len(R) >= 1, h.at(R, 0) == VRef(c.self))),
        ]

    def ens(c):
        o, h, R = c.old, c.h, c.res
        y = A('y!gb2')
        v = z3.Const('v!gb2', Val)
        return [('fresh', z3.And(R >= o.alloc, R < h.alloc, h.cls(R) == CLS_LIST)),
                ('members-are-descendants', FA([v], z3.Implies(h.bag(R, v) > 0, z3.And(is_VRef(v), ANC(v_a(v), c.self), v_a(v) >= 0, v_a(v) < spec_heap(o.schema).alloc)),
                                               [h.bag(R, v)])),
                ('every-descendant-is-a-member', FA([y], z3.Implies(ANC(y, c.self), h.cnt(R, y) > 0), [ANC(y, c.self)])),
                ('self-first', h.at(R, 0) == VRef(c.self))] + old_region_unchanged_all(o, h)

    reg.add(Contract(ML + ':LanguageGraphAsset.get_all_subassets', {'self': Obj(LGA)}, returns=List(Obj(LGA)),
                     requires=req, ensures=ens, modifies=LIST_ARRAYS + ('cls', 'own_obj'), allocates=True,
                     loops={0: LoopSpec(inv, term_unverified=True, note='needs a measure over the finite inheritance forest below the asset')}, props=('C15',)))


def install_common(reg: Registry):
    """get_all_common_superassets: the NAMES of the assets that are ancestors (or the asset itself) of both"""
    def req(c):
        hs = spec_heap(c.old.schema)
        return [('ANC.def', z3.And(*anc_axioms(hs))), ('wf_lang.inheritance', wf_inheritance(hs)), ('HS.agree', agree(hs, c.old)),
                ('HS.objects', z3.And(c.self >= 0, c.self < hs.alloc, c.other >= 0, c.other < hs.alloc)), ('HS.closed', z3.And(*heap_closed(hs)))]

    def ens(c):
        o, h, R = c.old, c.h, c.res
        hs = spec_heap(o.schema)
        k = z3.Const('k!gc', Val)
        x, y = A('x!gc'), A('y!gc')
        return [('fresh', z3.And(R >= o.alloc, R < h.alloc, h.cls(R) == CLS_SET)),
                ('names-of-common-ancestors', FA([k], h.has(R, k) == z3.And(
                    z3.Exists([x], z3.And(ANC(c.self, x), VStr(hs.f('name', x)) == k), patterns=[ANC(c.self, x)]),
                    z3.Exists([y], z3.And(ANC(c.other, y), VStr(hs.f('name', y)) == k), patterns=[ANC(c.other, y)])), [h.has(R, k)]))] + old_region_unchanged_all(o, h)

    reg.add(Contract(ML + ':LanguageGraphAsset.get_all_common_superassets', {'self': Obj(LGA), 'other': Obj(LGA)}, returns=T('set', cls='set', elem=T.str),
                     requires=req, ensures=ens, modifies=LIST_ARRAYS + ('D_has', 'D_size', 'cls', 'own_obj'), allocates=True, props=('C15',),
                     note='a set of names (asset names are unique in a well-formed language, so a common name is a common ancestor)'))


def install_assoc_lookup(reg: Registry):
    """LanguageGraph.get_association_by_fields_and_assets (C15; the loaders of C18 / C19 resolve every link through it): the FIRST
    association of the language graph whose two ends match the two (field name, asset type) pairs in either orientation — an end
    matches when the field name is equal and the given asset type is the end's type or a sub-type of it; None when there is none."""
    from .c_evaluator import AssetByName, asset_by_name_def
    FA_ = reg.schema.storage(LGF_, 'asset')
    lf = lambda h, s: h.f('fieldname', h.f('left_field', s))
    rf = lambda h, s: h.f('fieldname', h.f('right_field', s))
    la = lambda h, s: h.f(FA_, h.f('left_field', s))
    ra = lambda h, s: h.f(FA_, h.f('right_field', s))

    def match(hs, c, s):
        a1, a2 = v_a(AssetByName(c.first_asset_name)), v_a(AssetByName(c.second_asset_name))
        return z3.Or(z3.And(lf(hs, s) == c.first_field, rf(hs, s) == c.second_field, ANC(a1, la(hs, s)), ANC(a2, ra(hs, s))),
                     z3.And(lf(hs, s) == c.second_field, rf(hs, s) == c.first_field, ANC(a2, la(hs, s)), ANC(a1, ra(hs, s))))

    def req(c):
        hs = spec_heap(c.old.schema)
        s = A('s!al')
        v = z3.Const('v!al', Val)
        SL = hs.f('associations', c.self)
        return [('ANC.def', z3.And(*anc_axioms(hs))), ('wf_lang.inheritance', wf_inheritance(hs)), ('HS.agree', agree(hs, c.old)),
                ('HS.objects', z3.And(c.self >= 0, c.self < hs.alloc)), ('HS.closed', z3.And(*heap_closed(hs))),
                ('AssetByName.def', asset_by_name_def(hs, c.self)),
                ('associations-typed', z3.And(FA([v], z3.Implies(hs.bag(SL, v) > 0, is_VRef(v)), [hs.bag(SL, v)]),
                                              FA([s], z3.Implies(hs.cnt(SL, s) > 0, z3.And(s >= 0, s < hs.alloc, hs.f('left_field', s) >= 0, hs.f('left_field', s) < hs.alloc,
                                                                                           hs.f('right_field', s) >= 0, hs.f('right_field', s) < hs.alloc,
                                                                                           la(hs, s) >= 0, la(hs, s) < hs.alloc, ra(hs, s) >= 0, ra(hs, s) < hs.alloc)),
                                                 [hs.cnt(SL, s)])))]

    def inv(c: LCtx):
        hs = spec_heap(c.old.schema)
        s = A('s!ai2')
        return old_region_unchanged_all(c.old, c.h) + [
            ('no-match-so-far', FA([s], z3.Implies(z3.Select(c.done, VRef(s)) > 0, z3.Not(match(hs, c, s))), [z3.Select(c.done, VRef(s))])),
            ('no-match-before-here', FA([z3.Int('j!ai2')], z3.Implies(z3.And(0 <= z3.Int('j!ai2'), z3.Int('j!ai2') < c.i),
                                                                      z3.Not(match(hs, c, v_a(hs.at(hs.f('associations', c.self), z3.Int('j!ai2')))))),
                                        [hs.at(hs.f('associations', c.self), z3.Int('j!ai2'))])),
            ('HS.agree', agree(hs, c.h))]

    def ens(c):
        hs = spec_heap(c.old.schema)
        s = A('s!ae2')
        j, j2 = z3.Int('j!ae2'), z3.Int('j2!ae2')
        SL = hs.f('associations', c.self)
        r = v_a(c.res)
        return old_region_unchanged_all(c.old, c.h) + [
            ('none-iff-no-match', is_VNone(c.res) == z3.Not(z3.Exists([s], z3.And(hs.cnt(SL, s) > 0, match(hs, c, s)), patterns=[hs.cnt(SL, s)]))),
            ('hit-is-the-first-match', z3.Implies(is_VRef(c.res), z3.Exists([j], z3.And(0 <= j, j < hs.len(SL), hs.at(SL, j) == c.res, match(hs, c, r),
                                                                                        FA([j2], z3.Implies(z3.And(0 <= j2, j2 < j), z3.Not(match(hs, c, v_a(hs.at(SL, j2))))),
                                                                                           [hs.at(SL, j2)])))))]

    def raise_cond(c):
        return z3.Or(is_VNone(AssetByName(c.first_asset_name)), is_VNone(AssetByName(c.second_asset_name)))

    reg.add(Contract(ML + ':LanguageGraph.get_association_by_fields_and_assets',
                     {'self': Obj(LG), 'first_field': T.str, 'second_field': T.str, 'first_asset_name': T.str, 'second_asset_name': T.str},
                     returns=Obj(LGS_, opt=True), requires=req, ensures=ens, raises={'LookupError': raise_cond},
                     modifies=LIST_ARRAYS + ('cls', 'own_obj'), allocates=True, loops={0: LoopSpec(inv, iter_src='self.associations')},
                     props=('C15', 'C18', 'C19')))


_inst0 = install


def install(reg: Registry):
    _inst0(reg)
    install_closure_lists(reg)
    install_subassets(reg)
    install_common(reg)
    install_assoc_lookup(reg)
