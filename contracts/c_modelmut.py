"""Contracts for the mutators of maltoolbox/model.py (C05, C06): every public operation preserves wf_model and changes the
abstract view by exactly its delta; an operation that raises leaves the pre-state region unchanged.
Assumed object model of python_jsonschema_objects (PJS, PJS-EQ) as in c_model.py."""
from __future__ import annotations
import z3
from pyvc.theory import *
from pyvc.contract import *
from .graph_spec import A, FA, list_unchanged
from .model_spec import *

MM = 'maltoolbox.model'
WFM = lambda h, M, parts=('M0', 'M1', 'M2', 'M3', 'M4', 'M5', 'M6'): [('wf.' + nm, f) for nm, f in wf_model(h, M, parts)]


def old_scalars_unchanged(o: H, h: H, names, except_=None):
    """the named field arrays agree with the pre-state on every pre-state address (except the listed ones)"""
    except_ = except_ or {}
    x = A('x!os')
    out = []
    for n in names:
        if z3.eq(o.arr[n], h.arr[n]):
            continue
        cond = z3.And(x >= 0, x < o.alloc, *[x != e for e in except_.get(n, [])])
        out.append(('unchanged.' + n, FA([x], z3.Implies(cond, z3.Select(h.arr[n], x) == z3.Select(o.arr[n], x)), [z3.Select(h.arr[n], x)])))
    return out


def lists_unchanged_where(o: H, h: H, cond_fn, tag='lw'):
    l = A('l!' + tag)
    cond = z3.And(l >= 0, l < o.alloc, cond_fn(l))
    return z3.And(
        FA([l], z3.Implies(cond, h.bagof(l) == o.bagof(l)), [h.bagof(l)]),
        FA([l], z3.Implies(cond, h.len(l) == o.len(l)), [h.len(l)]),
        FA([l], z3.Implies(cond, z3.Select(h.arr['L_at'], l) == z3.Select(o.arr['L_at'], l)), [z3.Select(h.arr['L_at'], l)]))


# ---------------------------------------------------------------------------------------------------
def install_attachment(reg: Registry):
    # ---- get_entry_point_tuple: the first tuple whose asset is `asset` (identity), None if there is none
    def gept_ensures(c):
        o = c.old
        E = o.f('entry_points', c.self)
        t = A('t!ge')
        return [('hit-is-member-for-asset', z3.Implies(is_VRef(c.res), z3.And(o.cnt(E, v_a(c.res)) > 0, o.f('t0', v_a(c.res)) == c.asset))),
                ('none-iff-no-tuple-for-asset', is_VNone(c.res) == z3.Not(z3.Exists([t], z3.And(o.cnt(E, t) > 0, o.f('t0', t) == c.asset)))),
                ('ref-or-none', z3.Or(is_VRef(c.res), is_VNone(c.res)))]
    reg.add(Contract(MM + ':AttackerAttachment.get_entry_point_tuple', {'self': Obj(AA), 'asset': Obj(ASSET)}, returns=Obj(EP, opt=True),
                     pure=True, ensures=gept_ensures, props=('C05',)))

    # ---- add_entry_point / remove_entry_point
    def for_asset(o, a, asset, t):
        return z3.And(ep_of(o, a, t), o.f('t0', t) == asset)

    def touched(o, a, asset, l):
        """l is the entry-point list of a, or the step list of a's tuple for `asset`"""
        return z3.Or(l == o.f('entry_points', a),
                     z3.And(for_asset(o, a, asset, o.own_obj(l)), o.own_fld(l) == field_id('t1'), l == o.f('t1', o.own_obj(l))))

    def ep_delta(o, h, a, asset, step, add):
        E = o.f('entry_points', a)
        t, x = A('t!ed'), A('x!ed')
        sv = z3.Const('s!ed', Str)
        k = VStr(step)
        exists = z3.Exists([t], for_asset(o, a, asset, t))
        out = [('same-list-object', h.f('entry_points', a) == E),
               ('frame.lists', lists_unchanged_where(o, h, lambda l: z3.Not(touched(o, a, asset, l)), 'ed')),
               ('frame.own', FA([x], z3.Implies(z3.And(x >= 0, x < o.alloc), z3.And(h.own_obj(x) == o.own_obj(x), h.own_fld(x) == o.own_fld(x),
                                                                                   h.cls(x) == o.cls(x), h.f('t0', x) == o.f('t0', x),
                                                                                   h.f('t1', x) == o.f('t1', x))), [h.own_obj(x)], )),
               ('frame.fields', FA([x], z3.Implies(z3.And(x >= 0, x < o.alloc), z3.And(h.f('t0', x) == o.f('t0', x), h.f('t1', x) == o.f('t1', x))),
                                   [h.f('t0', x)])),
               ('frame.fields2', FA([x], z3.Implies(z3.And(x >= 0, x < o.alloc), h.f('t1', x) == o.f('t1', x)), [h.f('t1', x)])),
               ('frame.cls', FA([x], z3.Implies(z3.And(x >= 0, x < o.alloc), h.cls(x) == o.cls(x)), [h.cls(x)]))]
        if add:
            out += [
                ('existing-tuple', FA([t], z3.Implies(for_asset(o, a, asset, t), z3.And(
                    list_unchanged(o, h, E),
                    h.bagof(o.f('t1', t)) == z3.If(o.bag(o.f('t1', t), k) > 0, o.bagof(o.f('t1', t)), z3.Store(o.bagof(o.f('t1', t)), k, 1)))),
                    [o.cnt(E, t)])),
                ('old-tuples-stay', FA([t], z3.Implies(t < o.alloc, h.cnt(E, t) == o.cnt(E, t)), [h.cnt(E, t)])),
                ('new-tuple', FA([t], z3.Implies(z3.And(t >= o.alloc, h.cnt(E, t) > 0), z3.And(
                    z3.Not(exists), h.cnt(E, t) == 1, h.cls(t) == class_id(EP), h.f('t0', t) == asset, owned(h, h.f('t1', t), t, 't1'),
                    h.f('t1', t) >= o.alloc, h.bagof(h.f('t1', t)) == z3.Store(EMPTY_BAG, k, 1), t < h.alloc)), [h.cnt(E, t)])),
                ('at-most-one-new', FA([t, x], z3.Implies(z3.And(t >= o.alloc, x >= o.alloc, h.cnt(E, t) > 0, h.cnt(E, x) > 0), t == x),
                                       [(h.cnt(E, t), h.cnt(E, x))])),
                ('now-an-entry-point', z3.Exists([t], z3.And(ep_of(h, a, t), h.f('t0', t) == asset, h.bag(h.f('t1', t), k) > 0))),
                ('elems', FA([z3.Const('v!ed', Val)], z3.And(h.bag(E, z3.Const('v!ed', Val)) >= 0,
                                                            z3.Implies(h.bag(E, z3.Const('v!ed', Val)) > 0, is_VRef(z3.Const('v!ed', Val)))),
                             [h.bag(E, z3.Const('v!ed', Val))])),
            ]
        else:
            out += [
                ('no-tuple-nothing-changes', z3.Implies(z3.Not(exists), list_unchanged(o, h, E))),
                ('existing-tuple', FA([t], z3.Implies(for_asset(o, a, asset, t), z3.And(
                    # the step is taken out once; a tuple left without steps is taken out of the list
                    h.bagof(o.f('t1', t)) == z3.If(o.bag(o.f('t1', t), k) > 0, z3.Store(o.bagof(o.f('t1', t)), k, o.bag(o.f('t1', t), k) - 1), o.bagof(o.f('t1', t))),
                    h.cnt(E, t) == z3.If(h.len(o.f('t1', t)) == 0, 0, 1),
                    h.len(o.f('t1', t)) == z3.If(o.bag(o.f('t1', t), k) > 0, o.len(o.f('t1', t)) - 1, o.len(o.f('t1', t))))), [o.cnt(E, t)])),
                ('other-tuples-stay', FA([t], z3.Implies(z3.Not(for_asset(o, a, asset, t)), h.cnt(E, t) == o.cnt(E, t)), [h.cnt(E, t)])),
                ('elems', FA([z3.Const('v!ed', Val)], z3.And(h.bag(E, z3.Const('v!ed', Val)) >= 0,
                                                            z3.Implies(h.bag(E, z3.Const('v!ed', Val)) > 0, is_VRef(z3.Const('v!ed', Val)))),
                             [h.bag(E, z3.Const('v!ed', Val))])),
            ]
        return out

    def ep_requires(c):
        return [('att.' + nm, f) for nm, f in wf_att(c.old, c.self)]

    def ep_ensures(add):
        def ens(c):
            return [('att.' + nm, f) for nm, f in wf_att(c.h, c.self, 'wb')] + ep_delta(c.old, c.h, c.self, c.asset, c.attackstep_name, add)
        return ens

    for name, add in (('add_entry_point', True), ('remove_entry_point', False)):
        reg.add(Contract(MM + ':AttackerAttachment.' + name, {'self': Obj(AA), 'asset': Obj(ASSET), 'attackstep_name': T.str},
                         requires=ep_requires, ensures=ep_ensures(add),
                         modifies=LIST_ARRAYS + ('cls', 'own_obj', 'own_fld', 'f_t0', 'f_t1'), allocates=True, props=('C05',)))
    # ---- lemma EP-WF: on a well-formed model, add_entry_point (on an asset of the model) and remove_entry_point of an
    # attacker of the model preserve wf_model, and the contracts' precondition wf_att follows from wf_model + membership
    def lemma_ep_wf(reg):
        from pyvc.state import heap_closed, list_axioms
        out = []
        for add in (True, False):
            o = H.fresh(reg.schema, 'ew0')
            fresh = {n: z3.Const('%s!ew1' % n, o.arr[n].sort()) for n in LIST_ARRAYS + ('cls', 'own_obj', 'own_fld', 'f_t0', 'f_t1')}
            h = o.with_(alloc=z3.Int('alloc!ew1'), **fresh)
            M, a, asset = z3.Const('M!ew', Addr), z3.Const('a!ew', Addr), z3.Const('x!ew', Addr)
            step = z3.Const('step!ew', Str)
            hyps = [f for _, f in wf_model(o, M)] + heap_closed(o) + list_axioms(o) + [M >= 0, M < o.alloc, h.alloc >= o.alloc, is_attk(o, M, a)]
            if add:
                hyps.append(is_asset(o, M, asset))
            tag = 'add' if add else 'remove'
            for (nm, f) in wf_att(o, a):
                out.append(('%s.pre.%s' % (tag, nm), hyps, f))
            hyps2 = hyps + [f for _, f in ep_delta(o, h, a, asset, step, add)] + [f for _, f in wf_att(h, a, 'wb')] + list_axioms(h)
            for (nm, f) in wf_model(h, M):
                out.append(('%s.wf.%s' % (tag, nm), hyps2, f))
            # view: the entry points of a change by exactly (asset, step); those of every other attacker stay
            x, b = A('x!ev'), A('b!ev')
            s2 = z3.Const('s!ev', Str)
            if add:
                out.append(('add.view', hyps2, z3.And(entry(h, a, x, s2) == z3.Or(entry(o, a, x, s2), z3.And(x == asset, s2 == step)))))
            else:
                out.append(('remove.view.others', hyps2, z3.Implies(z3.Or(x != asset, s2 != step), entry(h, a, x, s2) == entry(o, a, x, s2))))
            out.append(('%s.view.other-attackers' % tag, hyps2, z3.Implies(z3.And(is_attk(o, M, b), b != a), entry(h, b, x, s2) == entry(o, b, x, s2))))
        return out
    reg.add_lemma('EP-WF.entry-point-edits-preserve-wf_model', ('C05',), lemma_ep_wf)


def unchanged_lists_except(o: H, h: H, excepted):
    return lists_unchanged_where(o, h, lambda l: z3.And(*[l != e for e in excepted]) if excepted else z3.BoolVal(True), 'ue')


def install_attackers(reg: Registry):
    # ---- Model.remove_attacker
    def ra_ensures(c):
        o, h, M, a = c.old, c.h, c.self, c.attacker
        b = A('b!ra')
        AL = o.f('attackers', M)
        return WFM(h, M) + [('removed', z3.And(h.cnt(AL, a) == 0, FA([b], z3.Implies(b != a, h.cnt(AL, b) == o.cnt(AL, b)), [h.cnt(AL, b)]))),
                            ('frame.lists', unchanged_lists_except(o, h, [AL]))]
    reg.add(Contract(MM + ':Model.remove_attacker', {'self': Obj(MODEL), 'attacker': Obj(AA)},
                     requires=lambda c: WFM(c.old, c.self), ensures=ra_ensures,
                     raises={'ValueError': lambda c: z3.Not(is_attk(c.old, c.self, c.attacker))},
                     modifies=LIST_ARRAYS, props=('C05',),
                     note='EQ-ID: list.remove compares dataclass instances with the generated __eq__; modelled as identity'))

    # ---- Model.add_attacker
    def kid(c):
        return z3.If(is_VNone(c.attacker_id), VInt(c.old.f('next_id', c.self)), c.attacker_id)

    def aa_requires(c):
        o, M, a = c.old, c.self, c.attacker
        t, b = A('t!aq'), A('b!aq')
        E = o.f('entry_points', a)
        return WFM(o, M) + [('att.' + nm, f) for nm, f in wf_att(o, a)] + [
            ('attacker-not-in-model', o.cnt(o.f('attackers', M), a) == 0),
            ('attacker-class', o.cls(a) == class_id(AA)),
            ('entry-points-on-model-assets', FA([t], z3.Implies(ep_of(o, a, t), is_asset(o, M, o.f('t0', t))), [o.cnt(E, t)])),
            ('tuples-unshared', FA([b, t], z3.Implies(z3.And(is_attk(o, M, b), ep_of(o, b, t)), z3.Not(ep_of(o, a, t))), [o.cnt(o.f('entry_points', b), t)])),
        ]

    def aa_ensures(c):
        o, h, M, a = c.old, c.h, c.self, c.attacker
        b = A('b!ae')
        AL = o.f('attackers', M)
        k = kid(c)
        AAN = reg.schema.storage(AA, 'name')
        nm = o.f(AAN, a)
        keeps_name = z3.And(is_VStr(nm), v_s(nm) != str_const(''))
        return WFM(h, M) + [
            ('id', h.f('id', a) == k),
            ('next-id', h.f('next_id', M) == z3.If(v_i(k) + 1 >= o.f('next_id', M), v_i(k) + 1, o.f('next_id', M))),
            ('name', h.f(AAN, a) == z3.If(keeps_name, nm, VStr(concat(str_const('Attacker:'), py_str(v_i(k)))))),
            ('attackers', z3.And(h.cnt(AL, a) == 1, FA([b], z3.Implies(b != a, h.cnt(AL, b) == o.cnt(AL, b)), [h.cnt(AL, b)]))),
            ('appended-last', z3.And(h.len(AL) == o.len(AL) + 1, h.at(AL, o.len(AL)) == VRef(a))),
            ('frame.lists', unchanged_lists_except(o, h, [AL])),
            ('frame.ids', FA([b], z3.Implies(b != a, h.f('id', b) == o.f('id', b)), [h.f('id', b)])),
        ]
    reg.add(Contract(MM + ':Model.add_attacker', {'self': Obj(MODEL), 'attacker': Obj(AA), 'attacker_id': T('int', opt=True)},
                     requires=aa_requires, ensures=aa_ensures,
                     modifies=LIST_ARRAYS + ('f_id', 'f_next_id', 'f_' + reg.schema.storage(AA, 'name')), props=('C05', 'C07'),
                     param_defaults={'attacker_id': None}))


def install_add_asset(reg: Registry):
    COLON = str_const(':')

    def new_id(c):
        return z3.If(is_VNone(c.asset_id), VInt(c.old.f('next_id', c.self)), c.asset_id)

    def gen_name(c):
        """the name generated for an asset without a name / with a taken name (before uniquification)"""
        o, x = c.old, c.asset
        base = z3.If(o.f('has_name', x), o.f('name', x), o.f('type', x))
        return concat(concat(base, COLON), py_str(v_i(new_id(c))))

    def cand(c, j):
        """j-th candidate of the uniquification loop: gen, gen:1, gen:2, ..."""
        return z3.If(j == 0, gen_name(c), concat(concat(gen_name(c), COLON), py_str(j)))

    def taken(c, s_):
        return c.old.has(c.old.f('asset_names', c.self), VStr(s_))

    TK = z3.Function('CandidateTaken', z3.IntSort(), z3.BoolSort())     # definitional: candidate number j is a name in use (pre-state)

    def tk_def(c):
        j = z3.Int('j!tk')
        return [FA([j], TK(j) == taken(c, cand(c, j)), [TK(j)])]

    def needs_gen(c):
        o, x = c.old, c.asset
        return z3.Or(z3.Not(o.f('has_name', x)), taken(c, o.f('name', x)))

    def requires(c):
        o, M, x = c.old, c.self, c.asset
        return WFM(o, M) + [('asset-not-in-model', o.cnt(o.f('assets', M), x) == 0), ('asset-class', o.cls(x) == class_id(ASSET))]

    def raise_cond(c):
        o, M, x = c.old, c.self, c.asset
        return z3.Or(o.has(o.f('asset_ids', M), new_id(c)),
                     z3.And(o.f('has_name', x), taken(c, o.f('name', x)), z3.Not(c.allow_duplicate_names)))

    def inv(c: LCtx):
        # uniquification loop: unique_name is candidate number counter-1, every earlier candidate is taken; nothing else moves
        o, h = c.old, c.h
        def S(sv, want):
            return sv.t == want if sv.kind == 'str' else sv.t == VStr(want)
        cnt_ = c.local('counter').t
        j = z3.Int('j!aa')
        return [('counter', cnt_ >= 1), ('candidate', S(c.local('unique_name'), cand(c, cnt_ - 1))),
                ('earlier-taken', FA([j], z3.Implies(z3.And(0 <= j, j < cnt_ - 1), TK(j)), [TK(j)])),
                # (also hands E-matching the term TK(counter - 1): the witness of `the first free candidate` in the postcondition)
                ('current-candidate', TK(cnt_ - 1) == taken(c, cand(c, cnt_ - 1))),
                ('gen', S(c.local('generated_name'), gen_name(c))),
                ('heap', z3.And(*[h.arr[n] == c.hl.arr[n] for n in h.arr if not z3.eq(h.arr[n], c.hl.arr[n])], z3.BoolVal(True)))]

    def ensures(c):
        o, h, M, x = c.old, c.h, c.self, c.asset
        y = A('y!ad')
        j, j2 = z3.Int('j!ad'), z3.Int('j2!ad')
        kv = z3.Const('k!ad', Val)
        XL, IDS, NMS = o.f('assets', M), o.f('asset_ids', M), o.f('asset_names', M)
        k = new_id(c)
        nm = h.f('name', x)
        BL = h.f('associations', x)
        return WFM(h, M) + [
            ('id', h.f('id', x) == k),
            ('next-id', h.f('next_id', M) == z3.If(v_i(k) + 1 >= o.f('next_id', M), v_i(k) + 1, o.f('next_id', M))),
            ('name.kept', z3.Implies(z3.Not(needs_gen(c)), nm == o.f('name', x))),
            # otherwise: the first candidate of gen, gen:1, gen:2, ... that no live asset has
            ('name.generated', z3.Implies(needs_gen(c), z3.Exists([j], z3.And(j >= 0, nm == cand(c, j), z3.Not(TK(j)),
                                                                            FA([j2], z3.Implies(z3.And(0 <= j2, j2 < j), TK(j2)), [TK(j2)])), patterns=[TK(j)]))),
            ('name.free', z3.Not(taken(c, nm))),
            ('has-name', h.f('has_name', x)),
            ('assets', z3.And(h.cnt(XL, x) == 1, FA([y], z3.Implies(y != x, h.cnt(XL, y) == o.cnt(XL, y)), [h.cnt(XL, y)]))),
            ('appended-last', z3.And(h.len(XL) == o.len(XL) + 1, h.at(XL, o.len(XL)) == VRef(x))),
            ('no-associations', z3.And(BL >= o.alloc, h.bagof(BL) == EMPTY_BAG, h.len(BL) == 0)),
            ('ids', FA([kv], h.has(IDS, kv) == z3.Or(o.has(IDS, kv), kv == k), [h.has(IDS, kv)])),
            ('names', FA([kv], h.has(NMS, kv) == z3.Or(o.has(NMS, kv), kv == VStr(nm)), [h.has(NMS, kv)])),
            ('extras', z3.And(h.f('has_extras', x), z3.Implies(o.f('has_extras', x), h.f('extras', x) == o.f('extras', x)),
                              z3.Implies(z3.Not(o.f('has_extras', x)), z3.And(h.f('extras', x) >= o.alloc, h.size(h.f('extras', x)) == 0)))),
            ('frame.lists', unchanged_lists_except(o, h, [XL])),
            ('frame.other-assets', FA([y], z3.Implies(y != x, z3.And(h.f('id', y) == o.f('id', y), h.f('name', y) == o.f('name', y),
                                                                    h.f('associations', y) == o.f('associations', y), h.f('has_name', y) == o.f('has_name', y))),
                                      [h.f('id', y)])),
            ('frame.old-sets', FA([y, kv], z3.Implies(z3.And(y >= 0, y < o.alloc, y != IDS, y != NMS), z3.And(h.has(y, kv) == o.has(y, kv), h.val(y, kv) == o.val(y, kv))),
                                  [h.has(y, kv)])),
        ]

    reg.add(Contract(MM + ':Model.add_asset', {'self': Obj(MODEL), 'asset': Obj(ASSET), 'asset_id': T('int', opt=True), 'allow_duplicate_names': T.bool},
                     requires=requires, ensures=ensures, raises={'ValueError': raise_cond}, defs=tk_def,
                     modifies=LIST_ARRAYS + DICT_ARRAYS + ('cls', 'own_obj', 'own_fld', 'f_id', 'f_next_id', 'f_name', 'f_has_name', 'f_associations',
                                                           'f_extras', 'f_has_extras'),
                     allocates=True, props=('C05', 'C02', 'C07'), param_defaults={'asset_id': None, 'allow_duplicate_names': True},
                     loops={0: LoopSpec(inv, term_unverified=True,
                                        note='needs: finitely many names are taken and the candidates gen:1, gen:2, ... are pairwise different (string reasoning)')}))


def old_lists_unchanged(o: H, h: H, excepted=()):
    return lists_unchanged_where(o, h, lambda l: z3.And(*[l != e for e in excepted]) if excepted else z3.BoolVal(True), 'ol')


def own_cls_unchanged(o: H, h: H):
    x = A('x!oc')
    return z3.And(FA([x], z3.Implies(z3.And(x >= 0, x < o.alloc), z3.And(h.own_obj(x) == o.own_obj(x), h.own_fld(x) == o.own_fld(x))), [h.own_obj(x)]),
                  FA([x], z3.Implies(z3.And(x >= 0, x < o.alloc), h.own_fld(x) == o.own_fld(x)), [h.own_fld(x)]),
                  FA([x], z3.Implies(z3.And(x >= 0, x < o.alloc), h.cls(x) == o.cls(x)), [h.cls(x)]))


def assoc_attr_frame(o: H, h: H, M):
    """the attribute `associations` is reassigned on assets of the model only (the model's own list object stays)"""
    y = A('y!af')
    return ('frame.associations-attr', z3.And(h.f('associations', M) == o.f('associations', M),
                                              FA([y], z3.Implies(z3.And(y >= 0, y < o.alloc, z3.Not(is_asset(o, M, y))), h.f('associations', y) == o.f('associations', y)),
                                                 [h.f('associations', y)])))


def install_remove_association(reg: Registry):
    def BLo(o, x): return o.f('associations', x)

    def J(o, h, s, x, tag):
        """the back-reference list of x is either the old object, or a fresh owned list equal to the old one minus s"""
        r = A('r!' + tag)
        kv = z3.Const('k!' + tag, Val)
        B = h.f('associations', x)
        fresh = z3.And(B >= o.alloc, B < h.alloc, owned(h, B, x, 'associations'), h.cls(B) == CLS_LIST,
                       FA([r], h.cnt(B, r) == z3.If(r == s, 0, o.cnt(BLo(o, x), r)), [h.cnt(B, r)]),
                       FA([kv], z3.And(h.bag(B, kv) >= 0, z3.Implies(h.bag(B, kv) > 0, is_VRef(kv))), [h.bag(B, kv)]))
        return z3.Or(B == BLo(o, x), fresh)

    def common(c):
        o, h, M, s = c.old, c.h, c.self, c.association
        x = A('x!rc')
        return [('old-lists', old_lists_unchanged(o, h)), ('own-cls', own_cls_unchanged(o, h)),
                ('dicts', z3.And(*[h.arr[n] == o.arr[n] for n in DICT_ARRAYS])),
                ('J', FA([x], z3.Implies(is_asset(o, M, x), J(o, h, s, x, 'rj')), [h.f('associations', x)])),
                ('others', FA([x], z3.Implies(z3.Not(is_asset(o, M, x)), h.f('associations', x) == BLo(o, x)), [h.f('associations', x)]))]

    def inv0(c: LCtx):
        o, h, M, s = c.old, c.h, c.self, c.association
        x = A('x!r0')
        return common(c) + [
            ('done', FA([x], z3.Implies(z3.And(is_asset(o, M, x), z3.Select(c.done, VRef(x)) > 0), h.cnt(h.f('associations', x), s) == 0), [z3.Select(c.done, VRef(x))])),
            ('not-done', FA([x], z3.Implies(z3.Select(c.done, VRef(x)) <= 0, h.f('associations', x) == BLo(o, x)), [h.f('associations', x)]))]

    def inv1(c: LCtx):
        o, h, M, s = c.old, c.h, c.self, c.association
        x = A('x!r1')
        return common(c) + [
            ('left-done', FA([x], z3.Implies(in_l(o, s, x) > 0, h.cnt(h.f('associations', x), s) == 0), [in_l(o, s, x)])),
            ('done', FA([x], z3.Implies(z3.And(is_asset(o, M, x), z3.Select(c.done, VRef(x)) > 0), h.cnt(h.f('associations', x), s) == 0), [z3.Select(c.done, VRef(x))])),
            ('not-done', FA([x], z3.Implies(z3.And(z3.Select(c.done, VRef(x)) <= 0, in_l(o, s, x) <= 0), h.f('associations', x) == BLo(o, x)), [h.f('associations', x)]))]

    def ensures(c):
        o, h, M, s = c.old, c.h, c.self, c.association
        x, r = A('x!re'), A('r!re')
        kv = z3.Const('k!re', Val)
        SL, D = o.f('associations', M), o.f('_type_to_association', M)
        key = VStr(o.f('clsname', s))
        bucket = v_a(o.val(D, key))
        return WFM(h, M) + [
            ('removed', z3.And(h.cnt(SL, s) == 0, FA([r], z3.Implies(r != s, h.cnt(SL, r) == o.cnt(SL, r)), [h.cnt(SL, r)]))),
            ('backrefs', FA([x, r], z3.Implies(is_asset(o, M, x), h.cnt(h.f('associations', x), r) == z3.If(r == s, 0, o.cnt(BLo(o, x), r))),
                            [h.cnt(h.f('associations', x), r)])),
            ('fields-untouched', z3.And(list_unchanged(o, h, o.f('lfield', s)), list_unchanged(o, h, o.f('rfield', s)))),
            ('frame.lists', old_lists_unchanged(o, h, [SL, bucket])),
            ('frame.buckets', FA([kv], z3.Implies(kv != key, z3.And(h.has(D, kv) == o.has(D, kv), h.val(D, kv) == o.val(D, kv))), [h.has(D, kv)])),
            ('frame.sets', z3.And(*[z3.And(z3.Select(h.arr['D_has'], o.f(f, M)) == z3.Select(o.arr['D_has'], o.f(f, M))) for f in ('asset_ids', 'asset_names')])),
            ('frame.own', own_cls_unchanged(o, h)), assoc_attr_frame(o, h, M),
        ]

    reg.add(Contract(MM + ':Model.remove_association', {'self': Obj(MODEL), 'association': Obj(ASSOC)},
                     requires=lambda c: WFM(c.old, c.self), ensures=ensures,
                     raises={'LookupError': lambda c: z3.Not(is_assoc(c.old, c.self, c.association))},
                     modifies=LIST_ARRAYS + ('D_has', 'D_size', 'D_keyat', 'cls', 'own_obj', 'own_fld', 'f_associations'), allocates=True,
                     loops={0: LoopSpec(inv0, iter_src='left_field'), 1: LoopSpec(inv1, iter_src='right_field')}, props=('C05',)))


def region_unchanged(o: H, h: H):
    """every array agrees with o on every address allocated in o (objects allocated meanwhile are garbage)"""
    x = A('x!ru')
    return [('region.' + n, FA([x], z3.Implies(z3.And(x >= 0, x < o.alloc), z3.Select(h.arr[n], x) == z3.Select(o.arr[n], x)),
                               [z3.Select(h.arr[n], x), z3.Select(o.arr[n], x)]))
            for n in h.arr if not z3.eq(h.arr[n], o.arr[n])]


def install_validate(reg: Registry):
    reg.add_exception('ModelException')
    reg.add_exception('ModelAssociationException', 'ModelException')
    reg.add_exception('DuplicateModelAssociationError', 'ModelException')

    def assoc_typed(o, s):
        """typing of a PJS association object handed in by the caller: two differently named array fields of asset references"""
        k = z3.Const('k!at', Val)
        return z3.And(o.cls(s) == class_id(ASSOC), o.f('lname', s) != o.f('rname', s),
                      owned(o, o.f('lfield', s), s, 'lfield'), owned(o, o.f('rfield', s), s, 'rfield'),
                      *[FA([k], z3.And(o.bag(o.f(f, s), k) >= 0, z3.Implies(o.bag(o.f(f, s), k) > 0, z3.And(is_VRef(k), o.cls(v_a(k)) == class_id(ASSET)))),
                           [o.bag(o.f(f, s), k)]) for f in ('lfield', 'rfield')])

    def V1(o, M, s): return o.cnt(o.f('associations', M), s) == 0

    def V2(o, M, s):
        x = A('x!v2')
        return z3.And(FA([x], z3.Implies(in_l(o, s, x) > 0, is_asset(o, M, x)), [in_l(o, s, x)]),
                      FA([x], z3.Implies(in_r(o, s, x) > 0, is_asset(o, M, x)), [in_r(o, s, x)]))

    def V3(o, M, s):
        x = A('x!v3')
        return z3.And(FA([x], in_l(o, s, x) <= 1, [in_l(o, s, x)]), FA([x], in_r(o, s, x) <= 1, [in_r(o, s, x)]))

    def V4(o, M, s):
        x, y = A('x!v4'), A('y!v4')
        return FA([x, y], z3.Implies(z3.And(in_l(o, s, x) > 0, in_r(o, s, y) > 0), z3.Not(reg.exists_link(o, M, o.f('clsname', s), x, y))),
                  [(in_l(o, s, x), in_r(o, s, y))])

    def valid(o, M, s):
        return z3.And(V1(o, M, s), V2(o, M, s), V3(o, M, s), V4(o, M, s))
    reg.assoc_valid, reg.assoc_typed = valid, assoc_typed

    def requires(c):
        return WFM(c.old, c.self) + [('association-typed', assoc_typed(c.old, c.association))]

    def inv_members(c: LCtx):
        # (both unrolled copies of) `for asset in getattr(association, field_name)`: every member seen so far is an asset of the model
        o, h, M = c.old, c.h, c.self
        x = A('x!vm')
        return region_unchanged(o, h) + [('members-so-far', FA([x], z3.Implies(z3.Select(c.done, VRef(x)) > 0, is_asset(o, M, x)), [z3.Select(c.done, VRef(x))]))]

    def inv_left(c: LCtx):
        o, h, M, s = c.old, c.h, c.self, c.association
        x, y = A('x!vl'), A('y!vl')
        return region_unchanged(o, h) + [
            ('no-link-so-far', FA([x, y], z3.Implies(z3.And(z3.Select(c.done, VRef(x)) > 0, in_r(o, s, y) > 0),
                                                     z3.Not(reg.exists_link(o, M, o.f('clsname', s), x, y))), [(z3.Select(c.done, VRef(x)), in_r(o, s, y))]))]

    def inv_right(c: LCtx):
        o, h, M, s = c.old, c.h, c.self, c.association
        y = A('y!vr')
        la = c.local('left_asset').t
        return region_unchanged(o, h) + [
            ('no-link-so-far', FA([y], z3.Implies(z3.Select(c.done, VRef(y)) > 0, z3.Not(reg.exists_link(o, M, o.f('clsname', s), la, y))),
                                  [z3.Select(c.done, VRef(y))]))]

    def dup_cond(c):
        o, M, s = c.old, c.self, c.association
        return z3.Or(z3.Not(V1(o, M, s)), z3.And(V2(o, M, s), V3(o, M, s), z3.Not(V4(o, M, s))))

    def inv_cond(c):
        o, M, s = c.old, c.self, c.association
        return z3.And(V1(o, M, s), z3.Or(z3.Not(V2(o, M, s)), z3.Not(V3(o, M, s))))

    exc_ens = lambda c: region_unchanged(c.old, c.h)
    reg.add(Contract(MM + ':Model._validate_association', {'self': Obj(MODEL), 'association': Obj(ASSOC)},
                     requires=requires, ensures=lambda c: region_unchanged(c.old, c.h),
                     raises={'DuplicateModelAssociationError': (dup_cond, exc_ens), 'ModelAssociationException': (inv_cond, exc_ens)},
                     modifies=LIST_ARRAYS + ('D_has', 'D_size', 'cls', 'own_obj'), allocates=True,
                     loops={1: LoopSpec(inv_members, iter_src='getattr(association, field_name)'),
                            3: LoopSpec(inv_left, iter_src='getattr(association, left_field_name)'),
                            4: LoopSpec(inv_right, iter_src='getattr(association, right_field_name)')},
                     props=('C06', 'C05'),
                     note='returns normally iff the association is new to the model, all its members are assets of the model, no asset repeats '
                          'inside a field, and no pair (left member, right member) is already linked by an association of the same class'))


def install_add_association(reg: Registry):
    def BLo(o, x): return o.f('associations', x)

    def Jp(o, h, s, x, tag):
        """the back-reference list of x is either the old object, or a fresh owned list equal to the old one plus s (once)"""
        r = A('r!' + tag)
        kv = z3.Const('k!' + tag, Val)
        B = h.f('associations', x)
        fresh = z3.And(B >= o.alloc, B < h.alloc, owned(h, B, x, 'associations'), h.cls(B) == CLS_LIST,
                       FA([r], h.cnt(B, r) == z3.If(r == s, 1, o.cnt(BLo(o, x), r)), [h.cnt(B, r)]),
                       FA([kv], z3.And(h.bag(B, kv) >= 0, z3.Implies(h.bag(B, kv) > 0, is_VRef(kv))), [h.bag(B, kv)]))
        return z3.Or(z3.And(B == BLo(o, x), h.cnt(B, s) == 0), fresh)

    def inv(c: LCtx):
        o, h, M, s = c.old, c.h, c.self, c.association
        x = A('x!aj')
        hl = c.hl
        return [('old-lists', old_lists_unchanged(o, h)), ('own-cls', own_cls_unchanged(o, h)),
                ('dicts', FA([x], z3.Implies(z3.And(x >= 0, x < o.alloc), z3.And(*[z3.Select(h.arr[n], x) == z3.Select(o.arr[n], x) for n in DICT_ARRAYS])),
                             [z3.Select(h.arr['D_has'], x)])),
                ('extras', z3.And(h.f('extras', s) == hl.f('extras', s), h.arr['f_extras'] == hl.arr['f_extras'])),
                ('J', FA([x], z3.Implies(is_asset(o, M, x), Jp(o, h, s, x, 'aj')), [h.f('associations', x)])),
                ('others', FA([x], z3.Implies(z3.Not(is_asset(o, M, x)), h.f('associations', x) == BLo(o, x)), [h.f('associations', x)])),
                ('done', FA([x], z3.Implies(z3.And(is_asset(o, M, x), z3.Select(c.done, VRef(x)) > 0), h.cnt(h.f('associations', x), s) == 1),
                            [z3.Select(c.done, VRef(x))])),
                # an asset whose list was already replaced when this loop started (it sits in the other field too) keeps that list
                ('stable', FA([x], z3.Implies(z3.And(is_asset(o, M, x), hl.f('associations', x) != BLo(o, x)), h.f('associations', x) == hl.f('associations', x)),
                              [h.f('associations', x)])),
                ('untouched', FA([x], z3.Implies(z3.And(z3.Select(c.done, VRef(x)) <= 0, hl.f('associations', x) == BLo(o, x)), h.f('associations', x) == BLo(o, x)),
                                 [h.f('associations', x)]))]

    def requires(c):
        return WFM(c.old, c.self) + [('association-typed', reg.assoc_typed(c.old, c.association))]

    def ensures(c):
        o, h, M, s = c.old, c.h, c.self, c.association
        x, r = A('x!ae'), A('r!ae')
        kv = z3.Const('k!ae', Val)
        SL, D = o.f('associations', M), o.f('_type_to_association', M)
        key = VStr(o.f('clsname', s))
        return WFM(h, M) + [
            ('added', z3.And(h.cnt(SL, s) == 1, FA([r], z3.Implies(r != s, h.cnt(SL, r) == o.cnt(SL, r)), [h.cnt(SL, r)]))),
            ('appended-last', z3.And(h.len(SL) == o.len(SL) + 1, h.at(SL, o.len(SL)) == VRef(s))),
            ('backrefs', FA([x, r], z3.Implies(is_asset(o, M, x), h.cnt(h.f('associations', x), r) ==
                                               z3.If(r == s, z3.If(z3.Or(in_l(o, s, x) > 0, in_r(o, s, x) > 0), 1, 0), o.cnt(BLo(o, x), r))),
                            [h.cnt(h.f('associations', x), r)])),
            ('fields-untouched', z3.And(list_unchanged(o, h, o.f('lfield', s)), list_unchanged(o, h, o.f('rfield', s)),
                                        h.f('lfield', s) == o.f('lfield', s), h.f('rfield', s) == o.f('rfield', s))),
            ('extras-empty', z3.And(h.f('extras', s) >= o.alloc, h.size(h.f('extras', s)) == 0)),
            ('frame.buckets', FA([kv], z3.Implies(kv != key, z3.And(h.has(D, kv) == o.has(D, kv), h.val(D, kv) == o.val(D, kv))), [h.has(D, kv)])),
            ('frame.sets', z3.And(*[z3.And(z3.Select(h.arr['D_has'], o.f(f, M)) == z3.Select(o.arr['D_has'], o.f(f, M))) for f in ('asset_ids', 'asset_names')])),
            ('frame.lists', lists_unchanged_where(o, h, lambda l: z3.And(l != SL, z3.Or(z3.Not(o.has(D, key)), l != v_a(o.val(D, key)))), 'af')),
            ('frame.own', own_cls_unchanged(o, h)), assoc_attr_frame(o, h, M),
        ]

    reg.add(Contract(MM + ':Model.add_association', {'self': Obj(MODEL), 'association': Obj(ASSOC)},
                     requires=requires, ensures=ensures,
                     raises={'ModelException': (lambda c: z3.Not(reg.assoc_valid(c.old, c.self, c.association)), lambda c: region_unchanged(c.old, c.h))},
                     modifies=LIST_ARRAYS + DICT_ARRAYS + ('cls', 'own_obj', 'own_fld', 'f_associations', 'f_extras'), allocates=True,
                     loops={1: LoopSpec(inv, iter_src='getattr(association, field_name)')}, props=('C05', 'C06', 'C07')))  # C07: _from_dict (assumed) rebuilds every link through add_association


def install_remove_asset_from_association(reg: Registry):
    def BLo(o, x): return o.f('associations', x)

    def whole(o, s, x):
        """the association goes away entirely: the asset is the only member of one of its sides"""
        return z3.Or(z3.And(in_l(o, s, x) > 0, o.len(o.f('lfield', s)) == 1), z3.And(in_r(o, s, x) > 0, o.len(o.f('rfield', s)) == 1))

    def raise_cond(c):
        o, M, x, s = c.old, c.self, c.asset, c.association
        return z3.Or(z3.Not(is_asset(o, M, x)), z3.Not(is_assoc(o, M, s)), z3.And(in_l(o, s, x) <= 0, in_r(o, s, x) <= 0))

    def ensures(c):
        o, h, M, x, s = c.old, c.h, c.self, c.asset, c.association
        y, r = A('y!rf'), A('r!rf')
        SL = o.f('associations', M)
        W = whole(o, s, x)
        return WFM(h, M) + [
            ('association', z3.And(h.cnt(SL, s) == z3.If(W, 0, 1), FA([r], z3.Implies(r != s, h.cnt(SL, r) == o.cnt(SL, r)), [h.cnt(SL, r)]))),
            # the asset no longer lists the association; if the association goes away nobody lists it; all other back-references stay
            ('backrefs', FA([y, r], z3.Implies(is_asset(o, M, y), h.cnt(h.f('associations', y), r) ==
                                               z3.If(z3.And(r == s, z3.Or(W, y == x)), 0, o.cnt(BLo(o, y), r))), [h.cnt(h.f('associations', y), r)])),
            ('fields', z3.Implies(z3.Not(W), z3.And(
                FA([y], in_l(h, s, y) == z3.If(y == x, 0, in_l(o, s, y)), [in_l(h, s, y)]),
                FA([y], in_r(h, s, y) == z3.If(y == x, 0, in_r(o, s, y)), [in_r(h, s, y)]),
                h.f('lfield', s) == o.f('lfield', s), h.f('rfield', s) == o.f('rfield', s)))),
            ('other-fields', FA([r], z3.Implies(z3.And(is_assoc(o, M, r), r != s), z3.And(list_unchanged(o, h, o.f('lfield', r)), list_unchanged(o, h, o.f('rfield', r)))),
                                [o.f('lfield', r), o.f('rfield', r)])),
            ('assets', list_unchanged(o, h, o.f('assets', M))),
            ('attackers', list_unchanged(o, h, o.f('attackers', M))),
            ('frame.lists', lists_unchanged_where(o, h, lambda l: z3.Or(o.own_obj(l) == -1, z3.And(*[o.own_fld(l) != field_id(f) for f in ('associations', 'lfield', 'rfield', BUCKET)])), 'rq')),
            ('frame.sets', z3.And(*[z3.And(z3.Select(h.arr['D_has'], o.f(f, M)) == z3.Select(o.arr['D_has'], o.f(f, M))) for f in ('asset_ids', 'asset_names')])),
            ('frame.own', own_cls_unchanged(o, h)), assoc_attr_frame(o, h, M),
        ]

    reg.add(Contract(MM + ':Model.remove_asset_from_association', {'self': Obj(MODEL), 'asset': Obj(ASSET), 'association': Obj(ASSOC)},
                     requires=lambda c: WFM(c.old, c.self), ensures=ensures,
                     raises={'LookupError': (raise_cond, lambda c: region_unchanged(c.old, c.h))},
                     modifies=LIST_ARRAYS + ('D_has', 'D_size', 'D_keyat', 'cls', 'own_obj', 'own_fld', 'f_associations'), allocates=True,
                     props=('C05',)))


def install_remove_asset(reg: Registry):
    def BLo(o, x): return o.f('associations', x)

    def whole(o, s, x):
        return z3.Or(z3.And(in_l(o, s, x) > 0, o.len(o.f('lfield', s)) == 1), z3.And(in_r(o, s, x) > 0, o.len(o.f('rfield', s)) == 1))

    def lists_x(o, s, x): return z3.Or(in_l(o, s, x) > 0, in_r(o, s, x) > 0)

    def assoc_state(o, h, M, x, gone_if):
        """the associations after removing x from those for which gone_if(s) holds (done / all)"""
        s, y = A('s!rs'), A('y!rs')
        SL = o.f('associations', M)
        goes = lambda q: z3.And(gone_if(q), whole(o, q, x))
        return [
            ('associations', FA([s], h.cnt(SL, s) == z3.If(goes(s), 0, o.cnt(SL, s)), [h.cnt(SL, s)])),
            ('fields.l', FA([s, y], z3.Implies(z3.And(is_assoc(o, M, s), z3.Not(goes(s))), in_l(h, s, y) == z3.If(z3.And(gone_if(s), y == x), 0, in_l(o, s, y))),
                            [in_l(h, s, y)])),
            ('fields.r', FA([s, y], z3.Implies(z3.And(is_assoc(o, M, s), z3.Not(goes(s))), in_r(h, s, y) == z3.If(z3.And(gone_if(s), y == x), 0, in_r(o, s, y))),
                            [in_r(h, s, y)])),
            ('fields.len', FA([s], z3.Implies(z3.And(is_assoc(o, M, s), z3.Not(gone_if(s))), z3.And(h.len(o.f('lfield', s)) == o.len(o.f('lfield', s)),
                                                                                                  h.len(o.f('rfield', s)) == o.len(o.f('rfield', s)))),
                              [h.len(o.f('lfield', s))], )),
            ('fields.len2', FA([s], z3.Implies(z3.And(is_assoc(o, M, s), z3.Not(gone_if(s))), h.len(o.f('rfield', s)) == o.len(o.f('rfield', s))),
                               [h.len(o.f('rfield', s))], )),
            ('backrefs', FA([y, s], z3.Implies(is_asset(o, M, y), h.cnt(h.f('associations', y), s) ==
                                               z3.If(z3.And(gone_if(s), z3.Or(whole(o, s, x), y == x)), 0, o.cnt(BLo(o, y), s))),
                            [h.cnt(h.f('associations', y), s), o.cnt(BLo(o, y), s)])),
        ]

    def inv0(c: LCtx):
        o, h, M, x = c.old, c.h, c.self, c.asset
        done = lambda q: z3.Select(c.done, VRef(q)) > 0
        kv = z3.Const('k!r0', Val)
        return WFM(h, M) + assoc_state(o, h, M, x, done) + [
            ('copy-fresh', c.it >= o.alloc),
            ('done-are-associations-of-x', FA([A('s!r0')], z3.Implies(done(A('s!r0')), o.cnt(BLo(o, x), A('s!r0')) > 0), [z3.Select(c.done, VRef(A('s!r0')))])),
            ('assets', list_unchanged(o, h, o.f('assets', M))), ('attackers', list_unchanged(o, h, o.f('attackers', M))),
            ('frame.lists', lists_unchanged_where(o, h, lambda l: z3.Or(o.own_obj(l) == -1, z3.And(*[o.own_fld(l) != field_id(f) for f in ('associations', 'lfield', 'rfield', BUCKET)])), 'r0')),
            ('copy-unowned', z3.And(h.own_obj(c.it) == -1, c.it < h.alloc)), assoc_attr_frame(o, h, M),
            ('frame.sets', z3.And(*[z3.And(z3.Select(h.arr['D_has'], o.f(f, M)) == z3.Select(o.arr['D_has'], o.f(f, M))) for f in ('asset_ids', 'asset_names')])),
            ('frame.own', own_cls_unchanged(o, h)),
        ]

    def eps_state(o, h, M, x, done_if):
        a, t = A('a!re'), A('t!re')
        E = lambda q: o.f('entry_points', q)
        return [('entry-points', FA([a, t], z3.Implies(is_attk(o, M, a), h.cnt(E(a), t) == z3.If(z3.And(done_if(a), o.f('t0', t) == x), 0, o.cnt(E(a), t))),
                                   [h.cnt(E(a), t)]))]

    def inv1(c: LCtx):
        o, h, M, x = c.old, c.h, c.self, c.asset
        hl = c.hl
        done = lambda q: z3.Select(c.done, VRef(q)) > 0
        kv = z3.Const('k!r1', Val)
        a = A('a!r1')
        return eps_state(o, h, M, x, done) + [
            ('only-entry-point-lists', lists_unchanged_where(hl, h, lambda l: hl.own_fld(l) != field_id('entry_points'), 'r1')),
            ('elems', FA([a, kv], z3.Implies(is_attk(o, M, a), z3.And(h.bag(o.f('entry_points', a), kv) >= 0,
                                                                    z3.Implies(h.bag(o.f('entry_points', a), kv) > 0, is_VRef(kv)))), [h.bag(o.f('entry_points', a), kv)])),
        ]

    def ensures(c):
        o, h, M, x = c.old, c.h, c.self, c.asset
        y = A('y!ra')
        kv = z3.Const('k!ra', Val)
        XL, IDS, NMS = o.f('assets', M), o.f('asset_ids', M), o.f('asset_names', M)
        return WFM(h, M) + assoc_state(o, h, M, x, lambda q: lists_x(o, q, x)) + eps_state(o, h, M, x, lambda q: z3.BoolVal(True)) + [
            ('asset-gone', z3.And(h.cnt(XL, x) == 0, FA([y], z3.Implies(y != x, h.cnt(XL, y) == o.cnt(XL, y)), [h.cnt(XL, y)]))),
            ('id-released', FA([kv], h.has(IDS, kv) == z3.And(o.has(IDS, kv), kv != o.f('id', x)), [h.has(IDS, kv)])),
            ('name-released', FA([kv], h.has(NMS, kv) == z3.And(o.has(NMS, kv), kv != VStr(o.f('name', x))), [h.has(NMS, kv)])),
        ]

    reg.add(Contract(MM + ':Model.remove_asset', {'self': Obj(MODEL), 'asset': Obj(ASSET)},
                     requires=lambda c: WFM(c.old, c.self), ensures=ensures,
                     raises={'LookupError': (lambda c: z3.Not(is_asset(c.old, c.self, c.asset)), lambda c: region_unchanged(c.old, c.h))},
                     modifies=LIST_ARRAYS + ('D_has', 'D_size', 'D_keyat', 'cls', 'own_obj', 'own_fld', 'f_associations'), allocates=True,
                     loops={0: LoopSpec(inv0, iter_src='list(asset.associations)'), 1: LoopSpec(inv1, iter_src='self.attackers')}, props=('C05',)))


def install(reg: Registry):
    install_attachment(reg)
    install_attackers(reg)
    install_add_asset(reg)
    install_remove_association(reg)
    install_validate(reg)
    install_add_association(reg)
    install_remove_asset_from_association(reg)
    install_remove_asset(reg)
