"""Contracts for maltoolbox/attackgraph/node.py and attacker.py (DESIGN.md Appendix A.1, A.2)."""
from __future__ import annotations
import z3
from pyvc.theory import *
from pyvc.contract import *
from .graph_spec import *

MN = 'maltoolbox.attackgraph.node'
MA = 'maltoolbox.attackgraph.attacker'


def install(reg: Registry):
    Gs = {'G': Addr}

    def members(c, node='self', att='attacker'):
        return [('wf.' + nm, f) for nm, f in wf_graph(c.old, c.G)] + [
            ('node-in-G', is_node(c.old, c.G, getattr(c, node))), ('attacker-in-G', is_att(c.old, c.G, getattr(c, att)))]

    # ---- AttackGraphNode.full_name (property)
    reg.add(Contract(MN + ':AttackGraphNode.full_name', {'self': Obj(NODE)}, returns=T.str, is_property=True, pure=True,
                     ensures=lambda c: [('def', c.res == full_name(c.old, c.self))], props=('C02', 'C09'),
                     note='asset truthiness: a library asset has __len__ >= 2 (PJS)'))

    # ---- is_compromised / is_compromised_by
    reg.add(Contract(MN + ':AttackGraphNode.is_compromised', {'self': Obj(NODE)}, returns=T.bool, pure=True,
                     ensures=lambda c: [('def', c.res == (c.old.len(c.old.f('compromised_by', c.self)) > 0))], props=('C11',)))
    reg.add(Contract(MN + ':AttackGraphNode.is_compromised_by', {'self': Obj(NODE), 'attacker': Obj(ATT)}, returns=T.bool,
                     pure=True, props=('C11', 'C12'),
                     ensures=lambda c: [('def', c.res == (cb(c.old, c.self, c.attacker) > 0))],
                     note='membership is identity on attackers of one graph (EQ-ID)'))

    # ---- defenses
    def enabled(c, want):
        h = c.old
        st = h.f('defense_status', c.self)
        is_one = z3.Or(z3.And(is_VReal(st), v_r(st) == 1), z3.And(is_VInt(st), v_i(st) == 1))
        sup = h.bag(h.f('tags', c.self), VStr(str_const('suppress'))) > 0
        base = z3.And(h.f('type', c.self) == str_const('defense'), z3.Not(sup))
        return z3.And(base, is_one if want else z3.Not(is_one))
    reg.add(Contract(MN + ':AttackGraphNode.is_enabled_defense', {'self': Obj(NODE)}, returns=T.bool, pure=True,
                     ensures=lambda c: [('def', c.res == enabled(c, True))], props=('C12',)))
    reg.add(Contract(MN + ':AttackGraphNode.is_available_defense', {'self': Obj(NODE)}, returns=T.bool, pure=True,
                     ensures=lambda c: [('def', c.res == enabled(c, False))], props=('C12',)))

    # ---- Attacker.compromise / undo_compromise (C11)
    # Minimal precondition (so that callers may use them while the graph invariant is temporarily broken, e.g. inside
    # remove_node / add_attacker): the two lists are separate, owned containers and the pair (attacker, node) agrees.
    # The exact delta is the postcondition; preservation of wf_graph is lemma COMP-WF below.
    def comp_requires_of(a_name, n_name):
        def req(c):
            o = c.old
            a, n = getattr(c, a_name), getattr(c, n_name)
            R, C = o.f('reached_attack_steps', a), o.f('compromised_by', n)
            return [('own-reached', z3.And(o.own_obj(R) == a, o.own_fld(R) == field_id('reached_attack_steps'))),
                    ('own-compromised_by', z3.And(o.own_obj(C) == n, o.own_fld(C) == field_id('compromised_by'))),
                    ('pair-agrees', z3.And(reached(o, a, n) == cb(o, n, a), reached(o, a, n) >= 0, reached(o, a, n) <= 1))]
        return req

    def comp_delta(o, h, a, n, add):
        R, C = o.f('reached_attack_steps', a), o.f('compromised_by', n)
        was = cb(o, n, a) > 0
        delta = 1 if add else -1
        changes = z3.Not(was) if add else was
        out = [
            ('frame.lists', lists_unchanged_except(o, h, [R, C])),
            ('noop', z3.Implies(z3.Not(changes), z3.And(list_unchanged(o, h, R), list_unchanged(o, h, C)))),
            ('reached', z3.Implies(changes, h.bagof(R) == z3.Store(o.bagof(R), VRef(n), o.bag(R, VRef(n)) + delta))),
            ('compromised_by', z3.Implies(changes, h.bagof(C) == z3.Store(o.bagof(C), VRef(a), o.bag(C, VRef(a)) + delta))),
            ('len', z3.Implies(changes, z3.And(h.len(R) == o.len(R) + delta, h.len(C) == o.len(C) + delta))),
            ('agree', z3.And(reached(h, a, n) == cb(h, n, a), reached(h, a, n) == (1 if add else 0))),
        ]
        if add:
            out.append(('appended-last', z3.Implies(changes, z3.And(
                h.at(R, o.len(R)) == VRef(n), h.at(C, o.len(C)) == VRef(a)))))
        return out

    for name, add in (('compromise', True), ('undo_compromise', False)):
        reg.add(Contract(MA + ':Attacker.' + name, {'self': Obj(ATT), 'node': Obj(NODE)},
                         requires=comp_requires_of('self', 'node'),
                         ensures=(lambda add: lambda c: comp_delta(c.old, c.h, c.self, c.node, add))(add),
                         modifies=LIST_ARRAYS, props=('C11', 'C09')))
        reg.add(Contract(MN + ':AttackGraphNode.' + name, {'self': Obj(NODE), 'attacker': Obj(ATT)},
                         requires=comp_requires_of('attacker', 'self'),
                         ensures=(lambda add: lambda c: comp_delta(c.old, c.h, c.attacker, c.self, add))(add),
                         modifies=LIST_ARRAYS, props=('C11', 'C09')))

    # ---- lemma COMP-WF: on a well-formed graph, compromise / undo_compromise (either side) preserve wf_graph, and the
    # precondition of the contracts follows from wf_graph and membership  (C11 "at every point ... exactly when")
    def lemma_comp_wf(reg):
        from pyvc.theory import H
        out = []
        for add in (True, False):
            o = H.fresh(reg.schema, 'cw0')
            h = o.with_(L_len=z3.Const('L_len!cw1', o.arr['L_len'].sort()), L_at=z3.Const('L_at!cw1', o.arr['L_at'].sort()),
                        L_bag=z3.Const('L_bag!cw1', o.arr['L_bag'].sort()))
            G, a, n = z3.Const('G!cw', Addr), z3.Const('a!cw', Addr), z3.Const('n!cw', Addr)
            hyps = [f for _, f in wf_graph(o, G)] + [is_att(o, G, a), is_node(o, G, n)]
            tag = 'compromise' if add else 'undo'
            class C0:  # minimal context for comp_requires_of
                old = o
            C0.self = a; C0.node = n
            for (nm, f) in comp_requires_of('self', 'node')(C0):
                out.append(('%s.pre.%s' % (tag, nm), hyps, f))
            hyps2 = hyps + [f for _, f in comp_delta(o, h, a, n, add)]
            for (nm, f) in wf_graph(h, G):
                out.append(('%s.wf.%s' % (tag, nm), hyps2, f))
        return out
    reg.add_lemma('COMP-WF.compromise-and-undo-preserve-wf_graph', ('C11', 'C09'), lemma_comp_wf)
