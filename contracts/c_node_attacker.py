"""Contracts for maltoolbox/attackgraph/node.py and attacker.py (DESIGN.md Appendix A.1, A.2)."""
from __future__ import annotations
import z3
from pyvc.theory import *
from pyvc.contract import *
from .graph_spec import *

MN = 'maltoolbox.attackgraph.node'
MA = 'maltoolbox.attackgraph.attacker'


def install(reg: Registry):
    Gs = {'G': Addr}

    def members(c, node='self', att='attacker'):
        return [('wf.' + nm, f) for nm, f in wf_graph(c.old, c.G)] + [
            ('node-in-G', is_node(c.old, c.G, getattr(c, node))), ('attacker-in-G', is_att(c.old, c.G, getattr(c, att)))]

    # ---- AttackGraphNode.full_name (property)
    reg.add(Contract(MN + ':AttackGraphNode.full_name', {'self': Obj(NODE)}, returns=T.str, is_property=True, pure=True,
                     requires=lambda c: [('asset-truthy', z3.Or(is_VNone(c.old.f('asset', c.self)), is_VRef(c.old.f('asset', c.self))))],
                     ensures=lambda c: [('def', c.res == full_name(c.old, c.self))], props=('C02', 'C09'),
                     note='asset truthiness: a library asset has __len__ >= 2 (PJS)'))

    # ---- is_compromised / is_compromised_by
    reg.add(Contract(MN + ':AttackGraphNode.is_compromised', {'self': Obj(NODE)}, returns=T.bool, pure=True,
                     ensures=lambda c: [('def', c.res == (c.old.len(c.old.f('compromised_by', c.self)) > 0))], props=('C11',)))
    reg.add(Contract(MN + ':AttackGraphNode.is_compromised_by', {'self': Obj(NODE), 'attacker': Obj(ATT)}, returns=T.bool,
                     pure=True, props=('C11', 'C12'),
                     ensures=lambda c: [('def', c.res == (cb(c.old, c.self, c.attacker) > 0))],
                     note='membership is identity on attackers of one graph (EQ-ID)'))

    # ---- defenses
    def enabled(c, want):
        h = c.old
        st = h.f('defense_status', c.self)
        is_one = z3.Or(z3.And(is_VReal(st), v_r(st) == 1), z3.And(is_VInt(st), v_i(st) == 1))
        sup = h.bag(h.f('tags', c.self), VStr(str_const('suppress'))) > 0
        base = z3.And(h.f('type', c.self) == str_const('defense'), z3.Not(sup))
        return z3.And(base, is_one if want else z3.Not(is_one))
    reg.add(Contract(MN + ':AttackGraphNode.is_enabled_defense', {'self': Obj(NODE)}, returns=T.bool, pure=True,
                     ensures=lambda c: [('def', c.res == enabled(c, True))], props=('C12',)))
    reg.add(Contract(MN + ':AttackGraphNode.is_available_defense', {'self': Obj(NODE)}, returns=T.bool, pure=True,
                     ensures=lambda c: [('def', c.res == enabled(c, False))], props=('C12',)))

    # ---- Attacker.compromise / undo_compromise (C11)
    def comp_requires(c):
        return [('wf.' + nm, f) for nm, f in wf_graph(c.old, c.G)] + [
            ('self-in-G', is_att(c.old, c.G, c.self)), ('node-in-G', is_node(c.old, c.G, c.node))]

    def comp_ensures(add):
        def ens(c):
            o, h, a, n, G = c.old, c.h, c.self, c.node, c.G
            R, C = o.f('reached_attack_steps', a), o.f('compromised_by', n)
            was = cb(o, n, a) > 0
            out = [('wf.' + nm, f) for nm, f in wf_graph(h, G)]
            delta = 1 if add else -1
            changes = z3.Not(was) if add else was
            out += [
                ('frame.lists', lists_unchanged_except(o, h, [R, C])),
                ('noop', z3.Implies(z3.Not(changes), z3.And(list_unchanged(o, h, R), list_unchanged(o, h, C)))),
                ('reached', z3.Implies(changes, h.bagof(R) == z3.Store(o.bagof(R), VRef(n), o.bag(R, VRef(n)) + delta))),
                ('compromised_by', z3.Implies(changes, h.bagof(C) == z3.Store(o.bagof(C), VRef(a), o.bag(C, VRef(a)) + delta))),
                ('len', z3.Implies(changes, z3.And(h.len(R) == o.len(R) + delta, h.len(C) == o.len(C) + delta))),
                ('agree', (reached(h, a, n) > 0) == (cb(h, n, a) > 0)),
                ('result', (cb(h, n, a) > 0) == z3.BoolVal(add)),
            ]
            if add:
                out.append(('appended-last', z3.Implies(changes, z3.And(
                    h.at(R, o.len(R)) == VRef(n), h.at(C, o.len(C)) == VRef(a)))))
            return out
        return ens
    for name, add in (('compromise', True), ('undo_compromise', False)):
        reg.add(Contract(MA + ':Attacker.' + name, {'self': Obj(ATT), 'node': Obj(NODE)}, ghosts=Gs,
                         requires=comp_requires, ensures=comp_ensures(add), modifies=LIST_ARRAYS, props=('C11', 'C09')))
        # node-side delegates
        reg.add(Contract(MN + ':AttackGraphNode.' + name, {'self': Obj(NODE), 'attacker': Obj(ATT)}, ghosts=Gs,
                         requires=lambda c: [('wf.' + nm, f) for nm, f in wf_graph(c.old, c.G)] + [
                             ('self-in-G', is_node(c.old, c.G, c.self)), ('attacker-in-G', is_att(c.old, c.G, c.attacker))],
                         ensures=(lambda add: lambda c: comp_ensures(add)(
                             CCtx(c.old, c.h, {'self': c.sv('attacker'), 'node': c.sv('self')}, c.ghosts, c.result)))(add),
                         modifies=LIST_ARRAYS, props=('C11', 'C09')))
