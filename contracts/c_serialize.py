"""Contracts for the dict encodings of the attack graph (C10): AttackGraphNode.to_dict, Attacker.to_dict."""
from __future__ import annotations
import z3
from pyvc.theory import *
from pyvc.contract import *
from .graph_spec import *

MN = 'maltoolbox.attackgraph.node'
MA = 'maltoolbox.attackgraph.attacker'
K = lambda s_: VStr(str_const(s_))
S = str_const


def old_same(o: H, h: H):
    x = A('x!os')
    return [('pure.' + n, FA([x], z3.Implies(z3.And(x >= 0, x < o.alloc), z3.Select(h.arr[n], x) == z3.Select(o.arr[n], x)), [z3.Select(h.arr[n], x)]))
            for n in h.arr if not z3.eq(h.arr[n], o.arr[n])]


def id_name_map(o: H, h: H, D, L, done=None):
    """dict D maps the id of every (processed) element of node list L to that element's full name, and nothing else"""
    c = A('c!im')
    k = z3.Const('k!im', Val)
    inl = (lambda q: z3.Select(done, VRef(q)) > 0) if done is not None else (lambda q: o.cnt(L, q) > 0)
    return z3.And(
        FA([c], z3.Implies(inl(c), h.has(D, o.f('id', c))), [o.cnt(L, c)] if done is None else [z3.Select(done, VRef(c))]),
        FA([k], z3.Implies(h.has(D, k), z3.Exists([c], z3.And(inl(c), o.f('id', c) == k, h.val(D, k) == VStr(full_name(o, c))))), [h.has(D, k)]))


def install(reg: Registry):
    # ---- AttackGraphNode.to_dict
    def dicts(h, R):
        return v_a(h.val(R, K('children'))), v_a(h.val(R, K('parents')))

    def shape(o, h, R):
        DC, DP = dicts(h, R)
        return [
            ('fresh', z3.And(R >= o.alloc, R < h.alloc, h.cls(R) == CLS_DICT)),
            ('sub-dicts', z3.And(h.has(R, K('children')), h.has(R, K('parents')), is_VRef(h.val(R, K('children'))), is_VRef(h.val(R, K('parents'))),
                                 DC >= o.alloc, DP >= o.alloc, DC < h.alloc, DP < h.alloc, DC != DP, DC != R, DP != R,
                                 h.cls(DC) == CLS_DICT, h.cls(DP) == CLS_DICT)),
            ('scalars', z3.And(h.has(R, K('id')), h.val(R, K('id')) == o.f('id', A('self!ph')),
                               h.has(R, K('type')), h.val(R, K('type')) == VStr(o.f('type', A('self!ph'))),
                               h.has(R, K('name')), h.val(R, K('name')) == VStr(o.f('name', A('self!ph'))),
                               h.has(R, K('ttc')), h.val(R, K('ttc')) == o.f('ttc', A('self!ph')))),
        ]

    def subst_self(fs, me):
        return [(n, z3.substitute(f, (A('self!ph'), me))) for n, f in fs]

    BASE = ('id', 'type', 'name', 'ttc', 'children', 'parents', 'compromised_by')

    def base_keys_only(h, R):
        k = z3.Const('k!bk', Val)
        return ('base-keys-only', FA([k], h.has(R, k) == z3.Or(*[k == K(x) for x in BASE]), [h.has(R, k)]))

    def inv_children(c: LCtx):
        o, h = c.old, c.h
        R = c.ret().t
        DC, DP = dicts(h, R)
        return subst_self(shape(o, h, R), c.self) + old_same(o, h) + [base_keys_only(h, R),
            ('children-so-far', id_name_map(o, h, DC, o.f('children', c.self), done=c.done)),
            ('parents-empty', h.bagof(DP) == h.bagof(DP)), ('parents-none', z3.Select(h.arr['D_has'], DP) == EMPTY_HAS),
            ('cb-names', cb_names(o, h, R, c.self)),
        ]

    def inv_parents(c: LCtx):
        o, h = c.old, c.h
        R = c.ret().t
        DC, DP = dicts(h, R)
        return subst_self(shape(o, h, R), c.self) + old_same(o, h) + [base_keys_only(h, R),
            ('children', id_name_map(o, h, DC, o.f('children', c.self))),
            ('parents-so-far', id_name_map(o, h, DP, o.f('parents', c.self), done=c.done)),
            ('cb-names', cb_names(o, h, R, c.self)),
        ]

    def cb_names(o, h, R, me):
        """'compromised_by' is a fresh list with the name of each compromising attacker, in order"""
        Lc = v_a(h.val(R, K('compromised_by')))
        j = z3.Int('j!cn')
        src = o.f('compromised_by', me)
        return z3.And(h.has(R, K('compromised_by')), is_VRef(h.val(R, K('compromised_by'))), Lc >= o.alloc, h.cls(Lc) == CLS_LIST,
                      h.len(Lc) == o.len(src),
                      FA([j], z3.Implies(z3.And(0 <= j, j < o.len(src)), h.at(Lc, j) == VStr(o.f('name', v_a(o.at(src, j))))), [h.at(Lc, j)]))

    def ensures(c):
        o, h, me = c.old, c.h, c.self
        R = c.res
        DC, DP = dicts(h, R)
        opt = lambda key, cond, val: z3.And(h.has(R, K(key)) == cond, z3.Implies(cond, h.val(R, K(key)) == val))
        ds, es, mi = o.f('defense_status', me), o.f('existence_status', me), o.f('mitre_info', me)
        TL = o.f('tags', me)
        tags_val = h.val(R, K('tags'))
        return subst_self(shape(o, h, R), me) + old_same(o, h) + [
            ('children', id_name_map(o, h, DC, o.f('children', me))),
            ('parents', id_name_map(o, h, DP, o.f('parents', me))),
            ('compromised_by', cb_names(o, h, R, me)),
            ('asset', opt('asset', z3.Not(is_VNone(o.f('asset', me))), VStr(o.f('name', v_a(o.f('asset', me)))))),
            ('defense_status', opt('defense_status', z3.Not(is_VNone(ds)), VStr(str_of_val(ds)))),
            ('existence_status', opt('existence_status', z3.Not(is_VNone(es)),
                                     VStr(z3.If(is_VBool(es), z3.If(v_b(es), S('True'), S('False')), str_of_val(es))))),
            ('is_viable', z3.And(h.has(R, K('is_viable')), h.val(R, K('is_viable')) == VStr(z3.If(o.f('is_viable', me), S('True'), S('False'))))),
            ('is_necessary', z3.And(h.has(R, K('is_necessary')), h.val(R, K('is_necessary')) == VStr(z3.If(o.f('is_necessary', me), S('True'), S('False'))))),
            ('mitre_info', opt('mitre_info', z3.Not(is_VNone(mi)), VStr(v_s(mi)))),
            # tags: present iff non-empty, and then a FRESH LIST with the same strings in the same order (not a str)
            ('tags', z3.And(h.has(R, K('tags')) == (o.len(TL) > 0),
                            z3.Implies(o.len(TL) > 0, z3.And(is_VRef(tags_val), v_a(tags_val) >= o.alloc, h.cls(v_a(tags_val)) == CLS_LIST,
                                                             h.len(v_a(tags_val)) == o.len(TL), h.bagof(v_a(tags_val)) == o.bagof(TL),
                                                             z3.Select(h.arr['L_at'], v_a(tags_val)) == z3.Select(o.arr['L_at'], TL))))),
            ('extras', opt('extras', o.size(o.f('extras', me)) > 0, VRef(o.f('extras', me)))),
        ]

    reg.add(Contract(MN + ':AttackGraphNode.to_dict', {'self': Obj(NODE)}, returns=Dict(T.str, T.val), ensures=ensures,
                     modifies=LIST_ARRAYS + DICT_ARRAYS + ('cls', 'own_obj'), allocates=True,
                     loops={0: LoopSpec(inv_children, iter_src='self.children'), 1: LoopSpec(inv_parents, iter_src='self.parents')},
                     props=('C10',), no_merge=True, note='mitre_info is a str when present (TYPES); extras is stored by reference, as the code does'))
