"""Contracts for the dict encodings of the attack graph (C10): AttackGraphNode.to_dict, Attacker.to_dict."""
from __future__ import annotations
import z3
from pyvc.theory import *
from pyvc.contract import *
from .graph_spec import *

MN = 'maltoolbox.attackgraph.node'
MA = 'maltoolbox.attackgraph.attacker'
K = lambda s_: VStr(str_const(s_))
S = str_const


def old_same(o: H, h: H):
    x = A('x!os')
    return [('pure.' + n, FA([x], z3.Implies(z3.And(x >= 0, x < o.alloc), z3.Select(h.arr[n], x) == z3.Select(o.arr[n], x)), [z3.Select(h.arr[n], x)]))
            for n in h.arr if not z3.eq(h.arr[n], o.arr[n])]


def id_name_map(o: H, h: H, D, L, done=None):
    """dict D maps the id of every (processed) element of node list L to that element's full name, and nothing else"""
    c = A('c!im')
    k = z3.Const('k!im', Val)
    inl = (lambda q: z3.Select(done, VRef(q)) > 0) if done is not None else (lambda q: o.cnt(L, q) > 0)
    return z3.And(
        FA([c], z3.Implies(inl(c), h.has(D, o.f('id', c))), [o.cnt(L, c)] if done is None else [z3.Select(done, VRef(c))]),
        FA([k], z3.Implies(h.has(D, k), z3.Exists([c], z3.And(inl(c), o.f('id', c) == k, h.val(D, k) == VStr(full_name(o, c))),
                                                  patterns=[o.cnt(L, c)] if done is None else [z3.Select(done, VRef(c))])), [h.has(D, k)]))


def install(reg: Registry):
    # ---- AttackGraphNode.to_dict
    def dicts(h, R):
        return v_a(h.val(R, K('children'))), v_a(h.val(R, K('parents')))

    def shape(o, h, R):
        DC, DP = dicts(h, R)
        return [
            ('fresh', z3.And(R >= o.alloc, R < h.alloc, h.cls(R) == CLS_DICT)),
            ('sub-dicts', z3.And(h.has(R, K('children')), h.has(R, K('parents')), is_VRef(h.val(R, K('children'))), is_VRef(h.val(R, K('parents'))),
                                 DC >= o.alloc, DP >= o.alloc, DC < h.alloc, DP < h.alloc, DC != DP, DC != R, DP != R,
                                 h.cls(DC) == CLS_DICT, h.cls(DP) == CLS_DICT)),
            ('scalars', z3.And(h.has(R, K('id')), h.val(R, K('id')) == o.f('id', A('self!ph')),
                               h.has(R, K('type')), h.val(R, K('type')) == VStr(o.f('type', A('self!ph'))),
                               h.has(R, K('name')), h.val(R, K('name')) == VStr(o.f('name', A('self!ph'))),
                               h.has(R, K('ttc')), h.val(R, K('ttc')) == o.f('ttc', A('self!ph')))),
        ]

    def subst_self(fs, me):
        return [(n, z3.substitute(f, (A('self!ph'), me))) for n, f in fs]

    BASE = ('id', 'type', 'name', 'ttc', 'children', 'parents', 'compromised_by')

    def base_keys_only(h, R):
        k = z3.Const('k!bk', Val)
        return ('base-keys-only', FA([k], h.has(R, k) == z3.Or(*[k == K(x) for x in BASE]), [h.has(R, k)]))

    def inv_children(c: LCtx):
        o, h = c.old, c.h
        R = c.ret().t
        DC, DP = dicts(h, R)
        return subst_self(shape(o, h, R), c.self) + old_same(o, h) + [base_keys_only(h, R),
            ('children-so-far', id_name_map(o, h, DC, o.f('children', c.self), done=c.done)),
            ('parents-empty', h.bagof(DP) == h.bagof(DP)), ('parents-none', z3.Select(h.arr['D_has'], DP) == EMPTY_HAS),
            ('cb-names', cb_names(o, h, R, c.self)),
            # the two nested dicts stay the objects the literal created (a local alias taken before the loop denotes them)
            ('nested-dicts-stay', z3.And(h.val(R, K('children')) == c.hl.val(R, K('children')), h.val(R, K('parents')) == c.hl.val(R, K('parents')))),
        ]

    def inv_parents(c: LCtx):
        o, h = c.old, c.h
        R = c.ret().t
        DC, DP = dicts(h, R)
        return subst_self(shape(o, h, R), c.self) + old_same(o, h) + [base_keys_only(h, R),
            ('children', id_name_map(o, h, DC, o.f('children', c.self))),
            ('parents-so-far', id_name_map(o, h, DP, o.f('parents', c.self), done=c.done)),
            ('cb-names', cb_names(o, h, R, c.self)),
            ('nested-dicts-stay', z3.And(h.val(R, K('children')) == c.hl.val(R, K('children')), h.val(R, K('parents')) == c.hl.val(R, K('parents')))),
        ]

    def cb_names(o, h, R, me):
        """'compromised_by' is a fresh list with the name of each compromising attacker, in order"""
        Lc = v_a(h.val(R, K('compromised_by')))
        j = z3.Int('j!cn')
        src = o.f('compromised_by', me)
        return z3.And(h.has(R, K('compromised_by')), is_VRef(h.val(R, K('compromised_by'))), Lc >= o.alloc, h.cls(Lc) == CLS_LIST,
                      h.len(Lc) == o.len(src),
                      FA([j], z3.Implies(z3.And(0 <= j, j < o.len(src)), h.at(Lc, j) == VStr(o.f('name', v_a(o.at(src, j))))), [h.at(Lc, j)]))

    def ensures(c):
        return node_enc(c.old, c.h, c.res, c.self) + old_same(c.old, c.h)

    def node_enc(o, h, R, me):
        DC, DP = dicts(h, R)
        opt = lambda key, cond, val: z3.And(h.has(R, K(key)) == cond, z3.Implies(cond, h.val(R, K(key)) == val))
        ds, es, mi = o.f('defense_status', me), o.f('existence_status', me), o.f('mitre_info', me)
        TL = o.f('tags', me)
        tags_val = h.val(R, K('tags'))
        return subst_self(shape(o, h, R), me) + [
            ('children', id_name_map(o, h, DC, o.f('children', me))),
            ('parents', id_name_map(o, h, DP, o.f('parents', me))),
            ('compromised_by', cb_names(o, h, R, me)),
            ('asset', opt('asset', z3.Not(is_VNone(o.f('asset', me))), VStr(o.f('name', v_a(o.f('asset', me)))))),
            ('defense_status', opt('defense_status', z3.Not(is_VNone(ds)), VStr(str_of_val(ds)))),
            ('existence_status', opt('existence_status', z3.Not(is_VNone(es)),
                                     VStr(z3.If(is_VBool(es), z3.If(v_b(es), S('True'), S('False')), str_of_val(es))))),
            ('is_viable', z3.And(h.has(R, K('is_viable')), h.val(R, K('is_viable')) == VStr(z3.If(o.f('is_viable', me), S('True'), S('False'))))),
            ('is_necessary', z3.And(h.has(R, K('is_necessary')), h.val(R, K('is_necessary')) == VStr(z3.If(o.f('is_necessary', me), S('True'), S('False'))))),
            ('mitre_info', opt('mitre_info', z3.Not(is_VNone(mi)), VStr(v_s(mi)))),
            # tags: present iff non-empty, and then a FRESH LIST with the same strings in the same order (not a str)
            ('tags', z3.And(h.has(R, K('tags')) == (o.len(TL) > 0),
                            z3.Implies(o.len(TL) > 0, z3.And(is_VRef(tags_val), v_a(tags_val) >= o.alloc, h.cls(v_a(tags_val)) == CLS_LIST,
                                                             h.len(v_a(tags_val)) == o.len(TL), h.bagof(v_a(tags_val)) == o.bagof(TL),
                                                             z3.Select(h.arr['L_at'], v_a(tags_val)) == z3.Select(o.arr['L_at'], TL))))),
            ('extras', opt('extras', o.size(o.f('extras', me)) > 0, VRef(o.f('extras', me)))),
        ]

    reg.node_enc = node_enc
    reg.add(Contract(MN + ':AttackGraphNode.to_dict', {'self': Obj(NODE)}, returns=Dict(T.str, T.val), ensures=ensures,
                     modifies=LIST_ARRAYS + DICT_ARRAYS + ('cls', 'own_obj'), allocates=True,
                     loops={0: LoopSpec(inv_children, iter_src='self.children'), 1: LoopSpec(inv_parents, iter_src='self.parents')},
                     props=('C10',), no_merge=True, note='mitre_info is a str when present (TYPES); extras is stored by reference, as the code does'))


def install_attacker_and_graph(reg: Registry):
    MG = 'maltoolbox.attackgraph.attackgraph'

    # ---- Attacker.to_dict
    def a_dicts(h, R):
        return v_a(h.val(R, K('entry_points'))), v_a(h.val(R, K('reached_attack_steps')))

    def a_shape(o, h, R, me):
        DE, DR = a_dicts(h, R)
        k = z3.Const('k!as', Val)
        return [
            ('fresh', z3.And(R >= o.alloc, R < h.alloc, h.cls(R) == CLS_DICT)),
            ('keys', FA([k], h.has(R, k) == z3.Or(*[k == K(x) for x in ('id', 'name', 'entry_points', 'reached_attack_steps')]), [h.has(R, k)])),
            ('scalars', z3.And(h.val(R, K('id')) == o.f('id', me), h.val(R, K('name')) == VStr(o.f('name', me)))),
            ('sub-dicts', z3.And(is_VRef(h.val(R, K('entry_points'))), is_VRef(h.val(R, K('reached_attack_steps'))),
                                 DE >= o.alloc, DR >= o.alloc, DE < h.alloc, DR < h.alloc, DE != DR, DE != R, DR != R,
                                 h.cls(DE) == CLS_DICT, h.cls(DR) == CLS_DICT)),
        ]

    def a_inv0(c: LCtx):
        o, h = c.old, c.h
        R = c.ret().t
        DE, DR = a_dicts(h, R)
        return a_shape(o, h, R, c.self) + old_same(o, h) + [
            ('entry-so-far', id_name_map(o, h, DE, o.f('entry_points', c.self), done=c.done)),
            ('reached-none', z3.Select(h.arr['D_has'], DR) == EMPTY_HAS),
            ('nested-dicts-stay', z3.And(h.val(R, K('entry_points')) == c.hl.val(R, K('entry_points')),
                                         h.val(R, K('reached_attack_steps')) == c.hl.val(R, K('reached_attack_steps'))))]

    def a_inv1(c: LCtx):
        o, h = c.old, c.h
        R = c.ret().t
        DE, DR = a_dicts(h, R)
        return a_shape(o, h, R, c.self) + old_same(o, h) + [
            ('entry', id_name_map(o, h, DE, o.f('entry_points', c.self))),
            ('reached-so-far', id_name_map(o, h, DR, o.f('reached_attack_steps', c.self), done=c.done)),
            ('nested-dicts-stay', z3.And(h.val(R, K('entry_points')) == c.hl.val(R, K('entry_points')),
                                         h.val(R, K('reached_attack_steps')) == c.hl.val(R, K('reached_attack_steps'))))]

    def a_ensures(c):
        o, h = c.old, c.h
        DE, DR = a_dicts(h, c.res)
        return a_shape(o, h, c.res, c.self) + old_same(o, h) + [
            ('entry_points', id_name_map(o, h, DE, o.f('entry_points', c.self))),
            ('reached_attack_steps', id_name_map(o, h, DR, o.f('reached_attack_steps', c.self)))]

    def att_enc(o, h, R, me):
        DE, DR = a_dicts(h, R)
        return a_shape(o, h, R, me) + [('entry_points', id_name_map(o, h, DE, o.f('entry_points', me))),
                                       ('reached_attack_steps', id_name_map(o, h, DR, o.f('reached_attack_steps', me)))]

    # ---- AttackGraph._to_dict : one entry per node keyed by full name, one per attacker keyed by id (C10)
    def g_requires(c):
        return [('wf.' + nm, f) for nm, f in wf_graph(c.old, c.self, parts=('W0', 'W1', 'W2', 'W4'))]

    def entries(o, h, D, L, keyof, enc, done=None, above=None, nested=()):
        """dict D has exactly one entry per (processed) element x of list L, under key keyof(x), and that entry encodes x"""
        x = A('x!en')
        k = z3.Const('k!en', Val)
        inl = (lambda q: z3.Select(done, VRef(q)) > 0) if done is not None else (lambda q: o.cnt(L, q) > 0)
        pat = [z3.Select(done, VRef(x))] if done is not None else [o.cnt(L, x)]
        return z3.And(
            FA([x], z3.Implies(inl(x), z3.And(h.has(D, keyof(x)), is_VRef(h.val(D, keyof(x))), v_a(h.val(D, keyof(x))) >= o.alloc,
                                              *([f for _, f in enc(o, h, v_a(h.val(D, keyof(x))), x)] +
                                                # the entry and its nested dicts were allocated after the two result dicts: later
                                                # stores into those cannot touch them
                                                ([v_a(h.val(D, keyof(x))) > above] + [v_a(h.val(v_a(h.val(D, keyof(x))), K(sub))) > above for sub in nested]
                                                 if above is not None else [])))), pat),
            FA([k], z3.Implies(h.has(D, k), z3.Exists([x], z3.And(inl(x), o.cnt(L, x) > 0, keyof(x) == k))), [h.has(D, k)]))

    name_key = lambda o: (lambda x: VStr(full_name_fn(o)[0](x)))
    id_key = lambda o: (lambda x: o.f('id', x))

    def g_inv(which):
        def inv(c: LCtx):
            o, h, G = c.old, c.h, c.self
            SA, ST = c.local('serialized_attack_steps').t, c.local('serialized_attackers').t
            # (no assumption about which of the two result dicts is allocated first: `above` is the later of the two)
            top = z3.If(ST > SA, ST, SA)
            out = old_same(o, h) + [
                ('dicts-fresh', z3.And(SA >= o.alloc, ST >= o.alloc, SA < h.alloc, ST < h.alloc, SA != ST, h.cls(SA) == CLS_DICT, h.cls(ST) == CLS_DICT)),
            ]
            if which == 0:
                out += [('steps-so-far', entries(o, h, SA, nodes_l(o, G), name_key(o), reg.node_enc, done=c.done, above=top, nested=('children', 'parents'))),
                        ('attackers-none', z3.Select(h.arr['D_has'], ST) == EMPTY_HAS)]
            else:
                out += [('steps', entries(o, h, SA, nodes_l(o, G), name_key(o), reg.node_enc, above=top, nested=('children', 'parents'))),
                        ('attackers-so-far', entries(o, h, ST, atts_l(o, G), id_key(o), att_enc, done=c.done, above=top,
                                                     nested=('entry_points', 'reached_attack_steps')))]
            return out
        return inv

    def g_ensures(c):
        o, h, G = c.old, c.h, c.self
        R = c.res
        SA, ST = v_a(h.val(R, K('attack_steps'))), v_a(h.val(R, K('attackers')))
        return old_same(o, h) + [
            ('fresh', z3.And(R >= o.alloc, h.cls(R) == CLS_DICT, h.has(R, K('attack_steps')), h.has(R, K('attackers')),
                             is_VRef(h.val(R, K('attack_steps'))), is_VRef(h.val(R, K('attackers'))))),
            ('one-entry-per-node', entries(o, h, SA, nodes_l(o, G), name_key(o), reg.node_enc)),
            ('one-entry-per-attacker', entries(o, h, ST, atts_l(o, G), id_key(o), att_enc)),
        ]

    reg.add(Contract(MG + ':AttackGraph._to_dict', {'self': Obj(GRAPH)}, returns=Dict(T.str, T.val), requires=g_requires, ensures=g_ensures,
                     modifies=LIST_ARRAYS + DICT_ARRAYS + ('cls', 'own_obj'), allocates=True,
                     loops={0: LoopSpec(g_inv(0), iter_src='self.nodes'), 1: LoopSpec(g_inv(1), iter_src='self.attackers')},
                     defs=lambda c: [full_name_fn(c.old)[1]],
                     props=('C10',), note='distinct full names (W2) and distinct attacker ids (W4) make the entries collision-free'))

    reg.add(Contract(MA + ':Attacker.to_dict', {'self': Obj(ATT)}, returns=Dict(T.str, T.val), ensures=a_ensures,
                     modifies=LIST_ARRAYS + DICT_ARRAYS + ('cls', 'own_obj'), allocates=True,
                     loops={0: LoopSpec(a_inv0, iter_src='self.entry_points'), 1: LoopSpec(a_inv1, iter_src='self.reached_attack_steps')},
                     props=('C10',)))


_install_s0 = install


def install(reg: Registry):
    _install_s0(reg)
    install_attacker_and_graph(reg)
