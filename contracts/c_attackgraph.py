"""Contracts for the mutators and lookups of maltoolbox/attackgraph/attackgraph.py (C09, C11, C13, C02; DESIGN.md A.5)."""
from __future__ import annotations
import z3
from pyvc.theory import *
from pyvc.contract import *
from .graph_spec import *

MG = 'maltoolbox.attackgraph.attackgraph'
WF = lambda h, G: [('wf.' + nm, f) for nm, f in wf_graph(h, G)]


def unchanged_lists_by_field(o: H, h: H, fields):
    """every list owned through a field NOT in `fields` keeps its content (ownership-based frame)"""
    l = A('l!uf')
    cond = z3.And(l >= 0, l < o.alloc, z3.Or(o.own_obj(l) == -1, z3.And(*[o.own_fld(l) != field_id(f) for f in fields])))
    return z3.And(
        FA([l], z3.Implies(cond, h.bagof(l) == o.bagof(l)), [h.bagof(l)]),
        FA([l], z3.Implies(cond, h.len(l) == o.len(l)), [h.len(l)]),
        FA([l], z3.Implies(cond, z3.Select(h.arr['L_at'], l) == z3.Select(o.arr['L_at'], l)), [z3.Select(h.arr['L_at'], l)]))


def lists_of_others_unchanged(o: H, h: H, owner, fields):
    """a list that is owned by an object other than `owner` through a field not in `fields` keeps its content"""
    l = A('l!lo')
    cond = z3.And(l >= 0, l < o.alloc, o.own_obj(l) != owner, o.own_obj(l) != -1, *[o.own_fld(l) != field_id(f) for f in fields])
    return z3.And(
        FA([l], z3.Implies(cond, h.bagof(l) == o.bagof(l)), [h.bagof(l)]),
        FA([l], z3.Implies(cond, h.len(l) == o.len(l)), [h.len(l)]),
        FA([l], z3.Implies(cond, z3.Select(h.arr['L_at'], l) == z3.Select(o.arr['L_at'], l)), [z3.Select(h.arr['L_at'], l)]))


def lists_precise(o: H, h: H, cond_fn):
    l = A('l!lp')
    cond = z3.And(l >= 0, l < o.alloc, cond_fn(l))
    return z3.And(
        FA([l], z3.Implies(cond, h.bagof(l) == o.bagof(l)), [h.bagof(l)]),
        FA([l], z3.Implies(cond, h.len(l) == o.len(l)), [h.len(l)]),
        FA([l], z3.Implies(cond, z3.Select(h.arr['L_at'], l) == z3.Select(o.arr['L_at'], l)), [z3.Select(h.arr['L_at'], l)]))


def install(reg: Registry):
    install_lookups(reg)
    install_remove_attacker(reg)
    install_add_node(reg)


# ---------------------------------------------------------------------------------------------------
def install_lookups(reg):
    def lookup(field, keyty, keyname, valcls):
        def ens(c):
            D = c.old.f(field, c.self)
            k = to_val(c.sv(keyname))
            return [('hit', z3.Implies(c.old.has(D, k), c.res == c.old.val(D, k))),
                    ('miss', z3.Implies(z3.Not(c.old.has(D, k)), c.res == VNone))]
        return ens
    reg.add(Contract(MG + ':AttackGraph.get_node_by_id', {'self': Obj(GRAPH), 'node_id': T.int}, returns=Obj(NODE, opt=True),
                     pure=True, ensures=lookup('_id_to_node', T.int, 'node_id', NODE), props=('C09', 'C02')))
    reg.add(Contract(MG + ':AttackGraph.get_node_by_full_name', {'self': Obj(GRAPH), 'full_name': T.str},
                     returns=Obj(NODE, opt=True), pure=True,
                     ensures=lookup('_full_name_to_node', T.str, 'full_name', NODE), props=('C09', 'C02')))
    reg.add(Contract(MG + ':AttackGraph.get_attacker_by_id', {'self': Obj(GRAPH), 'attacker_id': T.int},
                     returns=Obj(ATT, opt=True), pure=True,
                     ensures=lookup('_id_to_attacker', T.int, 'attacker_id', ATT), props=('C09',)))

    # lemma LOOKUP: on a well-formed graph the lookups return precisely the member with that key, None iff there is none
    def lemma_lookup(reg):
        from pyvc.theory import H
        h = H.fresh(reg.schema, 'lk')
        G, n = z3.Const('G!lk', Addr), z3.Const('n!lk', Addr)
        k = z3.Int('k!lk')
        s = z3.Const('s!lk', Str)
        hyps = [f for _, f in wf_graph(h, G)]
        D, F_, DA = h.f('_id_to_node', G), h.f('_full_name_to_node', G), h.f('_id_to_attacker', G)
        out = [
            ('id.hit-is-member', hyps + [h.has(D, VInt(k))], z3.And(is_VRef(h.val(D, VInt(k))), is_node(h, G, v_a(h.val(D, VInt(k)))),
                                                                   h.f('id', v_a(h.val(D, VInt(k)))) == VInt(k))),
            ('id.member-is-hit', hyps + [is_node(h, G, n), h.f('id', n) == VInt(k)], z3.And(h.has(D, VInt(k)), h.val(D, VInt(k)) == VRef(n))),
            ('name.hit-is-member', hyps + [h.has(F_, VStr(s))], z3.And(is_VRef(h.val(F_, VStr(s))), is_node(h, G, v_a(h.val(F_, VStr(s)))),
                                                                      full_name(h, v_a(h.val(F_, VStr(s)))) == s)),
            ('name.member-is-hit', hyps + [is_node(h, G, n), full_name(h, n) == s], z3.And(h.has(F_, VStr(s)), h.val(F_, VStr(s)) == VRef(n))),
            ('attacker.hit-is-member', hyps + [h.has(DA, VInt(k))], z3.And(is_VRef(h.val(DA, VInt(k))), is_att(h, G, v_a(h.val(DA, VInt(k)))))),
            ('attacker.member-is-hit', hyps + [is_att(h, G, n), h.f('id', n) == VInt(k)], z3.And(h.has(DA, VInt(k)), h.val(DA, VInt(k)) == VRef(n))),
        ]
        return out
    reg.add_lemma('LOOKUP.index-lookups-return-exactly-the-member', ('C09', 'C02'), lemma_lookup)


# ---------------------------------------------------------------------------------------------------
def install_remove_attacker(reg):
    def requires(c):
        return WF(c.old, c.self) + [('attacker-in-G', is_att(c.old, c.self, c.attacker))]

    def frame(o, h, G, a):
        b, n = A('b!ra'), A('n!ra')
        R = o.f('reached_attack_steps', a)
        return [
            ('frame.other-fields', unchanged_lists_by_field(o, h, ('reached_attack_steps', 'compromised_by', 'attackers'))),
            ('frame.other-reached', FA([b], z3.Implies(z3.And(is_att(o, G, b), b != a),
                                                       list_unchanged(o, h, o.f('reached_attack_steps', b))), [o.f('reached_attack_steps', b)])),
            ('frame.other-compromisers', FA([n, b], z3.Implies(z3.And(is_node(o, G, n), b != a), cb(h, n, b) == cb(o, n, b)), [cb(h, n, b)])),
        ]

    def inv(c: LCtx):
        o, h, G, a = c.old, c.h, c.self, c.attacker
        n = A('n!ri')
        R = o.f('reached_attack_steps', a)
        return frame(o, h, G, a) + [
            ('attackers-list', list_unchanged(o, h, atts_l(o, G))),
            ('dicts', z3.And(*[h.arr[x] == o.arr[x] for x in DICT_ARRAYS])),
            ('progress', FA([n], z3.Implies(is_node(o, G, n), z3.And(
                reached(h, a, n) == reached(o, a, n) - z3.Select(c.done, VRef(n)), cb(h, n, a) == reached(h, a, n))), [reached(h, a, n)])),
            ('progress2', FA([n], z3.Implies(is_node(o, G, n), cb(h, n, a) == reached(o, a, n) - z3.Select(c.done, VRef(n))), [cb(h, n, a)])),
            ('own', z3.And(*[f for nm, f in wf_graph(h, G, parts=('W0',)) if 'own' in nm])),
            ('copy-fresh', c.it >= o.alloc),
            ('cb-elems', FA([n, z3.Const('v!ri', Val)], z3.Implies(z3.And(is_node(o, G, n), h.bag(h.f('compromised_by', n), z3.Const('v!ri', Val)) > 0),
                                                                  is_VRef(z3.Const('v!ri', Val))), [h.bag(h.f('compromised_by', n), z3.Const('v!ri', Val))])),
            ('reached-nonneg', FA([z3.Const('v!ri', Val)], h.bag(R, z3.Const('v!ri', Val)) >= 0, [h.bag(R, z3.Const('v!ri', Val))])),
            ('reached-elems', FA([z3.Const('v!ri', Val)], z3.Implies(h.bag(R, z3.Const('v!ri', Val)) > 0,
                                 z3.And(is_VRef(z3.Const('v!ri', Val)), is_node(o, G, v_a(z3.Const('v!ri', Val))))), [h.bag(R, z3.Const('v!ri', Val))])),
        ]

    def ensures(c):
        o, h, G, a = c.old, c.h, c.self, c.attacker
        n, b = A('n!re'), A('b!re')
        AL = atts_l(o, G)
        return WF(h, G) + frame(o, h, G, a) + [
            ('removed', z3.And(h.cnt(AL, a) == 0, FA([b], z3.Implies(b != a, h.cnt(AL, b) == o.cnt(AL, b)), [h.cnt(AL, b)]))),
            ('no-node-compromised-by-it', FA([n], z3.Implies(is_node(h, G, n), cb(h, n, a) == 0), [cb(h, n, a)])),
            ('reached-empty', FA([n], z3.Implies(is_node(h, G, n), reached(h, a, n) == 0), [reached(h, a, n)])),
            ('index-entry-gone', z3.Not(h.has(h.f('_id_to_attacker', G), o.f('id', a)))),
            ('nodes-untouched', list_unchanged(o, h, nodes_l(o, G))),
        ]

    reg.add(Contract(MG + ':AttackGraph.remove_attacker', {'self': Obj(GRAPH), 'attacker': Obj(ATT)},
                     requires=requires, ensures=ensures, modifies=LIST_ARRAYS + DICT_ARRAYS + ('cls', 'own_obj'), allocates=True,
                     loops={0: LoopSpec(inv)}, props=('C11', 'C09')))


# ---------------------------------------------------------------------------------------------------
def install_add_node(reg):
    def new_id(c):
        return z3.If(is_VNone(c.node_id), VInt(c.old.f('next_node_id', c.self)), c.node_id)

    def name_after(c):
        """full name the node will have once its id is assigned"""
        o, n = c.old, c.node
        asset = o.f('asset', n)
        k = new_id(c)
        without = concat(concat(py_str(v_i(k)), str_const(':')), o.f('name', n))
        with_asset = concat(concat(o.f('name', v_a(asset)), str_const(':')), o.f('name', n))
        return z3.If(is_VNone(asset), without, with_asset)

    def requires(c):
        o, G, n = c.old, c.self, c.node
        v = z3.Const('v!an', Val)
        return WF(o, G) + [
            ('node-not-in-G', o.cnt(nodes_l(o, G), n) == 0),
            ('node-class', o.cls(n) == class_id(NODE)),
            ('node-owns-its-lists', z3.And(*[z3.And(o.own_obj(o.f(f, n)) == n, o.own_fld(o.f(f, n)) == field_id(f))
                                           for f in NODE_LISTS + ('extras',)])),
            ('node-unlinked', z3.And(*[o.bagof(o.f(f, n)) == EMPTY_BAG for f in ('children', 'parents', 'compromised_by')])),
            ('nobody-links-to-it', FA([A('m!an')], z3.Implies(is_node(o, G, A('m!an')), z3.And(ch(o, A('m!an'), n) == 0, pa(o, A('m!an'), n) == 0)),
                                      [ch(o, A('m!an'), n)])),
            ('no-attacker-refers-to-it', FA([A('b!an')], z3.Implies(is_att(o, G, A('b!an')), z3.And(reached(o, A('b!an'), n) == 0, entry(o, A('b!an'), n) == 0)),
                                            [reached(o, A('b!an'), n)])),
            ('asset-is-object-or-none', z3.Or(is_VNone(o.f('asset', n)), is_VRef(o.f('asset', n)))),
            ('full-name-free', z3.Not(o.has(o.f('_full_name_to_node', G), VStr(name_after(c))))),
        ]

    def raise_cond(c):
        return c.old.has(c.old.f('_id_to_node', c.self), new_id(c))

    def ensures(c):
        o, h, G, n = c.old, c.h, c.self, c.node
        m = A('m!ae')
        NL = nodes_l(o, G)
        k = new_id(c)
        return WF(h, G) + [
            ('id', h.f('id', n) == k),
            ('nodes', z3.And(h.cnt(NL, n) == 1, FA([m], z3.Implies(m != n, h.cnt(NL, m) == o.cnt(NL, m)), [h.cnt(NL, m)]))),
            ('appended-last', z3.And(h.at(NL, o.len(NL)) == VRef(n), h.len(NL) == o.len(NL) + 1)),
            ('next-id', h.f('next_node_id', G) == z3.If(v_i(k) + 1 >= o.f('next_node_id', G), v_i(k) + 1, o.f('next_node_id', G))),
            ('lookup-by-id', z3.And(h.has(h.f('_id_to_node', G), k), h.val(h.f('_id_to_node', G), k) == VRef(n))),
            ('lookup-by-name', z3.And(h.has(h.f('_full_name_to_node', G), VStr(full_name(h, n))),
                                      h.val(h.f('_full_name_to_node', G), VStr(full_name(h, n))) == VRef(n))),
            ('frame.lists', lists_unchanged_except(o, h, [NL])),
            ('frame.ids', FA([m], z3.Implies(m != n, h.f('id', m) == o.f('id', m)), [h.f('id', m)])),
        ]

    reg.add(Contract(MG + ':AttackGraph.add_node', {'self': Obj(GRAPH), 'node': Obj(NODE), 'node_id': T('int', opt=True)},
                     requires=requires, ensures=ensures, raises={'ValueError': raise_cond},
                     modifies=LIST_ARRAYS + DICT_ARRAYS + ('f_id', 'f_next_node_id'), props=('C09', 'C02', 'C10'), param_defaults={'node_id': None}))


# ---------------------------------------------------------------------------------------------------
def old_region_unchanged(o: H, h: H, except_=None):
    """every array agrees with the pre-state on every address allocated in the pre-state, except the listed (array, address)
    pairs — the observable state is unchanged (objects allocated meanwhile are garbage)"""
    except_ = except_ or {}
    x = A('x!or')
    out = []
    for n in o.arr:
        if z3.eq(o.arr[n], h.arr[n]):
            continue
        cond = z3.And(x >= 0, x < o.alloc, *[x != e for e in except_.get(n, [])])
        out.append(('unchanged.' + n, FA([x], z3.Implies(cond, z3.Select(h.arr[n], x) == z3.Select(o.arr[n], x)), [z3.Select(h.arr[n], x)])))
    return out


def install_add_attacker(reg):
    def kid(c):
        return z3.If(is_VNone(c.attacker_id), VInt(c.old.f('next_attacker_id', c.self)), c.attacker_id)

    def requires(c):
        o, G, a = c.old, c.self, c.attacker
        n = A('n!aa')
        R, E = o.f('reached_attack_steps', a), o.f('entry_points', a)
        return WF(o, G) + [
            ('attacker-not-in-G', o.cnt(atts_l(o, G), a) == 0),
            ('attacker-class', o.cls(a) == class_id(ATT)),
            ('attacker-owns-its-lists', z3.And(o.own_obj(R) == a, o.own_fld(R) == field_id('reached_attack_steps'),
                                               o.own_obj(E) == a, o.own_fld(E) == field_id('entry_points'))),
            ('attacker-fresh', z3.And(o.bagof(R) == EMPTY_BAG, o.bagof(E) == EMPTY_BAG, o.len(R) == 0, o.len(E) == 0)),
            ('nobody-compromised-by-it', FA([n], z3.Implies(is_node(o, G, n), cb(o, n, a) == 0), [cb(o, n, a)])),
            ('argument-lists-unowned', z3.And(o.own_obj(c.entry_points) == -1, o.own_obj(c.reached_attack_steps) == -1)),
        ]

    def missing(o, G, L):
        i = z3.Int('i!ms')
        return z3.Exists([i], z3.And(o.bag(L, VInt(i)) > 0, z3.Not(o.has(o.f('_id_to_node', G), VInt(i)))))

    def raise_value(c):
        return c.old.has(c.old.f('_id_to_attacker', c.self), kid(c))

    def raise_missing(c):
        return z3.And(z3.Not(raise_value(c)), z3.Or(missing(c.old, c.self, c.reached_attack_steps), missing(c.old, c.self, c.entry_points)))

    def exc_ens(c):
        return old_region_unchanged(c.old, c.h, {'f_id': [c.attacker]})

    def image(o, G, L, n):
        """node n is named by some id in list L"""
        i = z3.Int('i!im')
        return z3.Exists([i], z3.And(o.bag(L, VInt(i)) > 0, o.val(o.f('_id_to_node', G), VInt(i)) == VRef(n)))

    def collect_inv(local_name, arg_name):
        def inv(c: LCtx):
            o, h, G = c.old, c.h, c.self
            acc = c.local(local_name).t
            L = getattr(c, arg_name)
            n = A('n!ci')
            i = z3.Int('i!ci')
            v = z3.Const('v!ci', Val)
            D = o.f('_id_to_node', G)
            return old_region_unchanged(o, h, {'f_id': [c.attacker]}) + [
                ('id-set', h.f('id', c.attacker) == kid(c)),
                ('acc-fresh', z3.And(acc >= o.alloc, acc < h.alloc, h.cls(acc) == CLS_LIST, h.own_obj(acc) == -1)),
                ('acc-elems', FA([v], z3.Implies(h.bag(acc, v) > 0, z3.And(is_VRef(v), is_node(o, G, v_a(v)))), [h.bag(acc, v)])),
                ('acc-image', FA([n], (h.cnt(acc, n) > 0) == z3.Exists([i], z3.And(z3.Select(c.done, VInt(i)) > 0, o.val(D, VInt(i)) == VRef(n),
                                                                                   o.has(D, VInt(i)))), [h.cnt(acc, n)])),
                ('all-found', FA([i], z3.Implies(z3.Select(c.done, VInt(i)) > 0, o.has(D, VInt(i))), [z3.Select(c.done, VInt(i))])),
                ('ints', FA([v], z3.Implies(z3.Select(c.done, v) > 0, is_VInt(v)), [z3.Select(c.done, v)])),
            ]
        return inv

    def inv1(c: LCtx):
        # second collection loop: the first accumulator is complete
        o, h, G = c.old, c.h, c.self
        rn = c.local('reached_nodes').t
        n = A('n!c1')
        return collect_inv('entry_point_nodes', 'entry_points')(c) + [
            ('reached-nodes-done', z3.And(rn >= o.alloc, rn < h.alloc, h.own_obj(rn) == -1, rn != c.local('entry_point_nodes').t)),
            ('reached-nodes-elems', FA([z3.Const('v!c1', Val)], z3.Implies(h.bag(rn, z3.Const('v!c1', Val)) > 0,
                                       z3.And(is_VRef(z3.Const('v!c1', Val)), is_node(o, G, v_a(z3.Const('v!c1', Val))))), [h.bag(rn, z3.Const('v!c1', Val))])),
            ('reached-nodes-image', FA([n], (h.cnt(rn, n) > 0) == z3.And(image(o, G, c.reached_attack_steps, n)), [h.cnt(rn, n)])),
            ('no-missing-reached', z3.Not(missing(o, G, c.reached_attack_steps))),
        ]

    def inv2(c: LCtx):
        o, h, G, a = c.old, c.h, c.self, c.attacker
        n, b = A('n!c2'), A('b!c2')
        rn, en = c.local('reached_nodes').t, c.local('entry_point_nodes').t
        v = z3.Const('v!c2', Val)
        R = o.f('reached_attack_steps', a)
        return [
            ('id-set', h.f('id', a) == kid(c)),
            ('scalars', z3.And(h.arr['f_id'] == c.hl.arr['f_id'], h.f('next_attacker_id', G) == c.hl.f('next_attacker_id', G),
                               *[h.arr[x] == o.arr[x] for x in DICT_ARRAYS])),
            ('frame.other-fields', unchanged_lists_by_field(o, h, ('reached_attack_steps', 'compromised_by'))),
            ('frame.locals', z3.And(list_unchanged(c.hl, h, rn), list_unchanged(c.hl, h, en))),
            # precise frame: the only pre-state lists that move are the attacker's reached list and compromised_by lists
            ('frame.precise', z3.And(
                FA([A('l!fp')], z3.Implies(z3.And(A('l!fp') >= 0, A('l!fp') < o.alloc, A('l!fp') != R,
                                                  z3.Or(o.own_obj(A('l!fp')) == -1, o.own_fld(A('l!fp')) != field_id('compromised_by'))),
                                           h.bagof(A('l!fp')) == o.bagof(A('l!fp'))), [h.bagof(A('l!fp'))]),
                FA([A('l!fp')], z3.Implies(z3.And(A('l!fp') >= 0, A('l!fp') < o.alloc, A('l!fp') != R,
                                                  z3.Or(o.own_obj(A('l!fp')) == -1, o.own_fld(A('l!fp')) != field_id('compromised_by'))),
                                           h.len(A('l!fp')) == o.len(A('l!fp'))), [h.len(A('l!fp'))]),
                FA([A('l!fp')], z3.Implies(z3.And(A('l!fp') >= 0, A('l!fp') < o.alloc, A('l!fp') != R,
                                                  z3.Or(o.own_obj(A('l!fp')) == -1, o.own_fld(A('l!fp')) != field_id('compromised_by'))),
                                           z3.Select(h.arr['L_at'], A('l!fp')) == z3.Select(o.arr['L_at'], A('l!fp'))), [z3.Select(h.arr['L_at'], A('l!fp'))]))),
            ('cb-elems', FA([n, v], z3.Implies(z3.And(is_node(o, G, n), h.bag(h.f('compromised_by', n), v) > 0), is_VRef(v)),
                            [h.bag(h.f('compromised_by', n), v)])),
            ('frame.other-reached', FA([b], z3.Implies(is_att(o, G, b), list_unchanged(o, h, o.f('reached_attack_steps', b))),
                                       [o.f('reached_attack_steps', b)])),
            ('frame.other-compromisers', FA([n, b], z3.Implies(z3.And(is_node(o, G, n), b != a), cb(h, n, b) == cb(o, n, b)), [cb(h, n, b)])),
            ('own', z3.And(*[f for nm, f in wf_graph(h, G, parts=('W0',)) if 'own' in nm],
                           h.own_obj(R) == a, h.own_fld(R) == field_id('reached_attack_steps'))),
            ('progress', FA([n], z3.Implies(is_node(o, G, n), z3.And(reached(h, a, n) == cb(h, n, a),
                                                                     reached(h, a, n) == z3.If(z3.Select(c.done, VRef(n)) > 0, 1, 0))), [reached(h, a, n)])),
            ('progress2', FA([n], z3.Implies(is_node(o, G, n), cb(h, n, a) == z3.If(z3.Select(c.done, VRef(n)) > 0, 1, 0)), [cb(h, n, a)])),
            ('reached-elems', FA([v], z3.And(h.bag(R, v) >= 0, z3.Implies(h.bag(R, v) > 0, z3.And(is_VRef(v), is_node(o, G, v_a(v))))), [h.bag(R, v)])),
        ]

    def ensures(c):
        o, h, G, a = c.old, c.h, c.self, c.attacker
        n, b = A('n!ea'), A('b!ea')
        AL = atts_l(o, G)
        k = kid(c)
        return WF(h, G) + [
            ('id', h.f('id', a) == k),
            ('next-id', h.f('next_attacker_id', G) == z3.If(v_i(k) + 1 >= o.f('next_attacker_id', G), v_i(k) + 1, o.f('next_attacker_id', G))),
            ('attackers', z3.And(h.cnt(AL, a) == 1, FA([b], z3.Implies(b != a, h.cnt(AL, b) == o.cnt(AL, b)), [h.cnt(AL, b)]))),
            ('reached', FA([n], z3.Implies(is_node(o, G, n), (reached(h, a, n) > 0) == image(o, G, c.reached_attack_steps, n)), [reached(h, a, n)])),
            ('entry', FA([n], z3.Implies(is_node(o, G, n), (entry(h, a, n) > 0) == image(o, G, c.entry_points, n)), [entry(h, a, n)])),
            ('agree', FA([n], z3.Implies(is_node(o, G, n), reached(h, a, n) == cb(h, n, a)), [reached(h, a, n)])),
            ('lookup', z3.And(h.has(h.f('_id_to_attacker', G), k), h.val(h.f('_id_to_attacker', G), k) == VRef(a))),
            ('appended-last', z3.And(h.len(AL) == o.len(AL) + 1, h.at(AL, o.len(AL)) == VRef(a),
                                     FA([z3.Int('j!al')], z3.Implies(z3.And(0 <= z3.Int('j!al'), z3.Int('j!al') < o.len(AL)),
                                                                     h.at(AL, z3.Int('j!al')) == o.at(AL, z3.Int('j!al'))), [h.at(AL, z3.Int('j!al'))]))),
            ('nodes-untouched', list_unchanged(o, h, nodes_l(o, G))),
            ('same-list-objects', z3.And(h.f('nodes', G) == o.f('nodes', G), h.f('attackers', G) == o.f('attackers', G))),
            ('frame.other-attackers', FA([b], z3.Implies(z3.And(is_att(o, G, b)), z3.And(
                list_unchanged(o, h, o.f('reached_attack_steps', b)), list_unchanged(o, h, o.f('entry_points', b)),
                h.f('reached_attack_steps', b) == o.f('reached_attack_steps', b), h.f('entry_points', b) == o.f('entry_points', b))),
                                         [h.f('reached_attack_steps', b)])),
            ('frame.unrelated-lists', unchanged_lists_by_field(o, h, ('reached_attack_steps', 'compromised_by', 'attackers', 'entry_points'))),
            ('frame.lists-of-other-owners', lists_of_others_unchanged(o, h, a, ('compromised_by', 'attackers'))),
            ('frame.own', FA([A('l!fo2')], z3.Implies(z3.And(A('l!fo2') >= 0, A('l!fo2') < o.alloc),
                                                      z3.And(h.own_obj(A('l!fo2')) == o.own_obj(A('l!fo2')), h.own_fld(A('l!fo2')) == o.own_fld(A('l!fo2')),
                                                             h.cls(A('l!fo2')) == o.cls(A('l!fo2')))), [h.own_obj(A('l!fo2'))])),
            ('name-kept', h.f('name', a) == o.f('name', a)),
            # precise list frame: besides G's attacker list, the attacker's own two lists and compromised_by lists nothing moves
            ('frame.precise', lists_precise(o, h, lambda l: z3.And(l != AL, l != o.f('reached_attack_steps', a), l != o.f('entry_points', a),
                                                                  z3.Or(o.own_obj(l) == -1, o.own_fld(l) != field_id('compromised_by'))))),
            ('frame.ids', FA([b], z3.Implies(b != a, h.f('id', b) == o.f('id', b)), [h.f('id', b)])),
            ('frame.other-compromisers', FA([n, b], z3.Implies(z3.And(is_node(o, G, n), b != a), cb(h, n, b) == cb(o, n, b)), [cb(h, n, b)])),
        ]

    reg.add(Contract(MG + ':AttackGraph.add_attacker',
                     {'self': Obj(GRAPH), 'attacker': Obj(ATT), 'attacker_id': T('int', opt=True), 'entry_points': List(T.int),
                      'reached_attack_steps': List(T.int)},
                     requires=requires, ensures=ensures,
                     raises={'ValueError': (raise_value, exc_ens), 'AttackGraphException': (raise_missing, exc_ens)},
                     modifies=LIST_ARRAYS + DICT_ARRAYS + ('cls', 'own_obj', 'own_fld', 'f_id', 'f_next_attacker_id'), allocates=True,
                     loops={0: LoopSpec(collect_inv('reached_nodes', 'reached_attack_steps')), 1: LoopSpec(inv1), 2: LoopSpec(inv2)},
                     props=('C09', 'C11', 'C10')))  # C10: _from_dict (assumed) rebuilds every attacker through add_attacker


_install_prev = install


def install(reg: Registry):
    _install_prev(reg)
    install_add_attacker(reg)


# ---------------------------------------------------------------------------------------------------
def install_remove_node(reg):
    DICTS_SAME = lambda o, h: z3.And(*[h.arr[x] == o.arr[x] for x in DICT_ARRAYS])
    FID = field_id

    def requires(c):
        return WF(c.old, c.self) + [('node-in-G', is_node(c.old, c.self, c.node))]

    def own_all(h, G):
        return z3.And(*[f for nm, f in wf_graph(h, G, parts=('W0',)) if 'own' in nm])

    # loop 0: for child in node.children: child.parents.remove(node)
    def inv0(c: LCtx):
        o, h, G, x = c.old, c.h, c.self, c.node
        m, q = A('m!r0'), A('q!r0')
        return [
            ('dicts', DICTS_SAME(o, h)),
            ('frame', unchanged_lists_by_field(o, h, ('parents',))),
            ('detaching', FA([m], z3.Implies(is_node(o, G, m), pa(h, m, x) == pa(o, m, x) - z3.Select(c.done, VRef(m))), [pa(h, m, x)])),
            ('others', FA([m, q], z3.Implies(z3.And(is_node(o, G, m), q != x), pa(h, m, q) == pa(o, m, q)), [pa(h, m, q)])),
            ('elems', FA([m, z3.Const('v!r0', Val)], z3.Implies(z3.And(is_node(o, G, m), h.bag(h.f('parents', m), z3.Const('v!r0', Val)) > 0),
                                                                is_VRef(z3.Const('v!r0', Val))), [h.bag(h.f('parents', m), z3.Const('v!r0', Val))])),
        ]

    # loop 1: for parent in node.parents: parent.children.remove(node)
    def inv1(c: LCtx):
        o, h, G, x = c.old, c.h, c.self, c.node
        m, q = A('m!r1'), A('q!r1')
        return [
            ('dicts', DICTS_SAME(o, h)),
            ('frame', unchanged_lists_by_field(c.hl, h, ('children',))),
            ('after-loop0', z3.And(unchanged_lists_by_field(o, c.hl, ('parents',)),
                                   FA([m], z3.Implies(is_node(o, G, m), pa(c.hl, m, x) == 0), [pa(c.hl, m, x)]),
                                   FA([m, q], z3.Implies(z3.And(is_node(o, G, m), q != x), pa(c.hl, m, q) == pa(o, m, q)), [pa(c.hl, m, q)]))),
            ('detaching', FA([m], z3.Implies(is_node(o, G, m), ch(h, m, x) == ch(o, m, x) - z3.Select(c.done, VRef(m))), [ch(h, m, x)])),
            ('others', FA([m, q], z3.Implies(z3.And(is_node(o, G, m), q != x), ch(h, m, q) == ch(o, m, q)), [ch(h, m, q)])),
            ('elems', FA([m, z3.Const('v!r1', Val)], z3.Implies(z3.And(is_node(o, G, m), h.bag(h.f('children', m), z3.Const('v!r1', Val)) > 0),
                                                                is_VRef(z3.Const('v!r1', Val))), [h.bag(h.f('children', m), z3.Const('v!r1', Val))])),
        ]

    def edges_detached(o, h, G, x):
        m, q = A('m!ed'), A('q!ed')
        return z3.And(
            FA([m], z3.Implies(is_node(o, G, m), pa(h, m, x) == 0), [pa(h, m, x)]),
            FA([m], z3.Implies(z3.And(is_node(o, G, m), m != x), ch(h, m, x) == 0), [ch(h, m, x)]),
            FA([m, q], z3.Implies(z3.And(is_node(o, G, m), q != x), z3.And(pa(h, m, q) == pa(o, m, q), ch(h, m, q) == ch(o, m, q))),
               [pa(h, m, q)]),
            FA([m, q], z3.Implies(z3.And(is_node(o, G, m), q != x), z3.And(pa(h, m, q) == pa(o, m, q), ch(h, m, q) == ch(o, m, q))),
               [ch(h, m, q)]))

    # loop 2: for attacker in list(node.compromised_by): attacker.undo_compromise(node)
    def inv2(c: LCtx):
        o, h, G, x = c.old, c.h, c.self, c.node
        a, m = A('a!r2'), A('m!r2')
        return [
            ('dicts', DICTS_SAME(o, h)),
            ('copy-fresh', c.it >= o.alloc),
            ('frame', unchanged_lists_by_field(c.hl, h, ('reached_attack_steps', 'compromised_by'))),
            ('edges', edges_detached(o, h, G, x)),
            ('own', own_all(h, G)),
            ('progress', FA([a], z3.Implies(is_att(o, G, a), z3.And(reached(h, a, x) == cb(h, x, a),
                                                                    cb(h, x, a) == cb(o, x, a) - z3.Select(c.done, VRef(a)))), [cb(h, x, a)])),
            ('progress2', FA([a], z3.Implies(is_att(o, G, a), reached(h, a, x) == cb(o, x, a) - z3.Select(c.done, VRef(a))), [reached(h, a, x)])),
            ('others', FA([a, m], z3.Implies(z3.And(is_att(o, G, a), is_node(o, G, m), m != x),
                                            z3.And(reached(h, a, m) == reached(o, a, m), cb(h, m, a) == cb(o, m, a))), [reached(h, a, m)])),
            ('others2', FA([a, m], z3.Implies(z3.And(is_att(o, G, a), is_node(o, G, m), m != x),
                                             z3.And(reached(h, a, m) == reached(o, a, m), cb(h, m, a) == cb(o, m, a))), [cb(h, m, a)])),
            ('others-reached', FA([a, m], z3.Implies(z3.And(is_att(o, G, a), m != x), reached(h, a, m) == reached(o, a, m)), [reached(h, a, m)])),
            ('graph-lists', z3.And(list_unchanged(o, h, nodes_l(o, G)), list_unchanged(o, h, atts_l(o, G)))),
            ('elems', FA([a, z3.Const('v!r2', Val)], z3.Implies(z3.And(is_att(o, G, a), h.bag(h.f('reached_attack_steps', a), z3.Const('v!r2', Val)) > 0),
                                                                is_VRef(z3.Const('v!r2', Val))), [h.bag(h.f('reached_attack_steps', a), z3.Const('v!r2', Val))])),
            ('cb-elems', FA([m, z3.Const('v!r2', Val)], z3.Implies(z3.And(is_node(o, G, m), h.bag(h.f('compromised_by', m), z3.Const('v!r2', Val)) > 0),
                                                                   z3.And(is_VRef(z3.Const('v!r2', Val)), is_att(o, G, v_a(z3.Const('v!r2', Val))))),
                            [h.bag(h.f('compromised_by', m), z3.Const('v!r2', Val))])),
        ]

    def compromise_cleared(o, h, G, x):
        a, m = A('a!cc'), A('m!cc')
        return z3.And(
            FA([a, m], z3.Implies(z3.And(is_att(o, G, a), m != x), reached(h, a, m) == reached(o, a, m)), [reached(h, a, m)]),
            FA([a], z3.Implies(is_att(o, G, a), z3.And(reached(h, a, x) == 0, cb(h, x, a) == 0)), [reached(h, a, x)]),
            FA([a, m], z3.Implies(z3.And(is_att(o, G, a), is_node(o, G, m), m != x),
                                  z3.And(reached(h, a, m) == reached(o, a, m), cb(h, m, a) == cb(o, m, a))), [reached(h, a, m)]),
            FA([a, m], z3.Implies(z3.And(is_att(o, G, a), is_node(o, G, m), m != x),
                                  z3.And(reached(h, a, m) == reached(o, a, m), cb(h, m, a) == cb(o, m, a))), [cb(h, m, a)]))

    # loop 3: for attacker in self.attackers: attacker.entry_points = [ep for ep in attacker.entry_points if ep is not node]
    def inv3(c: LCtx):
        o, h, G, x = c.old, c.h, c.self, c.node
        a, m, l = A('a!r3'), A('m!r3'), A('l!r3')
        v = z3.Const('v!r3', Val)
        return [
            ('dicts', DICTS_SAME(o, h)),
            ('old-lists', z3.And(FA([l], z3.Implies(z3.And(l >= 0, l < c.hl.alloc), z3.And(h.bagof(l) == c.hl.bagof(l), h.len(l) == c.hl.len(l),
                                 z3.Select(h.arr['L_at'], l) == z3.Select(c.hl.arr['L_at'], l))), [h.bagof(l)]),
                                 FA([l], z3.Implies(z3.And(l >= 0, l < c.hl.alloc), h.len(l) == c.hl.len(l)), [h.len(l)]),
                                 FA([l], z3.Implies(z3.And(l >= 0, l < c.hl.alloc), z3.Select(h.arr['L_at'], l) == z3.Select(c.hl.arr['L_at'], l)),
                                    [z3.Select(h.arr['L_at'], l)]))),
            ('old-own', z3.And(FA([l], z3.Implies(z3.And(l >= 0, l < c.hl.alloc), z3.And(h.own_obj(l) == c.hl.own_obj(l), h.own_fld(l) == c.hl.own_fld(l))),
                                  [h.own_obj(l)]),
                               FA([l], z3.Implies(z3.And(l >= 0, l < c.hl.alloc), h.own_fld(l) == c.hl.own_fld(l)), [h.own_fld(l)]))),
            ('before', z3.And(edges_detached(o, c.hl, G, x), compromise_cleared(o, c.hl, G, x), own_all(c.hl, G),
                              list_unchanged(o, c.hl, nodes_l(o, G)), list_unchanged(o, c.hl, atts_l(o, G)), DICTS_SAME(o, c.hl))),
            ('done', FA([a, m], z3.Implies(z3.And(is_att(o, G, a), z3.Select(c.done, VRef(a)) > 0),
                                           entry(h, a, m) == z3.If(m == x, 0, entry(o, a, m))), [entry(h, a, m)])),
            ('done-own', FA([a], z3.Implies(z3.And(is_att(o, G, a), z3.Select(c.done, VRef(a)) > 0),
                                            z3.And(h.own_obj(h.f('entry_points', a)) == a, h.own_fld(h.f('entry_points', a)) == FID('entry_points'),
                                                   h.cls(h.f('entry_points', a)) == CLS_LIST)), [h.f('entry_points', a)])),
            ('done-elems', FA([a, v], z3.Implies(z3.And(is_att(o, G, a), z3.Select(c.done, VRef(a)) > 0, h.bag(h.f('entry_points', a), v) > 0),
                                                 is_VRef(v)), [h.bag(h.f('entry_points', a), v)])),
            ('todo', FA([a], z3.Implies(z3.And(is_att(o, G, a), z3.Select(c.done, VRef(a)) <= 0),
                                        h.f('entry_points', a) == o.f('entry_points', a)), [h.f('entry_points', a)])),
            ('non-attackers', FA([a], z3.Implies(z3.Not(is_att(o, G, a)), h.f('entry_points', a) == o.f('entry_points', a)), [h.f('entry_points', a)])),
            ('cls-old', FA([l], z3.Implies(z3.And(l >= 0, l < c.hl.alloc), h.cls(l) == c.hl.cls(l)), [h.cls(l)])),
        ]

    def ensures(c):
        o, h, G, x = c.old, c.h, c.self, c.node
        m, q, a = A('m!en'), A('q!en'), A('a!en')
        NL = nodes_l(o, G)
        k = z3.Const('k!en', Val)
        D0, D1 = o.f('_id_to_node', G), h.f('_id_to_node', G)
        F0, F1 = o.f('_full_name_to_node', G), h.f('_full_name_to_node', G)
        return WF(h, G) + [
            ('removed', z3.And(h.cnt(NL, x) == 0, FA([m], z3.Implies(m != x, h.cnt(NL, m) == o.cnt(NL, m)), [h.cnt(NL, m)]))),
            ('edges', FA([m, q], z3.Implies(z3.And(is_node(h, G, m), q != x), z3.And(ch(h, m, q) == ch(o, m, q), pa(h, m, q) == pa(o, m, q))), [ch(h, m, q)])),
            ('edges-to-it-gone', FA([m], z3.Implies(is_node(h, G, m), z3.And(ch(h, m, x) == 0, pa(h, m, x) == 0)), [ch(h, m, x)])),
            ('id-index', FA([k], h.has(D1, k) == z3.And(o.has(D0, k), k != o.f('id', x)), [h.has(D1, k)])),
            ('id-index-values', FA([k], z3.Implies(h.has(D1, k), h.val(D1, k) == o.val(D0, k)), [h.val(D1, k)])),
            ('name-index', FA([k], h.has(F1, k) == z3.And(o.has(F0, k), k != VStr(full_name(o, x))), [h.has(F1, k)])),
            ('attackers-forget-it', FA([a], z3.Implies(is_att(h, G, a), z3.And(reached(h, a, x) == 0, entry(h, a, x) == 0)), [reached(h, a, x)])),
            ('attackers-keep-the-rest', FA([a, m], z3.Implies(z3.And(is_att(h, G, a), m != x, is_node(o, G, m)),
                                                              z3.And(reached(h, a, m) == reached(o, a, m), entry(h, a, m) == entry(o, a, m))),
                                           [reached(h, a, m), entry(h, a, m)])),
            ('frame.unrelated-lists', unchanged_lists_by_field(o, h, ('parents', 'children', 'reached_attack_steps', 'compromised_by', 'nodes'))),
            ('frame.own', FA([A('l!fo')], z3.Implies(z3.And(A('l!fo') >= 0, A('l!fo') < o.alloc),
                                                     z3.And(h.own_obj(A('l!fo')) == o.own_obj(A('l!fo')), h.own_fld(A('l!fo')) == o.own_fld(A('l!fo')),
                                                            h.cls(A('l!fo')) == o.cls(A('l!fo')))), [h.own_obj(A('l!fo'))])),
            ('same-list-objects', z3.And(h.f('nodes', G) == o.f('nodes', G), h.f('attackers', G) == o.f('attackers', G))),
            ('attackers-list', list_unchanged(o, h, atts_l(o, G))),
        ]

    reg.add(Contract(MG + ':AttackGraph.remove_node', {'self': Obj(GRAPH), 'node': Obj(NODE)},
                     requires=requires, ensures=ensures,
                     modifies=LIST_ARRAYS + DICT_ARRAYS + ('cls', 'own_obj', 'own_fld', 'f_entry_points'), allocates=True,
                     loops={0: LoopSpec(inv0), 1: LoopSpec(inv1), 2: LoopSpec(inv2), 3: LoopSpec(inv3)}, props=('C09', 'C13')))


_install_prev2 = install


def install(reg: Registry):
    _install_prev2(reg)
    install_remove_node(reg)


# ---------------------------------------------------------------------------------------------------
def install_attach_attackers(reg):
    SEP = str_const(':')
    AAN = reg.schema.storage('AttackerAttachment', 'name')      # Optional[str]: class-qualified storage

    def step_name(h, t, s):
        """asset.name + ':' + step for entry-point tuple t and step value s"""
        return concat(concat(h.f('name', h.f('t0', t)), SEP), v_s(s))

    def hit(h, G, t, s, n):
        F_ = h.f('_full_name_to_node', G)
        k = VStr(step_name(h, t, s))
        return z3.And(h.has(F_, k), h.val(F_, k) == VRef(n))

    def named_by_tuple(h, G, t, n, steps_bag=None):
        s = z3.Const('s!nt', Val)
        inb = (z3.Select(steps_bag, s) > 0) if steps_bag is not None else (h.bag(h.f('t1', t), s) > 0)
        return z3.Exists([s], z3.And(inb, is_VStr(s), hit(h, G, t, s, n)))

    def named(h, G, I, n, tuples_bag=None):
        """node n is named by some (asset, step) entry point of model attacker I (restricted to the given bag of tuples)"""
        t = A('t!nm')
        inb = (z3.Select(tuples_bag, VRef(t)) > 0) if tuples_bag is not None else (h.cnt(h.f('entry_points', I), t) > 0)
        return z3.Exists([t], z3.And(inb, named_by_tuple(h, G, t, n)))

    def model_of(c):
        return v_a(c.old.f('model', c.self))

    def requires(c):
        o, G = c.old, c.self
        I = A('I!rq')
        M = model_of(c)
        return WF(o, G) + [
            ('model-lists-separate', z3.Implies(is_VRef(o.f('model', G)), z3.And(
                o.own_obj(o.f('attackers', M)) == M, o.own_fld(o.f('attackers', M)) == field_id('attackers'), M != G,
                FA([I], z3.Implies(o.cnt(o.f('attackers', M), I) > 0, z3.And(
                    o.own_obj(o.f('entry_points', I)) == I, o.own_fld(o.f('entry_points', I)) == field_id('entry_points'),
                    o.cls(I) == class_id('AttackerAttachment'), z3.Not(is_att(o, G, I)))), [o.cnt(o.f('attackers', M), I)])))),
        ]

    def others_kept(o, h, G):
        b, n = A('b!ok'), A('n!ok')
        return [
            ('old-attackers-kept', FA([b], z3.Implies(is_att(o, G, b), z3.And(
                is_att(h, G, b), list_unchanged(o, h, o.f('reached_attack_steps', b)), list_unchanged(o, h, o.f('entry_points', b)),
                h.f('reached_attack_steps', b) == o.f('reached_attack_steps', b), h.f('entry_points', b) == o.f('entry_points', b))),
                                      [o.cnt(atts_l(o, G), b)])),
            ('old-compromisers-kept', FA([n, b], z3.Implies(z3.And(is_node(o, G, n), is_att(o, G, b)), cb(h, n, b) == cb(o, n, b)), [cb(h, n, b)])),
            ('nodes-kept', z3.And(list_unchanged(o, h, nodes_l(o, G)), h.f('nodes', G) == o.f('nodes', G), h.f('attackers', G) == o.f('attackers', G))),
            ('node-index-kept', z3.And(h.f('_full_name_to_node', G) == o.f('_full_name_to_node', G), h.f('_id_to_node', G) == o.f('_id_to_node', G),
                                       *[z3.Select(h.arr[x], o.f('_full_name_to_node', G)) == z3.Select(o.arr[x], o.f('_full_name_to_node', G)) for x in DICT_ARRAYS],
                                       *[z3.Select(h.arr[x], o.f('_id_to_node', G)) == z3.Select(o.arr[x], o.f('_id_to_node', G)) for x in DICT_ARRAYS])),
            ('model-kept', unchanged_lists_by_field(o, h, ('reached_attack_steps', 'compromised_by', 'attackers', 'entry_points'))),
            ('model-lists-kept', model_lists_unchanged(o, h)),
            ('model-attackers-kept', z3.And(list_unchanged(o, h, o.f('attackers', model_of_h(o, G))),
                                            h.f('model', G) == o.f('model', G), h.f('attackers', model_of_h(o, G)) == o.f('attackers', model_of_h(o, G)))),
            ('names-kept', z3.And(*[FA([A('x!nk')], z3.Implies(z3.And(A('x!nk') >= 0, A('x!nk') < o.alloc),
                                                               z3.Select(h.arr[n_], A('x!nk')) == z3.Select(o.arr[n_], A('x!nk'))), [z3.Select(h.arr[n_], A('x!nk'))])
                                    for n_ in ('f_name', 'f_' + AAN, 'f_asset', 'f_t0', 'f_t1', 'f_id', 'f_entry_points', 'f_reached_attack_steps') if not z3.eq(h.arr[n_], o.arr[n_])], z3.BoolVal(True))),
        ]

    def model_of_h(o, G):
        return v_a(o.f('model', G))

    def model_lists_unchanged(o, h):
        """lists owned by model-side objects (the model, its attacker attachments, entry-point tuples) are not written"""
        l = A('l!ml')
        oc = o.cls(o.own_obj(l))
        cond = z3.And(l >= 0, l < o.alloc, o.own_obj(l) >= 0, z3.Or(oc == class_id('Model'), oc == class_id('AttackerAttachment'), oc == class_id('EPTuple')))
        return z3.And(
            FA([l], z3.Implies(cond, h.bagof(l) == o.bagof(l)), [h.bagof(l)]),
            FA([l], z3.Implies(cond, h.len(l) == o.len(l)), [h.len(l)]),
            FA([l], z3.Implies(cond, z3.Select(h.arr['L_at'], l) == z3.Select(o.arr['L_at'], l)), [z3.Select(h.arr['L_at'], l)]),
            FA([l], z3.Implies(z3.And(l >= 0, l < o.alloc), z3.And(h.own_obj(l) == o.own_obj(l), h.own_fld(l) == o.own_fld(l), h.cls(l) == o.cls(l))), [h.own_obj(l)]))

    def attached(o, h, G, j):
        """the j-th model attacker has its graph attacker at position len0 + j, with the specified reached / entry sets"""
        M = model_of_h(o, G)
        I = v_a(o.at(o.f('attackers', M), j))
        a = v_a(h.at(atts_l(o, G), o.len(atts_l(o, G)) + j))
        n = A('n!at')
        return z3.And(
            is_VRef(h.at(atts_l(o, G), o.len(atts_l(o, G)) + j)), is_att(h, G, a), z3.Not(is_att(o, G, a)),
            VStr(h.f('name', a)) == o.f(AAN, I),
            FA([n], z3.Implies(is_node(o, G, n), (reached(h, a, n) > 0) == named(o, G, I, n)), [reached(h, a, n)]),
            FA([n], z3.Implies(is_node(o, G, n), entry(h, a, n) == reached(h, a, n)), [entry(h, a, n)]))

    def inv0(c: LCtx):
        o, h, G = c.old, c.h, c.self
        j = z3.Int('j!i0')
        AL = atts_l(o, G)
        return WF(h, G) + others_kept(o, h, G) + [
            ('count', h.len(AL) == o.len(AL) + c.i),
            ('prefix-kept', FA([j], z3.Implies(z3.And(0 <= j, j < o.len(AL)), h.at(AL, j) == o.at(AL, j)), [h.at(AL, j)])),
            ('attached', FA([j], z3.Implies(z3.And(0 <= j, j < c.i), attached(o, h, G, j)), [h.at(AL, o.len(AL) + j)])),
            ('model-own', requires(c)[-1][1]),
            ('names-ok', FA([A('I!n0')], z3.Implies(z3.Select(c.done, VRef(A('I!n0'))) > 0,
                                                    z3.And(is_VStr(o.f(AAN, A('I!n0'))), o.f(AAN, A('I!n0')) != VStr(str_const('')))), [z3.Select(c.done, VRef(A('I!n0')))])),
        ]

    def cur_attacker(c):
        return c.local('attacker').t

    def inner_common(c: LCtx, top: LCtx):
        """facts about the attacker being attached, shared by the two inner loops (top = outer-most loop context)"""
        o, h, G = c.old, c.h, c.self
        a = cur_attacker(c)
        b, n, j = A('b!ic'), A('n!ic'), z3.Int('j!ic')
        AL = atts_l(o, G)
        hb = top.h       # heap at the head of the current outer iteration
        return WF(h, G) + others_kept(o, h, G) + [
            ('attacker-in-G', z3.And(is_att(h, G, a), z3.Not(is_att(o, G, a)), h.at(AL, o.len(AL) + top.i) == VRef(a), h.len(AL) == o.len(AL) + top.i + 1)),
            ('attacker-name', VStr(h.f('name', a)) == o.f(AAN, c.local('attacker_info').t)),
            ('prefix-kept', FA([j], z3.Implies(z3.And(0 <= j, j < o.len(AL) + top.i), h.at(AL, j) == hb.at(AL, j)), [h.at(AL, j)])),
            ('earlier-attackers-kept', FA([b], z3.Implies(z3.And(is_att(hb, G, b)), z3.And(
                list_unchanged(hb, h, hb.f('reached_attack_steps', b)), list_unchanged(hb, h, hb.f('entry_points', b)), b != a,
                h.f('reached_attack_steps', b) == hb.f('reached_attack_steps', b), h.f('entry_points', b) == hb.f('entry_points', b))),
                                          [hb.cnt(AL, b)])),
            ('entry-still-empty', h.bagof(h.f('entry_points', a)) == EMPTY_BAG),
        ]

    def inv1(c: LCtx):
        o, h, G = c.old, c.h, c.self
        a = cur_attacker(c)
        n = A('n!i1')
        I = c.local('attacker_info').t
        return inner_common(c, c.outer) + [
            ('reached', FA([n], z3.Implies(is_node(o, G, n), (reached(h, a, n) > 0) == named(o, G, I, n, tuples_bag=c.done)), [reached(h, a, n)])),
            ('iterating-entry-points-of-info', c.it == o.f('entry_points', I)),
        ]

    def inv2(c: LCtx):
        o, h, G = c.old, c.h, c.self
        a = cur_attacker(c)
        n = A('n!i2')
        I = c.local('attacker_info').t
        o1 = c.outer            # loop over the tuples
        # the current tuple is the owner of the step list being iterated (t1 list): address it through ownership-free equality
        t = A('t!i2')
        cur_t = z3.Const('curt!i2', Addr)
        return inner_common(c, o1.outer) + [
            ('reached', FA([n], z3.Implies(is_node(o, G, n), (reached(h, a, n) > 0) == z3.Or(
                named(o, G, I, n, tuples_bag=o1.done),
                z3.Exists([t], z3.And(o.f('t1', t) == c.it, o.f('t0', t) == c.local('asset').t, named_by_tuple(o, G, t, n, steps_bag=c.done))))),
                           [reached(h, a, n)])),
            ('iterating-entry-points-of-info', o1.it == o.f('entry_points', I)),
        ]

    def ensures(c):
        o, h, G = c.old, c.h, c.self
        M = model_of_h(o, G)
        j = z3.Int('j!ea2')
        AL = atts_l(o, G)
        return WF(h, G) + others_kept(o, h, G) + [
            ('one-attacker-per-model-attacker', h.len(AL) == o.len(AL) + o.len(o.f('attackers', M))),
            ('attached', FA([j], z3.Implies(z3.And(0 <= j, j < o.len(o.f('attackers', M))), attached(o, h, G, j)), [h.at(AL, o.len(AL) + j)])),
        ]

    def raise_cond(c):
        o, G = c.old, c.self
        I = A('I!rc')
        M = model_of_h(o, G)
        return z3.Or(is_VNone(o.f('model', G)),
                     z3.Exists([I], z3.And(o.cnt(o.f('attackers', M), I) > 0, z3.Or(is_VNone(o.f(AAN, I)), o.f(AAN, I) == VStr(str_const(''))))))

    def exc_ens(c):
        return WF(c.h, c.self)

    reg.add(Contract(MG + ':AttackGraph.attach_attackers', {'self': Obj(GRAPH)}, requires=requires, ensures=ensures,
                     raises={'AttackGraphException': (raise_cond, exc_ens)},
                     modifies=LIST_ARRAYS + DICT_ARRAYS + ('cls', 'own_obj', 'own_fld', 'f_id', 'f_next_attacker_id', 'f_name',
                                                            'f_entry_points', 'f_reached_attack_steps'), allocates=True,
                     loops={0: LoopSpec(inv0), 1: LoopSpec(inv1), 2: LoopSpec(inv2)}, props=('C11', 'C09')))


_install_prev3 = install


def install(reg: Registry):
    _install_prev3(reg)
    import os
    if os.environ.get('PYVC_WIP'):          # work in progress: 549/577 obligations discharge; not registered until complete
        install_attach_attackers(reg)
