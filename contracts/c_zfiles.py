"""Contracts for the file layer (C07, C10): format dispatch on the file extension when saving and loading.

The file system is a ghost object FS (a pre-existing object of the heap) with two dicts: `docs` (file name -> the dict that was
written) and `formats` (file name -> 'json' | 'yaml').  The four functions of file_utils that wrap json / yaml (they use `with open`
and external libraries) and the two `_from_dict` class methods have ASSUMED contracts; what is verified is the dispatch:
save_dict_to_file, Model.save_to_file, AttackGraph.save_to_file, Model.load_from_file, AttackGraph.load_from_file."""
from __future__ import annotations
import z3
from pyvc.theory import *
from pyvc.contract import *
from .graph_spec import A, FA, GRAPH
from .model_spec import MODEL

MF = 'maltoolbox.file_utils'
K = lambda s_: VStr(str_const(s_))
FS = z3.Const('FS!files', Addr)
endswith = z3.Function('str_endswith', Str, Str, z3.BoolSort())      # same symbol as the executor's str.endswith


def is_yaml(name): return z3.Or(endswith(name, str_const('.yml')), endswith(name, str_const('.yaml')))
def is_json(name): return z3.And(z3.Not(is_yaml(name)), endswith(name, str_const('.json')))


def install(reg: Registry):
    sch = reg.schema
    sch.add_class('FileSystem', {'docs': Dict(T.str, T.val), 'formats': Dict(T.str, T.str)})
    sch.add_class(MODEL, {'loaded_from': T.val})
    sch.add_class(GRAPH, {'loaded_from': T.val, 'loaded_with_model': T.val})
    reg.classes['FileSystem'] = ClassInfo('FileSystem', None, False)

    def fs_ok(o):
        return [('FS', z3.And(FS >= 0, FS < o.alloc, o.cls(FS) == class_id('FileSystem'), o.f('docs', FS) != o.f('formats', FS)))]

    def exact(o, h, name, doc, fmtv):
        """exact array form of the update (callers can rewrite through it without quantified frames)"""
        D, F_ = o.f('docs', FS), o.f('formats', FS)
        k = VStr(name)
        has1 = z3.Store(o.arr['D_has'], D, z3.Store(z3.Select(o.arr['D_has'], D), k, z3.BoolVal(True)))
        val1 = z3.Store(o.arr['D_val'], D, z3.Store(z3.Select(o.arr['D_val'], D), k, doc))
        return [('exact.has', h.arr['D_has'] == z3.Store(has1, F_, z3.Store(z3.Select(has1, F_), k, z3.BoolVal(True)))),
                ('exact.val', h.arr['D_val'] == z3.Store(val1, F_, z3.Store(z3.Select(val1, F_), k, fmtv)))]

    def written(o, h, name, doc, fmt):
        """FS after writing `doc` under `name` in format fmt: only that entry of the two dicts changes"""
        k = z3.Const('k!fw', Val)
        D, F_ = o.f('docs', FS), o.f('formats', FS)
        return [('doc', z3.And(h.has(D, VStr(name)), h.val(D, VStr(name)) == doc)), ('format', z3.And(h.has(F_, VStr(name)), h.val(F_, VStr(name)) == K(fmt))),
                ('other-files', FA([k], z3.Implies(k != VStr(name), z3.And(h.has(D, k) == o.has(D, k), h.val(D, k) == o.val(D, k),
                                                                          h.has(F_, k) == o.has(F_, k), h.val(F_, k) == o.val(F_, k))), [h.has(D, k)], )),
                ('frame', z3.And(*[FA([A('x!fw')], z3.Implies(z3.And(A('x!fw') != D, A('x!fw') != F_), z3.Select(h.arr[n], A('x!fw')) == z3.Select(o.arr[n], A('x!fw'))),
                                      [z3.Select(h.arr[n], A('x!fw')), z3.Select(o.arr[n], A('x!fw'))]) for n in DICT_ARRAYS]))]

    for fmt, fn in (('json', 'save_dict_to_json_file'), ('yaml', 'save_dict_to_yaml_file')):
        reg.add(Contract(MF + ':' + fn, {'filename': T.str, 'serialized_object': Dict(T.str, T.val)}, trusted=True,
                         requires=lambda c: fs_ok(c.old), modifies=DICT_ARRAYS,
                         ensures=(lambda fmt: lambda c: written(c.old, c.h, c.filename, VRef(c.serialized_object), fmt) + exact(c.old, c.h, c.filename, VRef(c.serialized_object), K(fmt)))(fmt),
                         note='json.dump / yaml.dump (external) behind `with open`: the document under that name is this dict, in that format'))
    for fmt, fn in (('json', 'load_dict_from_json_file'), ('yaml', 'load_dict_from_yaml_file')):
        reg.add(Contract(MF + ':' + fn, {'filename': T.str}, returns=T.val, trusted=True, pure=True,
                         requires=lambda c: fs_ok(c.old),
                         ensures=(lambda fmt: lambda c: [('doc', z3.Implies(z3.And(c.old.has(c.old.f('docs', FS), VStr(c.filename)),
                                                                                   c.old.val(c.old.f('formats', FS), VStr(c.filename)) == K(fmt)),
                                                                            c.res == c.old.val(c.old.f('docs', FS), VStr(c.filename))))])(fmt),
                         note='json.loads / yaml.safe_load (external): a file written in this format yields the document that was written '
                              '(nothing is assumed about reading a file of the other format or a missing file)'))

    # ---- save_dict_to_file: dispatch on the extension
    def sdf_ensures(c):
        fmt = z3.If(is_yaml(c.filename), K('yaml'), K('json'))
        o, h = c.old, c.h
        D, F_ = o.f('docs', FS), o.f('formats', FS)
        k = z3.Const('k!sd', Val)
        return [('doc', z3.And(h.has(D, VStr(c.filename)), h.val(D, VStr(c.filename)) == VRef(c.dictionary))),
                ('format-follows-extension', h.val(F_, VStr(c.filename)) == fmt),
                ('other-files', FA([k], z3.Implies(k != VStr(c.filename), z3.And(h.has(D, k) == o.has(D, k), h.val(D, k) == o.val(D, k),
                                                                                h.has(F_, k) == o.has(F_, k), h.val(F_, k) == o.val(F_, k))), [h.has(D, k)])),
                ] + exact(o, h, c.filename, VRef(c.dictionary), fmt) + [
                ('frame', z3.And(*[FA([A('x!sd')], z3.Implies(z3.And(A('x!sd') != D, A('x!sd') != F_), z3.Select(h.arr[n], A('x!sd')) == z3.Select(o.arr[n], A('x!sd'))),
                                      [z3.Select(h.arr[n], A('x!sd')), z3.Select(o.arr[n], A('x!sd'))]) for n in DICT_ARRAYS]))]
    reg.add(Contract(MF + ':save_dict_to_file', {'filename': T.str, 'dictionary': Dict(T.str, T.val)}, requires=lambda c: fs_ok(c.old),
                     ensures=sdf_ensures, raises={'ValueError': lambda c: z3.And(z3.Not(is_yaml(c.filename)), z3.Not(is_json(c.filename)))},
                     modifies=DICT_ARRAYS, props=('C07', 'C10'),
                     note='.yml / .yaml -> YAML writer, .json -> JSON writer, anything else -> ValueError and nothing is written'))


    # ---- Model.save_to_file / AttackGraph.save_to_file: the document written is what _to_dict returns, in the format of the extension
    def save_contract(key, cls, todict_key):
        tc = reg.contracts[todict_key]

        def requires(c):
            return fs_ok(c.old) + list(tc.requires(c)) + [('FS-is-not-the-object', FS != c.self)]

        def ensures(c):
            o, h = c.old, c.h
            D, F_ = o.f('docs', FS), o.f('formats', FS)
            doc = h.val(D, VStr(c.filename))
            k = z3.Const('k!sv', Val)

            class C2:            # the postcondition of _to_dict, read on the written document
                pass
            C2.old, C2.h, C2.self, C2.res = o, h, c.self, v_a(doc)
            C2.args, C2.ghosts = c.args, c.ghosts
            enc = [(nm, f) for nm, f in tc.ensures(C2) if not nm.startswith(('pure.', 'old'))]
            if cls == GRAPH:
                # the nested per-node / per-attacker encoding is the (verified) postcondition of _to_dict; carrying it through the
                # write is beyond E-matching here (three levels of dict nesting): only the shape of the document is restated
                enc = [(nm, f) for nm, f in enc if nm == 'fresh']
            return [('written', z3.And(h.has(D, VStr(c.filename)), is_VRef(doc), v_a(doc) >= o.alloc)),
                    ('format-follows-extension', h.val(F_, VStr(c.filename)) == z3.If(is_yaml(c.filename), K('yaml'), K('json'))),
                    ('other-files', FA([k], z3.Implies(k != VStr(c.filename), z3.And(h.has(D, k) == o.has(D, k), h.val(D, k) == o.val(D, k),
                                                                                    h.has(F_, k) == o.has(F_, k), h.val(F_, k) == o.val(F_, k))), [h.has(D, k)]))] + \
                   [('document.' + nm, f) for nm, f in enc]

        reg.add(Contract(key, {'self': Obj(cls), 'filename': T.str}, requires=requires, ensures=ensures,
                         raises={'ValueError': (lambda c: z3.And(z3.Not(is_yaml(c.filename)), z3.Not(is_json(c.filename))),
                                                lambda c: [('region.' + n, FA([A('x!sx')], z3.Implies(z3.And(A('x!sx') >= 0, A('x!sx') < c.old.alloc),
                                                                                                     z3.Select(c.h.arr[n], A('x!sx')) == z3.Select(c.old.arr[n], A('x!sx'))),
                                                                              [z3.Select(c.h.arr[n], A('x!sx'))]))
                                                           for n in c.h.arr if n != 'orig' and not z3.eq(c.h.arr[n], c.old.arr[n])])},
                         modifies=LIST_ARRAYS + DICT_ARRAYS + ('cls', 'own_obj'), allocates=True, props=('C07',) if cls == MODEL else ('C10',)))

    save_contract('maltoolbox.model:Model.save_to_file', MODEL, 'maltoolbox.model:Model._to_dict')
    save_contract('maltoolbox.attackgraph.attackgraph:AttackGraph.save_to_file', GRAPH, 'maltoolbox.attackgraph.attackgraph:AttackGraph._to_dict')


    # ---- load_from_file (both classes): the loader of the extension's format is used, and the object is what _from_dict makes of that
    # document.  _from_dict itself is ASSUMED (abstract): a fresh object tagged with the document it was built from; its behaviour is
    # decided by the bounded floors of C07 / C10.
    LCFc = 'LanguageClassesFactory'
    reg.add(Contract('maltoolbox.model:Model._from_dict', {'cls': T('cls', cls=MODEL), 'serialized_object': T.val, 'lang_classes_factory': Obj(LCFc)},
                     returns=Obj(MODEL), trusted=True, allocates=True, modifies=tuple(n for n in sch.all_arrays() if n != 'orig'),
                     ensures=lambda c: [('fresh', z3.And(c.res >= c.old.alloc, c.res < c.h.alloc, c.h.cls(c.res) == class_id(MODEL))),
                                        ('built-from', c.h.f('loaded_from', c.res) == c.serialized_object)],
                     note='ASSUMED (abstract): a new Model built from the document; what it contains is decided by the floor of C07'))
    reg.add(Contract('maltoolbox.attackgraph.attackgraph:AttackGraph._from_dict', {'cls': T('cls', cls=GRAPH), 'serialized_object': T.val, 'model': Obj(MODEL, opt=True)},
                     returns=Obj(GRAPH), trusted=True, allocates=True, modifies=tuple(n for n in sch.all_arrays() if n != 'orig'),
                     ensures=lambda c: [('fresh', z3.And(c.res >= c.old.alloc, c.res < c.h.alloc, c.h.cls(c.res) == class_id(GRAPH))),
                                        ('built-from', z3.And(c.h.f('loaded_from', c.res) == c.serialized_object, c.h.f('loaded_with_model', c.res) == c.model))],
                     note='ASSUMED (abstract): a new AttackGraph built from the document; what it contains is decided by the floor of C10'))
    reg.contracts['maltoolbox.attackgraph.attackgraph:AttackGraph._from_dict'].defaults = {'model': SV_NONE}

    def load_ensures(extra):
        def ens(c):
            o = c.old
            D, F_ = o.f('docs', FS), o.f('formats', FS)
            fmt = z3.If(is_yaml(c.filename), K('yaml'), K('json'))
            ok = z3.And(o.has(D, VStr(c.filename)), o.val(F_, VStr(c.filename)) == fmt)
            return [('fresh', c.res >= o.alloc),
                    # a file that was written with the same extension (hence in the format the loader of that extension reads) loads to what
                    # _from_dict makes of the written document
                    ('built-from-the-written-document', z3.Implies(ok, c.h.f('loaded_from', c.res) == o.val(D, VStr(c.filename))))] + extra(c)
        return ens

    bad_ext = lambda c: z3.And(z3.Not(is_yaml(c.filename)), z3.Not(is_json(c.filename)))
    allarr = tuple(n for n in sch.all_arrays() if n != 'orig')
    reg.add(Contract('maltoolbox.model:Model.load_from_file', {'cls': T('cls', cls=MODEL), 'filename': T.str, 'lang_classes_factory': Obj(LCFc)},
                     returns=Obj(MODEL), requires=lambda c: fs_ok(c.old), ensures=load_ensures(lambda c: []),
                     raises={'ValueError': bad_ext}, modifies=allarr, allocates=True, props=('C07',)))
    reg.add(Contract('maltoolbox.attackgraph.attackgraph:AttackGraph.load_from_file', {'cls': T('cls', cls=GRAPH), 'filename': T.str, 'model': Obj(MODEL, opt=True)},
                     returns=Obj(GRAPH), requires=lambda c: fs_ok(c.old),
                     ensures=load_ensures(lambda c: [('model-passed-on', c.h.f('loaded_with_model', c.res) == c.model)]),
                     raises={'ValueError': bad_ext}, modifies=allarr, allocates=True, props=('C10',)))

    # ---- lemma FILE-RT: save_to_file then load_from_file under the same name gives _from_dict of the document that was written
    def lemma_file_rt(reg):
        out = []
        o = H.fresh(reg.schema, 'rt0')
        h1 = H.fresh(reg.schema, 'rt1')
        name = z3.Const('name!rt', Str)
        doc = z3.Const('doc!rt', Addr)
        D, F_ = o.f('docs', FS), o.f('formats', FS)
        fmt = z3.If(is_yaml(name), K('yaml'), K('json'))
        # after save: (the two clauses of save_to_file's contract)
        saved = [h1.has(h1.f('docs', FS), VStr(name)), h1.val(h1.f('docs', FS), VStr(name)) == VRef(doc), h1.val(h1.f('formats', FS), VStr(name)) == fmt]
        # load's clause, instantiated on the heap after the save
        ok = z3.And(h1.has(h1.f('docs', FS), VStr(name)), h1.val(h1.f('formats', FS), VStr(name)) == fmt)
        out.append(('same-name-same-format', saved, ok))
        return out
    reg.add_lemma('FILE-RT.a-file-saved-under-a-name-is-read-back-by-the-loader-of-that-extension', ('C07', 'C10'), lemma_file_rt)
