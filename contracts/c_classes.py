"""Contract for LanguageClassesFactory._generate_assets (C06, first half): the JSON schema handed to python_jsonschema_objects has one
entry per asset type of the language graph, with exactly the properties id, type (default = the type name) and one numeric
property per defense step (range [0, 1], default 1.0 iff the defense is declared Enabled, else 0.0), and an allOf reference per
super asset.  What python_jsonschema_objects makes of the schema is assumed (third party)."""
from __future__ import annotations
import z3
from pyvc.theory import *
from pyvc.contract import *
from .graph_spec import A, FA
from .lang_spec import LG, LGA

MC = 'maltoolbox.language.classes_factory'
LCF, LGS = 'LanguageClassesFactory', 'LanguageGraphAttackStep'
K = lambda s_: VStr(str_const(s_))
S = str_const
PREFIX = str_const('#/definitions/LanguageAsset/definitions/')


def owned_(h, l, obj, fld): return z3.And(h.own_obj(l) == obj, h.own_fld(l) == field_id(fld))


def install(reg: Registry):
    sch = reg.schema
    sch.add_class(LGS, {'name': T.str, 'type': T.str, 'ttc': Dict(T.str, T.val, opt=True)})
    sch.add_class(LGA, {'attack_steps': List(Obj(LGS))})
    sch.add_class(LCF, {'lang_graph': Obj(LG), 'json_schema': Dict(T.str, T.val)})
    reg.classes[LGS] = ClassInfo(LGS, 'maltoolbox.language.languagegraph', False)
    reg.classes[LCF] = ClassInfo(LCF, MC, False)
    LGF = sch.storage(LCF, 'lang_graph')

    def root(h, me):
        """(LanguageAsset dict, its 'definitions' dict, its 'oneOf' list)"""
        LA = v_a(h.val(v_a(h.val(h.f('json_schema', me), K('definitions'))), K('LanguageAsset')))
        return LA, v_a(h.val(LA, K('definitions'))), v_a(h.val(LA, K('oneOf')))

    def requires(c):
        o, me = c.old, c.self
        JS = o.f('json_schema', me)
        DEF = v_a(o.val(JS, K('definitions')))
        LA, DD, OL = root(o, me)
        a, b, d, e = A('a!cq'), A('b!cq'), A('d!cq'), A('e!cq')
        kv = z3.Const('k!cq', Val)
        AL = o.f('assets', o.f(LGF, me))
        isd = lambda v: z3.And(is_VRef(v), o.cls(v_a(v)) == CLS_DICT)
        return [
            ('schema-skeleton', z3.And(o.has(JS, K('definitions')), isd(o.val(JS, K('definitions'))), o.has(DEF, K('LanguageAsset')), isd(o.val(DEF, K('LanguageAsset'))),
                                       o.has(LA, K('definitions')), isd(o.val(LA, K('definitions'))), o.has(LA, K('oneOf')), is_VRef(o.val(LA, K('oneOf'))),
                                       o.cls(OL) == CLS_LIST, o.cls(JS) == CLS_DICT, DD != LA, DD != DEF, DD != JS, LA != DEF, LA != JS, DEF != JS,
                                       OL != JS, OL != DEF, OL != LA, OL != DD, JS >= 0, JS < o.alloc, OL >= 0, OL < o.alloc, DD >= 0, DD < o.alloc,
                                       LA >= 0, LA < o.alloc, DEF >= 0, DEF < o.alloc)),
            # the schema containers are not containers of the language graph
            ('schema-separate', z3.And(owned_(o, AL, o.f(LGF, me), 'assets'), o.own_obj(OL) == -1,
                                       FA([a], z3.Implies(o.cnt(AL, a) > 0, z3.And(owned_(o, o.f('attack_steps', a), a, 'attack_steps'),
                                                                                  owned_(o, o.f('super_assets', a), a, 'super_assets'))), [o.cnt(AL, a)]),
                                       FA([a, d], z3.Implies(z3.And(o.cnt(AL, a) > 0, o.cnt(o.f('attack_steps', a), d) > 0, is_VRef(o.f('ttc', d))),
                                                             z3.And(v_a(o.f('ttc', d)) != DD, v_a(o.f('ttc', d)) != LA, v_a(o.f('ttc', d)) != DEF, v_a(o.f('ttc', d)) != JS)),
                                          [o.cnt(o.f('attack_steps', a), d)]))),
            # langspec layout: a non-empty TTC record has a 'name'
            ('ttc-has-name', FA([a, d], z3.Implies(z3.And(o.cnt(AL, a) > 0, o.cnt(o.f('attack_steps', a), d) > 0, is_VRef(o.f('ttc', d)), o.size(v_a(o.f('ttc', d))) > 0),
                                                   z3.And(o.has(v_a(o.f('ttc', d)), K('name')), o.cls(v_a(o.f('ttc', d))) == CLS_DICT)), [o.cnt(o.f('attack_steps', a), d)])),
            ('assets-typed', FA([kv], z3.Implies(o.bag(AL, kv) > 0, is_VRef(kv)), [o.bag(AL, kv)])),
            ('steps-typed', FA([a, kv], z3.Implies(z3.And(o.cnt(AL, a) > 0, o.bag(o.f('attack_steps', a), kv) > 0), is_VRef(kv)), [o.bag(o.f('attack_steps', a), kv)])),
            ('supers-typed', FA([a, kv], z3.Implies(z3.And(o.cnt(AL, a) > 0, o.bag(o.f('super_assets', a), kv) > 0), is_VRef(kv)), [o.bag(o.f('super_assets', a), kv)])),
            # wf_lang: asset names are unique; a defense is not called `id` or `type`; defense names are unique within an asset
            ('asset-names-unique', FA([a, b], z3.Implies(z3.And(o.cnt(AL, a) > 0, o.cnt(AL, b) > 0, o.f('name', a) == o.f('name', b)), a == b),
                                      [(o.cnt(AL, a), o.cnt(AL, b))])),
            ('assets-nodup', FA([a], o.cnt(AL, a) <= 1, [o.cnt(AL, a)])),
            ('defense-names', FA([a, d], z3.Implies(z3.And(o.cnt(AL, a) > 0, o.cnt(o.f('attack_steps', a), d) > 0, o.f('type', d) == S('defense')),
                                                    z3.And(o.f('name', d) != S('id'), o.f('name', d) != S('type'), o.cnt(o.f('attack_steps', a), d) <= 1)),
                                 [o.cnt(o.f('attack_steps', a), d)])),
            ('defense-names-unique', FA([a, d, e], z3.Implies(z3.And(o.cnt(AL, a) > 0, o.cnt(o.f('attack_steps', a), d) > 0, o.cnt(o.f('attack_steps', a), e) > 0,
                                                                     o.f('type', d) == S('defense'), o.f('type', e) == S('defense'), o.f('name', d) == o.f('name', e)), d == e),
                                        [(o.cnt(o.f('attack_steps', a), d), o.cnt(o.f('attack_steps', a), e))])),
        ]

    def default_of(o, d):
        ttc = o.f('ttc', d)
        enabled = z3.And(is_VRef(ttc), o.size(v_a(ttc)) > 0, o.val(v_a(ttc), K('name')) == K('Enabled'))
        return z3.If(enabled, VReal(z3.RealVal(1)), VReal(z3.RealVal(0)))

    def prop_entry(o, h, Dd, d):
        k = z3.Const('k!pe', Val)
        return z3.And(Dd >= o.alloc, Dd < h.alloc, h.cls(Dd) == CLS_DICT,
                      FA([k], h.has(Dd, k) == z3.Or(k == K('type'), k == K('minimum'), k == K('maximum'), k == K('default')), [h.has(Dd, k)]),
                      h.val(Dd, K('type')) == K('number'), h.val(Dd, K('minimum')) == VInt(0), h.val(Dd, K('maximum')) == VInt(1),
                      h.val(Dd, K('default')) == default_of(o, d))

    def properties_ok(o, h, P, a, done=None):
        """P has `id`, `type` (default = type name) and one entry per (processed) defense step of a — and nothing else"""
        d = A('d!po')
        k = z3.Const('k!po', Val)
        k2 = z3.Const('k2!po', Val)
        ST = o.f('attack_steps', a)
        isdef = lambda q: z3.And(o.cnt(ST, q) > 0, o.f('type', q) == S('defense'), (z3.Select(done, VRef(q)) > 0) if done is not None else z3.BoolVal(True))
        pat = (lambda q: z3.Select(done, VRef(q))) if done is not None else (lambda q: o.cnt(ST, q))
        PI, PT = v_a(h.val(P, K('id'))), v_a(h.val(P, K('type')))
        return z3.And(
            P >= o.alloc, P < h.alloc, h.cls(P) == CLS_DICT,
            h.has(P, K('id')), is_VRef(h.val(P, K('id'))), PI >= o.alloc, h.cls(PI) == CLS_DICT, h.val(PI, K('type')) == K('integer'),
            FA([k2], h.has(PI, k2) == (k2 == K('type')), [h.has(PI, k2)]),
            h.has(P, K('type')), is_VRef(h.val(P, K('type'))), PT >= o.alloc, h.cls(PT) == CLS_DICT, h.val(PT, K('type')) == K('string'),
            h.val(PT, K('default')) == VStr(o.f('name', a)), FA([k2], h.has(PT, k2) == z3.Or(k2 == K('type'), k2 == K('default')), [h.has(PT, k2)]),
            FA([d], z3.Implies(isdef(d), z3.And(h.has(P, VStr(o.f('name', d))), is_VRef(h.val(P, VStr(o.f('name', d)))),
                                                prop_entry(o, h, v_a(h.val(P, VStr(o.f('name', d)))), d))), [pat(d)]),
            FA([k], z3.Implies(h.has(P, k), z3.Or(k == K('id'), k == K('type'), z3.Exists([d], z3.And(isdef(d), VStr(o.f('name', d)) == k), patterns=[pat(d)]))),
               [h.has(P, k)]))

    def all_of_ok(o, h, E, a):
        SU = o.f('super_assets', a)
        L_ = v_a(h.val(E, K('allOf')))
        j = z3.Int('j!ao')
        k2 = z3.Const('k2!ao', Val)
        ref = lambda q: v_a(h.at(L_, q))
        return z3.And(h.has(E, K('allOf')) == (o.len(SU) > 0),
                      z3.Implies(o.len(SU) > 0, z3.And(is_VRef(h.val(E, K('allOf'))), L_ >= o.alloc, h.cls(L_) == CLS_LIST, h.len(L_) == o.len(SU),
                                                       FA([j], z3.Implies(z3.And(0 <= j, j < o.len(SU)), z3.And(
                                                           is_VRef(h.at(L_, j)), ref(j) >= o.alloc, h.cls(ref(j)) == CLS_DICT,
                                                           h.val(ref(j), K('$ref')) == VStr(concat(PREFIX, o.f('name', v_a(o.at(SU, j))))),
                                                           FA([k2], h.has(ref(j), k2) == (k2 == K('$ref')), [h.has(ref(j), k2)]))), [h.at(L_, j)]))))

    def entry_ok(o, h, E, a, done=None, with_props=True):
        k = z3.Const('k!eo', Val)
        base = z3.And(E >= o.alloc, E < h.alloc, h.cls(E) == CLS_DICT, h.val(E, K('title')) == VStr(o.f('name', a)), h.val(E, K('type')) == K('object'),
                      h.has(E, K('properties')), is_VRef(h.val(E, K('properties'))),
                      FA([k], h.has(E, k) == z3.Or(k == K('title'), k == K('type'), k == K('properties'), z3.And(k == K('allOf'), o.len(o.f('super_assets', a)) > 0)),
                         [h.has(E, k)]),
                      all_of_ok(o, h, E, a))
        return z3.And(base, properties_ok(o, h, v_a(h.val(E, K('properties'))), a, done)) if with_props else base

    def region(o, h, except_):
        x = A('x!cr')
        DD_, OL_ = except_
        exc = lambda n: [OL_] if n in LIST_ARRAYS else ([DD_] if n in DICT_ARRAYS else [])     # only the list OL and the dict DD are written
        return [('frame.' + n, FA([x], z3.Implies(z3.And(x >= 0, x < o.alloc, *[x != e for e in exc(n)]), z3.Select(h.arr[n], x) == z3.Select(o.arr[n], x)),
                                  [z3.Select(h.arr[n], x), z3.Select(o.arr[n], x)]))
                for n in h.arr if not z3.eq(h.arr[n], o.arr[n]) and n != 'orig']

    def outer_state(c, h, done_assets, upto=None):
        """DD has an entry per processed asset (plus what it had); OL got one reference per processed asset, in order"""
        o, me = c.old, c.self
        LA, DD, OL = root(o, me)
        AL = o.f('assets', o.f(LGF, me))
        a = A('a!os')
        k = z3.Const('k!os', Val)
        k2 = z3.Const('k2!os', Val)
        j = z3.Int('j!os')
        inl = done_assets
        n_done = upto if upto is not None else o.len(AL)
        ref = lambda q: v_a(h.at(OL, q))
        return [
            ('skeleton-kept', z3.And(root(h, me)[0] == LA, root(h, me)[1] == DD, root(h, me)[2] == OL, h.f('json_schema', me) == o.f('json_schema', me))),
            ('entries', FA([a], z3.Implies(z3.And(o.cnt(AL, a) > 0, inl(a)), z3.And(h.has(DD, VStr(o.f('name', a))), is_VRef(h.val(DD, VStr(o.f('name', a)))),
                                                                                      entry_ok(o, h, v_a(h.val(DD, VStr(o.f('name', a)))), a))),
                           [h.val(DD, VStr(o.f('name', a)))])),
            ('keys', FA([k], h.has(DD, k) == z3.Or(o.has(DD, k), z3.Exists([a], z3.And(o.cnt(AL, a) > 0, inl(a), VStr(o.f('name', a)) == k), patterns=[o.cnt(AL, a)])),
                        [h.has(DD, k)])),
            ('old-entries-kept', FA([k], z3.Implies(z3.And(o.has(DD, k), z3.Not(z3.Exists([a], z3.And(o.cnt(AL, a) > 0, inl(a), VStr(o.f('name', a)) == k), patterns=[o.cnt(AL, a)]))),
                                                    h.val(DD, k) == o.val(DD, k)), [h.val(DD, k)])),
            ('oneOf.len', h.len(OL) == o.len(OL) + n_done),
            ('oneOf.old', FA([j], z3.Implies(z3.And(0 <= j, j < o.len(OL)), h.at(OL, j) == o.at(OL, j)), [h.at(OL, j)])),
            ('oneOf.new', FA([j], z3.Implies(z3.And(o.len(OL) <= j, j < o.len(OL) + n_done), z3.And(
                is_VRef(h.at(OL, j)), ref(j) >= o.alloc, h.cls(ref(j)) == CLS_DICT,
                h.val(ref(j), K('$ref')) == VStr(concat(PREFIX, o.f('name', v_a(o.at(AL, j - o.len(OL)))))),
                FA([k2], h.has(ref(j), k2) == (k2 == K('$ref')), [h.has(ref(j), k2)]))), [h.at(OL, j)])),
        ] + region(o, h, [DD, OL])

    def inv0(c: LCtx):
        return outer_state(c, c.h, lambda q: z3.Select(c.done, VRef(q)) > 0, upto=c.i)

    def inv1(c: LCtx):
        o, h = c.old, c.h
        out = c.outer
        a = c.local('asset').t
        E = c.local('asset_json_entry').t
        return outer_state(c, h, lambda q: z3.Select(out.done, VRef(q)) > 0, upto=out.i) + [
            ('entry-under-construction', z3.And(entry_ok(o, h, E, a, with_props=False), properties_ok(o, h, v_a(h.val(E, K('properties'))), a, done=c.done))),
            ('current-asset', z3.And(o.cnt(o.f('assets', o.f(LGF, c.self)), a) > 0, z3.Select(out.done, VRef(a)) <= 0,
                                     c.it == o.f('attack_steps', a), VRef(a) == o.at(o.f('assets', o.f(LGF, c.self)), out.i)))]

    def ensures(c):
        return outer_state(c, c.h, lambda q: z3.BoolVal(True))

    reg.add(Contract(MC + ':LanguageClassesFactory._generate_assets', {'self': Obj(LCF)}, requires=requires, ensures=ensures,
                     modifies=LIST_ARRAYS + DICT_ARRAYS + ('cls', 'own_obj'), allocates=True,
                     loops={0: LoopSpec(inv0, iter_src='self.lang_graph.assets'), 1: LoopSpec(inv1, iter_src='asset.attack_steps')},
                     props=('C06',), note='filter(lambda ...) is read as a guarded loop over the same list; what python_jsonschema_objects builds from the schema is assumed'))


    # ---- get_association_by_signature (C06: associations sharing a name remain distinguishable; used by the loaders of C18 / C19)
    def sig_requires(c):
        o, me = c.old, c.self
        JS = o.f('json_schema', me)
        DEF = v_a(o.val(JS, K('definitions')))
        LS = v_a(o.val(DEF, K('LanguageAssociation')))
        E = v_a(o.val(LS, K('definitions')))
        isd = lambda v: z3.And(is_VRef(v), o.cls(v_a(v)) == CLS_DICT)
        k = z3.Const('k!sg', Val)
        ent = lambda q: v_a(o.val(E, q))
        return [('schema-skeleton', z3.And(o.has(JS, K('definitions')), isd(o.val(JS, K('definitions'))), o.has(DEF, K('LanguageAssociation')),
                                           isd(o.val(DEF, K('LanguageAssociation'))), o.has(LS, K('definitions')), isd(o.val(LS, K('definitions'))))),
                ('entries-are-dicts', FA([k], z3.Implies(o.has(E, k), z3.And(isd(o.val(E, k)), z3.Implies(o.has(ent(k), K('definitions')), isd(o.val(ent(k), K('definitions')))))),
                                         [o.has(E, k)]))]

    def sig_parts(c):
        o, me = c.old, c.self
        E = v_a(o.val(v_a(o.val(v_a(o.val(o.f('json_schema', me), K('definitions'))), K('LanguageAssociation'))), K('definitions')))
        ent = v_a(o.val(E, VStr(c.assoc_name)))
        defs = v_a(o.val(ent, K('definitions')))
        multi = z3.And(o.has(ent, K('definitions')), o.size(defs) > 1)
        U = str_const('_')
        full = concat(concat(concat(concat(concat(str_const(''), c.assoc_name), U), c.left_asset), U), concat(c.right_asset, str_const('')))
        return E, defs, multi, U

    def names(c):
        U = str_const('_')
        e_ = str_const('')
        mk = lambda a_, b_, c_: concat(concat(concat(concat(concat(concat(e_, a_), U), b_), U), c_), e_)
        return mk(c.assoc_name, c.left_asset, c.right_asset), mk(c.assoc_name, c.right_asset, c.left_asset)

    def sig_raise(c):
        o = c.old
        E, defs, multi, _ = sig_parts(c)
        full, flipped = names(c)
        return z3.Or(z3.Not(o.has(E, VStr(c.assoc_name))), z3.And(multi, z3.Not(o.has(defs, VStr(full))), z3.Not(o.has(defs, VStr(flipped)))))

    def sig_ensures(c):
        o = c.old
        E, defs, multi, _ = sig_parts(c)
        full, flipped = names(c)
        return [('def', c.res == VStr(z3.If(multi, z3.If(o.has(defs, VStr(full)), full, flipped), c.assoc_name)))]

    reg.add(Contract(MC + ':LanguageClassesFactory.get_association_by_signature',
                     {'self': Obj(LCF), 'assoc_name': T.str, 'left_asset': T.str, 'right_asset': T.str}, returns=T('str', opt=True), pure=True,
                     requires=sig_requires, ensures=sig_ensures, raises={'LookupError': sig_raise}, props=('C06', 'C18', 'C19'),
                     note='the name itself when the association name is unambiguous; otherwise <name>_<left>_<right> if such a sub-entry exists, else the flipped '
                          'one; the field-name suffix that _generate_associations appends on a clash of name AND asset types is not looked up here'))
