"""Contracts for the __deepcopy__ methods (C14)."""
from __future__ import annotations
import z3
from pyvc.theory import *
from pyvc.contract import *
from .graph_spec import *
from .lang_spec import fresh_closed

MN = 'maltoolbox.attackgraph.node'
SCALARS = ('type', 'name', 'id', 'asset', 'defense_status', 'existence_status', 'is_viable', 'is_necessary', 'mitre_info')


def dict_content(o, h, d0, d1):
    """dict d1 (post heap) has the keys of d0 (pre heap), equal scalar values, and fresh containers of the same class where d0 has containers
    (a value that is a reference to a non-container object is copied by that object's own protocol: outside this claim)"""
    k = z3.Const('k!dc2', Val)
    return z3.And(FA([k], h.has(d1, k) == o.has(d0, k), [h.has(d1, k)]),
                  FA([k], z3.Implies(o.has(d0, k), z3.If(z3.And(is_VRef(o.val(d0, k)), z3.Or(o.cls(v_a(o.val(d0, k))) == CLS_LIST, o.cls(v_a(o.val(d0, k))) == CLS_DICT)),
                                                         z3.And(is_VRef(h.val(d1, k)), v_a(h.val(d1, k)) >= o.alloc, h.cls(v_a(h.val(d1, k))) == o.cls(v_a(o.val(d0, k)))),
                                                         z3.Implies(z3.Not(is_VRef(o.val(d0, k))), h.val(d1, k) == o.val(d0, k)))), [h.val(d1, k)]),
                  h.size(d1) == o.size(d0))


def install(reg: Registry):
    def requires(c):
        o = c.old
        hit = o.val(c.memo, VRef(c.self))
        return [('memo-entries-are-nodes', z3.Implies(o.has(c.memo, VRef(c.self)), z3.And(is_VRef(hit), o.cls(v_a(hit)) == class_id(NODE)))),
                ('memo-is-not-mine', z3.And(c.memo != o.f('extras', c.self), z3.Not(o.f('ttc', c.self) == VRef(c.memo)),
                                            z3.Not(o.f('attributes', c.self) == VRef(c.memo))))]

    def ensures(c):
        o, h, me, memo = c.old, c.h, c.self, c.memo
        r = c.res
        was = o.has(memo, VRef(me))
        x = A('x!nd')
        k = z3.Const('k!nd', Val)
        fresh = lambda a: z3.And(a >= o.alloc, a < h.alloc)
        copied_opt = lambda f: z3.If(is_VRef(o.f(f, me)), z3.And(is_VRef(h.f(f, r)), fresh(v_a(h.f(f, r))), h.cls(v_a(h.f(f, r))) == o.cls(v_a(o.f(f, me)))),
                                     h.f(f, r) == o.f(f, me))
        return [
            ('memo-hit', z3.Implies(was, z3.And(r == v_a(o.val(memo, VRef(me))), *[h.arr[n] == o.arr[n] for n in h.arr]))),
            ('fresh-node', z3.Implies(z3.Not(was), z3.And(fresh(r), h.cls(r) == class_id(NODE)))),
            ('scalars', z3.Implies(z3.Not(was), z3.And(*[h.f(f, r) == o.f(f, me) for f in SCALARS]))),
            ('links-empty', z3.Implies(z3.Not(was), z3.And(*[z3.And(fresh(h.f(f, r)), h.bagof(h.f(f, r)) == EMPTY_BAG, h.len(h.f(f, r)) == 0,
                                                                    h.cls(h.f(f, r)) == CLS_LIST, h.own_obj(h.f(f, r)) == r, h.own_fld(h.f(f, r)) == field_id(f))
                                                             for f in ('children', 'parents', 'compromised_by')],
                                                   h.f('children', r) != h.f('parents', r), h.f('children', r) != h.f('compromised_by', r),
                                                   h.f('parents', r) != h.f('compromised_by', r)))),
            # the mutable per-node data of the copy is fresh: nothing is shared with the original
            ('tags-fresh', z3.Implies(z3.Not(was), z3.And(fresh(h.f('tags', r)), h.cls(h.f('tags', r)) == CLS_LIST,
                                                          h.len(h.f('tags', r)) == o.len(o.f('tags', me)), h.own_obj(h.f('tags', r)) == -1))),
            ('extras-fresh', z3.Implies(z3.Not(was), z3.And(fresh(h.f('extras', r)), h.cls(h.f('extras', r)) == CLS_DICT))),
            ('ttc-fresh-or-none', z3.Implies(z3.Not(was), copied_opt('ttc'))),
            ('attributes-fresh-or-none', z3.Implies(z3.Not(was), copied_opt('attributes'))),
            # content (first level; nested containers are fresh copies of the same class): same serialized content as the original
            ('tags-content', z3.Implies(z3.Not(was), FA([z3.Int('j!nd')], z3.Implies(z3.And(0 <= z3.Int('j!nd'), z3.Int('j!nd') < o.len(o.f('tags', me)),
                                                                                           z3.Not(is_VRef(o.at(o.f('tags', me), z3.Int('j!nd'))))),
                                                                                    h.at(h.f('tags', r), z3.Int('j!nd')) == o.at(o.f('tags', me), z3.Int('j!nd'))),
                                                        [h.at(h.f('tags', r), z3.Int('j!nd'))]))),
            ('extras-content', z3.Implies(z3.Not(was), dict_content(o, h, o.f('extras', me), h.f('extras', r)))),
            ('ttc-content', z3.Implies(z3.And(z3.Not(was), is_VRef(o.f('ttc', me))), dict_content(o, h, v_a(o.f('ttc', me)), v_a(h.f('ttc', r))))),
            ('attributes-content', z3.Implies(z3.And(z3.Not(was), is_VRef(o.f('attributes', me))),
                                              dict_content(o, h, v_a(o.f('attributes', me)), v_a(h.f('attributes', r))))),
            ('separation', z3.Implies(z3.Not(was), fresh_closed(h, o.alloc))),
            ('memo-updated', z3.Implies(z3.Not(was), z3.And(h.has(memo, VRef(me)), h.val(memo, VRef(me)) == VRef(r)))),
            ('memo-other-nodes', z3.Implies(z3.Not(was), FA([x], z3.Implies(z3.And(x >= 0, x < o.alloc, x != me, o.cls(x) != CLS_LIST, o.cls(x) != CLS_DICT, x != memo),
                                                                            z3.And(h.has(memo, VRef(x)) == o.has(memo, VRef(x)),
                                                                                   h.val(memo, VRef(x)) == o.val(memo, VRef(x)))), [h.has(memo, VRef(x)), h.val(memo, VRef(x))]))),
            ('old-objects-untouched', z3.And(*[FA([x], z3.Implies(z3.And(x >= 0, x < o.alloc, z3.BoolVal(True) if n not in DICT_ARRAYS else x != memo),
                                                                  z3.Select(h.arr[n], x) == z3.Select(o.arr[n], x)), [z3.Select(h.arr[n], x)])
                                               for n in h.arr if not z3.eq(h.arr[n], o.arr[n])], z3.BoolVal(True))),
        ]

    node_field_arrays = tuple('f_' + f for f in ('type', 'name', 'ttc', 'id', 'asset', 'children', 'parents', 'defense_status', 'existence_status',
                                                  'is_viable', 'is_necessary', 'compromised_by', 'mitre_info', 'tags', 'attributes', 'extras'))
    reg.add(Contract(MN + ':AttackGraphNode.__deepcopy__', {'self': Obj(NODE), 'memo': Dict(T.val, T.val)}, returns=Obj(NODE),
                     requires=requires, ensures=ensures,
                     modifies=LIST_ARRAYS + DICT_ARRAYS + ('cls', 'own_obj', 'own_fld') + node_field_arrays, allocates=True,
                     may_raise=('TypeError',), props=('C14',),
                     note='the asset is shared (the property allows sharing the model); containers of tags/extras/ttc/attributes are plain data '
                          '(DEEPCOPY assumed contract). TypeError on non-container field values is not excluded here (TYPES).'))
