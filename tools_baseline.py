"""python3-vt tools_baseline.py — record, per function under contract, the source hash and the obligations proved on the current
(unchanged) tree.  Used only to tell a proof regression on CHANGED source (timeout where a proof used to exist) from a slow
solver on unchanged source; committed, never written by the checks."""
import json, os, sys
sys.path.insert(0, os.path.dirname(os.path.abspath(__file__)))
from pyvc import prover
props = [json.loads(l)['id'] for l in open(os.path.join(os.path.dirname(os.path.abspath(__file__)), 'properties.jsonl'))]
out = {}
for p in props:
    pr = prover.run_property(p, 'quick')
    shas = {f['function']: f.get('sha256_16') for f in pr['functions']}
    for fn, names in pr['proved_now'].items():
        e = out.setdefault(fn, {'sha': shas.get(fn), 'proved': []})
        e['proved'] = sorted(set(e['proved']) | set(names))
    print(p, pr['n_discharged'], '/', pr['n_obligations'], 'failed', len(pr['failed']), 'unknown', len(pr['unknown']), 'unsupported', len(pr['unsupported']))
json.dump(out, open(os.path.join(os.path.dirname(os.path.abspath(__file__)), 'baseline_obligations.json'), 'w'), indent=0, sort_keys=True)
print(len(out), 'functions in baseline')
