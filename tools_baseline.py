"""python3-vt tools_baseline.py — record, per function under contract, the source hash and the obligations proved on the current
(unchanged) tree, and per property the hashes of the exact SMT queries that were proved.  Used only
 (a) to tell a proof regression on CHANGED source (timeout where a proof used to exist) from a slow solver on unchanged source,
 (b) to recognise an unstable E-matching run: a query whose text is identical to one proved here is never reported as failed.
Committed, never written by the checks.  Every property runs in a process of its own, exactly as `./check <id>` does, so that
the generated names (and hence the query hashes) are the same."""
import json, os, subprocess, sys
from concurrent.futures import ThreadPoolExecutor
ROOT = os.path.dirname(os.path.abspath(__file__))
CODE = """
import json, sys
sys.path.insert(0, %r)
from pyvc import prover
pr = prover.run_property(sys.argv[1], 'quick')
print('@@' + json.dumps({'proved_now': pr['proved_now'], 'hashes': pr['proved_hashes'], 'shas': {f['function']: f.get('sha256_16') for f in pr['functions']},
                         'n': [pr['n_discharged'], pr['n_obligations'], len(pr['failed']), len(pr['unknown']), len(pr['unsupported'])]}))
""" % ROOT
props = [json.loads(l)['id'] for l in open(os.path.join(ROOT, 'properties.jsonl'))]


def one(p):
    r = subprocess.run(['python3-vt', '-c', CODE, p], capture_output=True, text=True, cwd=ROOT)
    line = [l for l in r.stdout.split('\n') if l.startswith('@@')]
    if not line:
        raise SystemExit('baseline run of %s failed: %s' % (p, r.stderr[-500:]))
    return p, json.loads(line[0][2:])


out, hashes = {}, {}
with ThreadPoolExecutor(3) as ex:
    for p, d in ex.map(one, props):
        hashes[p] = d['hashes']
        for fn, names in d['proved_now'].items():
            e = out.setdefault(fn, {'sha': d['shas'].get(fn), 'proved': []})
            e['proved'] = sorted(set(e['proved']) | set(names))
        print(p, '%d / %d failed %d unknown %d unsupported %d' % tuple(d['n']))
out['__query_hashes__'] = hashes
json.dump(out, open(os.path.join(ROOT, 'baseline_obligations.json'), 'w'), indent=0, sort_keys=True)
print(len(out) - 1, 'functions in baseline')
