"""python3 tools_mut.py <file under maltoolbox/> <contract-substr> <<< 'old|||new'   (one mutation per line; run each on a scratch copy)
Developer self-test of the deductive side: applies a deliberate one-line change to a scratch copy of /repo's package and
prints what `pyvc.dev` reports for the named contract(s)."""
import os, shutil, subprocess, sys
rel, pat = sys.argv[1], sys.argv[2:]
for line in sys.stdin.read().split('\n'):
    if not line.strip():
        continue
    old, new = line.split('|||')
    old, new = old.replace('\\n', '\n'), new.replace('\\n', '\n')
    d = '/tmp/mutwt'
    shutil.rmtree(d, ignore_errors=True)
    os.makedirs(d)
    shutil.copytree('/repo/maltoolbox', d + '/maltoolbox')
    p = os.path.join(d, rel)
    s = open(p).read()
    if s.count(old) != 1:
        print('!! pattern occurs %d times: %r' % (s.count(old), old)); continue
    open(p, 'w').write(s.replace(old, new))
    env = dict(os.environ, VERIF_REPO=d)
    out = subprocess.run(['python3-vt', '-m', 'pyvc.dev'] + pat, env=env, capture_output=True, text=True, cwd=os.path.dirname(os.path.abspath(__file__)))
    print('== %r -> %r' % (old[:60], new[:60]))
    for l in out.stdout.split('\n'):
        if l.strip():
            print('   ', l[:200])
    shutil.rmtree(d, ignore_errors=True)
