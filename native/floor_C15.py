"""
Bounded stand-in for C15 (the language graph mirrors the language and over-approximates every attack graph).

Real code under test: LanguageGraph(spec) (= _generate_graph, process_step_expression, reverse_dep_chain), the query
methods of LanguageGraphAsset / LanguageGraph, and AttackGraph(lang_graph, model) for the over-approximation clause.
Reference: lib_lang (closure of `extends`, participating associations, association lookup, MAL typing of the generated
expressions), all read off the langspec dict.
"""
from __future__ import annotations
import copy, hashlib, itertools, json, os, random, sys
sys.path.insert(0, os.path.dirname(os.path.abspath(__file__)))
import common
from common import CaseResult
import lib_lang as L
from mini import field, step, var, collect, union, inter, diff, trans, sub

PROPERTY = "C15"
LG = "maltoolbox.language.languagegraph:LanguageGraph._generate_graph"
PSE = "maltoolbox.language.languagegraph:LanguageGraph.process_step_expression"
SCOPE = {
    "quick": "every language over <=3 types A,B,C: every inheritance forest (1/3/16) x every multiset of <=2 associations over "
             "ordered pairs of types incl. reflexive ones, two associations once with distinct and once with equal names "
             "(4/25/100) = 1679 structures, each (i) bare and (ii) saturated with one step per well-typed expression "
             "on every type, in three vocabularies (navigation: 1-2 hops, transitive, subType, a variable; + set operators; "
             "+ subType over a union), (ii) x 4 seeded models of 2-3 assets; "
             "error clause: every structure of <=2 types and a seeded quarter of the 3-type ones x every single dangling "
             "reference (super asset, association end(s), 12 step-expression shapes, directly and via '+>' in a sub-type); "
             "+ every one of the 1679 structures saturated a fourth time with one step per (well-typed expression, step "
             "OWNED by the type of the expression: its own o<T>, the inherited t of its root and o<ancestor>), e.g. "
             "field[Sub].<step declared on a super type of Sub>, x 4 seeded models (instances of every concrete type, "
             "super types of Sub included, behind the field); "
             "+ associations that SHARE ROLE NAMES: every forest over <=3 types x every ordered pair of association ends "
             "x 6 patterns of the second association re-using l0 / r0 (both, swapped, one of them on either end) x "
             "{distinct, equal association names}, kept when no type gets two fields of one name (3248 structures; "
             "includes two associations with the same name and the same two role names between different asset pairs, "
             "and a type that is called r in an earlier association and has a field r through a later one): bare and "
             "saturated (all operators, owned target steps) x 4 seeded models",
    "thorough": "same languages; 12 models of 1-3 assets each; error clause on every structure",
}
EXHAUSTIVE = {"quick": False, "thorough": False}
RULE = ("case = (types with parents, associations incl. their role names, mode, vocabulary, target steps (own / owned incl. "
        "inherited), dangling reference?, model seed); non-trivial when the language has "
        "inheritance or an association (structure/full) or is ill-formed (ill); distinct = distinct recipe")
ASSUMPTIONS = ["reference closure / participation / lookup / typing computed from the langspec dict (lib_lang)",
               "role names are unique per type (no type has, itself or through an ancestor, two fields of one name - MAL "
               "well-formedness); across associations role names and association names may repeat",
               "models keep links along associations that are used under a transitive operator acyclic (DESIGN defect (c) "
               "would make attack-graph generation run for ever otherwise); a model on which the classes factory, the model "
               "or the attack-graph generator raises is skipped for the over-approximation clause (other properties); when it "
               "is the generator that raises on a saturated language, the clause is evaluated for the first such model of a case (largest vocabulary of the structure only) on each "
               "single-step sub-language instead (one rejected step must not hide the edges of the others); all "
               "single-step sub-languages of a language share assets / associations, so one classes factory and model serve them",
               "any exception raised by LanguageGraph() counts as 'reported' for an ill-formed language"]
BUDGET_S = {"quick": 95, "thorough": 1500}
CHUNK = 40

NAMES = ["A", "B", "C"]


def structures():
    for n in (1, 2, 3):
        names = NAMES[:n]
        for f in L.forests(names):
            for s in L.assoc_sets(names):
                yield {"types": f, "assocs": s}


def structures_shared_roles():
    """structures whose two associations share at least one role name, well-formed ones only"""
    for n in (2, 3):
        names = NAMES[:n]
        for f in L.forests(names):
            for s in L.assoc_sets_shared_roles(names):
                if L.roles_unambiguous(L.c15_spec({"types": f, "assocs": s, "mode": "structure"})):
                    yield {"types": f, "assocs": s}


def ill_variants(st):
    """every single dangling reference that can be planted into structure st"""
    spec = L.c15_spec({"types": st["types"], "assocs": st["assocs"], "mode": "structure"})
    names = [t[0] for t in st["types"]]
    for n in names:
        yield {"kind": "super", "type": n, "to": "Nope"}
    for k in range(len(st["assocs"])):
        yield {"kind": "assoc", "k": k, "left": "Nope", "right": None}
        yield {"kind": "assoc", "k": k, "left": None, "right": "Nope"}
        yield {"kind": "assoc", "k": k, "left": "Nope", "right": "Nope2"}
    for n in names:
        F = L.fields_of(spec, n)
        exprs = [("unknown-step", step("nope")),
                 ("unknown-field", collect(field("nope"), step("t"))),
                 ("unknown-field-transitive", collect(trans("nope"), step("t"))),
                 ("unknown-variable", collect(var("nope"), step("t")))]
        if F:
            f, (tf, _) = sorted(F.items())[0]
            others = [x for x in names if not L.is_sub(spec, tf, x)]
            exprs += [("unknown-step-on-target", collect(field(f), step("nope"))),
                      ("unknown-field-second-hop", collect(collect(field(f), field("nope")), step("t"))),
                      ("unknown-field-union-rhs", collect(union(field(f), field("nope")), step("t"))),
                      ("unknown-field-union-lhs", collect(union(field("nope"), field(f)), step("t"))),
                      ("unknown-field-difference-rhs", collect(diff(field(f), field("nope")), step("t"))),
                      ("unknown-subtype", collect(sub("Nope", field(f)), step("t"))),
                      ("unknown-field-under-subtype", collect(sub(tf, field("nope")), step("t")))]
            if others:
                exprs.append(("step-of-unrelated-type", collect(field(f), step("o" + others[0]))))
        subs = [d for d in L.descendants(spec, n) if d != n]
        for (label, e) in exprs:
            yield {"kind": "step", "type": n, "exprs": [e], "extend_in": None, "label": label}
            if subs and label in ("unknown-step", "unknown-field", "unknown-step-on-target"):
                yield {"kind": "step", "type": n, "exprs": [e], "extend_in": subs[0], "label": label + "(+> in sub-type)"}


def cases(tier, seed):
    rnd = random.Random(seed)
    quick = tier == "quick"
    for st in structures():
        yield {"types": st["types"], "assocs": st["assocs"], "mode": "structure"}
        if st["assocs"]:
            for ops in ("nav", "sets", "all"):
                yield {"types": st["types"], "assocs": st["assocs"], "mode": "full", "ops": ops,
                       "models": 4 if quick else 12, "seed": rnd.randrange(1 << 30)}
        if len(st["types"]) <= 2 or not quick or rnd.random() < 0.25:
            for ill in ill_variants(st):
                yield {"types": st["types"], "assocs": st["assocs"], "mode": "ill", "ill": ill}
    rnd2 = random.Random(seed + 1)          # own stream: the recipes above stay what they were
    for st in structures():
        if st["assocs"]:
            yield {"types": st["types"], "assocs": st["assocs"], "mode": "full", "ops": "all", "targets": "owned",
                   "models": 4 if quick else 12, "seed": rnd2.randrange(1 << 30)}
    for st in structures_shared_roles():
        yield {"types": st["types"], "assocs": st["assocs"], "mode": "structure"}
        yield {"types": st["types"], "assocs": st["assocs"], "mode": "full", "ops": "all", "targets": "owned",
               "models": 4 if quick else 12, "seed": rnd2.randrange(1 << 30)}
    # the language without any asset but with an association
    yield {"types": [], "assocs": [["L0", "Nope", "l0", "Nope2", "r0"]], "mode": "structure", "expect_error": True}


# ---------------------------------------------------------------------------------------------------

def _dup_names(spec):
    seen = set()
    for a in spec["associations"]:
        k = (a["name"], a["leftAsset"], a["rightAsset"])
        if k in seen:
            return True
        seen.add(k)
    return False


def _tag(spec):
    """class of the association declarations, part of the failure signatures"""
    if _dup_names(spec):
        return "duplicate-association-name-same-ends"
    A = spec["associations"]
    for i, a in enumerate(A):
        for b in A[i + 1:]:
            if a["name"] == b["name"] and {a["leftField"], a["rightField"]} == {b["leftField"], b["rightField"]}:
                return "same-name-and-roles-different-ends"
    roles = [x for a in A for x in (a["leftField"], a["rightField"])]
    if len(set(roles)) < len(roles):
        return "shared-role-name"
    return "plain"


def _structure_clauses(r, spec, lg):
    names = [a["name"] for a in spec["assets"]]
    tag = _tag(spec)
    r.check("C15.assets", sorted(a.name for a in lg.assets) == sorted(names), LG,
            "language-graph assets %s, declared %s" % ([a.name for a in lg.assets], names), "assets-differ")
    node = {a.name: a for a in lg.assets}
    for n in names:
        if n not in node:
            return
    FQ = "maltoolbox.language.languagegraph:LanguageGraphAsset."
    for n in names:
        a, d = node[n], L.decl(spec, n)
        r.check("C15.inheritance", [s.name for s in a.super_assets] == ([d["superAsset"]] if d["superAsset"] else []), LG,
                "super_assets of %s" % n, "super-links")
        r.check("C15.inheritance", sorted(s.name for s in a.sub_assets) ==
                sorted(x["name"] for x in spec["assets"] if x["superAsset"] == n), LG, "sub_assets of %s" % n, "sub-links")
        r.check("C15.inheritance", sorted(x.name for x in a.get_all_subassets()) == sorted(L.descendants(spec, n)),
                FQ + "get_all_subassets", "get_all_subassets(%s) = %s" % (n, [x.name for x in a.get_all_subassets()]),
                "get_all_subassets")
        r.check("C15.inheritance", sorted(x.name for x in a.get_all_superassets()) == sorted(L.ancestors(spec, n)),
                FQ + "get_all_superassets", "get_all_superassets(%s) = %s" % (n, [x.name for x in a.get_all_superassets()]),
                "get_all_superassets")
        for m in names:
            r.check("C15.inheritance", a.is_subasset_of(node[m]) == L.is_sub(spec, n, m), FQ + "is_subasset_of",
                    "%s.is_subasset_of(%s) = %s" % (n, m, a.is_subasset_of(node[m])), "is_subasset_of")
    # associations
    want_all = sorted(L.assoc_sig(a) for a in spec["associations"])
    got_all = sorted(L.lg_assoc_sig(a) for a in lg.associations)
    r.check("C15.associations", got_all == want_all, LG,
            "language-graph associations %s, declared %s" % (got_all, want_all), "association-nodes:" + tag)
    for n in names:
        want = sorted(L.assoc_sig(spec["associations"][k]) for k in L.participating_assocs(spec, n))
        got = sorted(L.lg_assoc_sig(a) for a in node[n].associations)
        r.check("C15.associations", got == want, LG,
                "asset %s lists associations %s; it or an ancestor takes part in %s" % (n, got, want),
                "asset-association-list:" + tag)
    # lookup by role names and asset types, both orientations, and None when nothing matches
    fields = sorted({a["leftField"] for a in spec["associations"]} | {a["rightField"] for a in spec["associations"]}) + ["nope"]
    FL = "maltoolbox.language.languagegraph:LanguageGraph.get_association_by_fields_and_assets"
    for f1, f2, t1, t2 in itertools.product(fields, fields, names, names):
        want = L.lookup_ref(spec, f1, f2, t1, t2)
        try:
            got = lg.get_association_by_fields_and_assets(f1, f2, t1, t2)
        except Exception as e:
            r.check("C15.lookup", False, FL, "lookup(%s,%s,%s,%s) raised %s" % (f1, f2, t1, t2, type(e).__name__), "lookup-raises")
            continue
        if got is None:
            r.check("C15.lookup", not want, FL,
                    "lookup(%s,%s,%s,%s) = None although %s matches" % (f1, f2, t1, t2, want[:1]), "lookup-none-but-declared:" + tag)
        else:
            r.check("C15.lookup", L.lg_assoc_sig(got) in want, FL,
                    "lookup(%s,%s,%s,%s) = %s, matching declared associations: %s" % (f1, f2, t1, t2, L.lg_assoc_sig(got), want),
                    "lookup-wrong-association:" + tag)


def _link_clauses(r, spec, lg):
    node = {a.name: a for a in lg.assets}
    for a in lg.assets:
        want = L.steps_ref(spec, a.name)
        for st in a.attack_steps:
            # mirrored
            for cname, lst in st.children.items():
                for (tgt, _chain) in lst:
                    ok = cname == tgt.name and sum(1 for (p, _) in tgt.parents.get(st.name, []) if p is st) == \
                        sum(1 for (c, _) in st.children[cname] if c is tgt)
                    r.check("C15.links-mirrored", ok, LG,
                            "child link %s:%s -> %s:%s not mirrored in the target's parents" % (a.name, st.name, tgt.asset.name, tgt.name),
                            "child-not-in-parents")
            for pname, lst in st.parents.items():
                for (src, _chain) in lst:
                    ok = pname == src.name and sum(1 for (c, _) in src.children.get(st.name, []) if c is st) == \
                        sum(1 for (p, _) in st.parents[pname] if p is src)
                    r.check("C15.links-mirrored", ok, LG,
                            "parent link %s:%s <- %s:%s not mirrored in the source's children" % (a.name, st.name, src.asset.name, src.name),
                            "parent-not-in-children")
            # one link per reaches expression, to a step of that name
            d = want.get(st.name)
            exprs = d["reaches"]["stepExpressions"] if d and d["reaches"] else []
            got_names = sorted(c.name for lst in st.children.values() for (c, _) in lst)
            r.check("C15.links-mirrored", got_names == sorted(L.final_step(e) for e in exprs), LG,
                    "step %s:%s has child links to %s, its reaches clause names %s" % (a.name, st.name, got_names,
                                                                                      sorted(L.final_step(e) for e in exprs)),
                    "links-vs-reaches")


def _check_edges(r, spec, lg, g, mrec, note=""):
    """over-approximation clause on one generated attack graph g of language graph lg; returns the number of edges"""
    node = {a.name: a for a in lg.assets}
    edges = 0
    for nd in g.nodes:
        tx = str(nd.asset.type)
        src = next((s for s in node[tx].attack_steps if s.name == nd.name), None)
        for c in nd.children:
            edges += 1
            ty = str(c.asset.type)
            targets = src.children.get(c.name, []) if src is not None else []
            ok = any(L.is_sub(spec, ty, t.asset.name) for (t, _) in targets)
            if not ok:
                d = L.steps_ref(spec, tx).get(nd.name)
                shapes = sorted({L.shape(e) for e in (d["reaches"]["stepExpressions"] if d and d["reaches"] else [])
                                 if L.final_step(e) == c.name})
                r.check("C15.over-approximation", False, PSE,
                        "%smodel %s: attack-graph edge %s(%s):%s -> %s(%s):%s; the language graph links %s:%s only to %s"
                        % (note, json.dumps(mrec["assets"]), nd.asset.name, tx, nd.name, c.asset.name, ty, c.name, tx, nd.name,
                           [t.asset.name + ":" + t.name for (t, _) in targets]), "edge-not-predicted:" + ",".join(shapes))
            else:
                r.check("C15.over-approximation", True, PSE)
    return edges


def _single_step_languages(spec):
    """the sub-languages of spec that keep every asset, association, variable and every step WITHOUT a reaches clause
    but only ONE of the steps that have one: (asset name, step name, langspec dict)"""
    bare = copy.deepcopy(spec)
    for a in bare["assets"]:
        a["attackSteps"] = [s for s in a["attackSteps"] if not s["reaches"]]
    for a in spec["assets"]:
        for s in a["attackSteps"]:
            if s["reaches"]:
                thin = copy.deepcopy(bare)
                L.decl(thin, a["name"])["attackSteps"].append(copy.deepcopy(s))
                yield a["name"], s["name"], thin


def _overapprox_isolated(r, spec, mrec):
    """The generator raised on this model for the saturated language, which hides every edge of that model.  The clause
    is evaluated instead on every single-step sub-language (same assets / associations / variables, hence one classes
    factory and one model object for all of them, built from the step-free sub-language), with the language graph OF
    THAT sub-language; sub-languages on which the generator still raises are skipped."""
    from maltoolbox.language import LanguageGraph, LanguageClassesFactory
    from maltoolbox.attackgraph import AttackGraph
    edges = 0
    model = None
    for (an, sn, thin) in _single_step_languages(spec):
        try:
            lg_t = LanguageGraph(copy.deepcopy(thin))
            if model is None:
                model, _ = L.build_model(LanguageClassesFactory(lg_t), thin, mrec)
            g = AttackGraph(lg_t, model)
        except Exception:
            continue
        edges += _check_edges(r, thin, lg_t, g, mrec, "single-step sub-language %s:%s, " % (an, sn))
    return edges


def _overapprox(r, spec, lg, recipe):
    from maltoolbox.language import LanguageClassesFactory
    from maltoolbox.attackgraph import AttackGraph
    rnd = random.Random(recipe["seed"])
    try:
        lcf = LanguageClassesFactory(lg)
    except Exception:
        return 0
    edges = 0
    isolated = False
    for k in range(recipe["models"]):
        n = 2 if k == 0 else (rnd.randint(1, 3) if recipe["models"] > 3 else 3)
        mrec = L.random_model_recipe(spec, rnd, n, rnd.choice((0.5, 0.8, 1.0)))
        try:
            model, _ = L.build_model(lcf, spec, mrec)
        except Exception:
            continue
        try:
            g = AttackGraph(lg, model)
        except Exception:
            # only for the first such model of a case, and only for the largest saturation of a structure (targets = owned:
            # its steps include those of the nav / sets / all vocabularies) -- cost: one generation per step
            if not isolated and recipe.get("targets") == "owned":
                isolated = True
                edges += _overapprox_isolated(r, spec, mrec)
            continue
        edges += _check_edges(r, spec, lg, g, mrec)
    return edges


def run_case(recipe):
    from maltoolbox.language import LanguageGraph
    r = CaseResult()
    spec = L.c15_spec(recipe)
    mode = recipe["mode"]
    expect_error = mode == "ill" or recipe.get("expect_error")
    try:
        lg = LanguageGraph(copy.deepcopy(spec))
        exc = None
    except RecursionError as e:
        lg, exc = None, e
    except Exception as e:
        lg, exc = None, e
    if expect_error:
        label = recipe["ill"].get("label") or recipe["ill"]["kind"] if mode == "ill" else "association-without-any-declared-end"
        if mode == "ill" and recipe["ill"]["kind"] == "assoc":
            label = "association-end:" + "+".join(x for x in ("left", "right") if recipe["ill"].get(x))
        r.check("C15.errors-reported", exc is not None, LG,
                "ill-formed language (%s) accepted silently" % label, "silent:" + label)
        r.nontrivial_key = json.dumps(recipe, sort_keys=True)
        return r
    if exc is not None:
        tag = _tag(spec)
        msg = str(exc)
        shp = ""
        if mode == "full":
            # which expression was rejected
            for a in spec["assets"]:
                for s in a["attackSteps"]:
                    if s["reaches"] and json.dumps(s["reaches"]["stepExpressions"][0], indent=2) in msg:
                        shp = L.shape(s["reaches"]["stepExpressions"][0])
        r.check("C15.no-crash", False, LG, "well-formed language rejected: %s: %s" % (type(exc).__name__, " ".join(msg.split())[:300]),
                "well-formed-rejected:%s:%s:%s" % (type(exc).__name__, tag, shp))
        r.nontrivial_key = json.dumps(recipe, sort_keys=True)
        return r
    r.check("C15.no-crash", True, LG)
    _structure_clauses(r, spec, lg)
    _link_clauses(r, spec, lg)
    edges = 0
    if mode == "full":
        edges = _overapprox(r, spec, lg, recipe)
    if any(t[1] for t in recipe["types"]) or recipe["assocs"]:
        r.nontrivial_key = json.dumps(recipe, sort_keys=True)
    return r


if __name__ == "__main__":
    common.main(globals())
