"""
Bounded stand-in for C08 (viability / necessity = greatest fixed point, independent of node order).

Real code under test: maltoolbox.attackgraph.analyzers.apriori.calculate_viability_and_necessity on real
AttackGraph / AttackGraphNode objects.  Reference: Kleene iteration from TOP of the equations in the property
statement (written here from the statement, not from the code).
"""
from __future__ import annotations
import itertools, random, sys, os
sys.path.insert(0, os.path.dirname(os.path.abspath(__file__)))
import common
from common import CaseResult

PROPERTY = "C08"
FN = "maltoolbox.attackgraph.analyzers.apriori:calculate_viability_and_necessity"
SCOPE = {
    "quick": "every graph on <=2 nodes (18 node variants: or/and x {no ttc, Enabled-like, distribution}, defense x status "
             "{0,0.5,1} x ttc kinds, exist/notExist x status; all 2^(n*n) edge sets incl. self loops) x all node orders; "
             "+ 3000 seeded random graphs of 3-6 nodes x 3 node orders",
    "thorough": "every graph on <=2 nodes, a seeded 4% sample of all graphs on 3 nodes, 60000 random graphs of 3-8 nodes; "
                "each under up to 6 permutations of the node list",
}
EXHAUSTIVE = {"quick": False, "thorough": False}
RULE = ("case = (node variants, edge set, permutation of node list); non-trivial when the reference greatest fixed point "
        "labels at least one or/and node non-viable or unnecessary; distinct = distinct (variants, edges) up to the key "
        "printed by the harness")
ASSUMPTIONS = ["reference gfp computed by Kleene iteration from TOP over the equations of the property statement",
               "graphs are built by hand (nodes + mirrored edges) and registered with AttackGraph.add_node"]
BUDGET_S = {"quick": 100, "thorough": 1500}
CHUNK = 500

TTCS = {"none": None,
        "en": {"type": "function", "name": "Enabled", "arguments": []},
        "dis": {"type": "function", "name": "Disabled", "arguments": []},
        "exp": {"type": "function", "name": "Exponential", "arguments": [0.1]}}

VARIANTS = (
    [("or", None, t) for t in ("none", "dis", "exp")] +
    [("and", None, t) for t in ("none", "dis", "exp")] +
    [("defense", s, t) for s in (0.0, 0.5, 1.0) for t in ("dis", "exp")] +
    [("exist", s, "none") for s in (True, False)] +
    [("notExist", s, "none") for s in (True, False)] +
    [("exist", True, "exp"), ("notExist", True, "exp")]
)


def cases(tier, seed):
    rnd = random.Random(seed)
    # exhaustive small scope
    for n in (1, 2):
        pairs = [(i, j) for i in range(n) for j in range(n)]
        for vs in itertools.product(range(len(VARIANTS)), repeat=n):
            for mask in range(1 << len(pairs)):
                edges = [pairs[k] for k in range(len(pairs)) if mask >> k & 1]
                for perm in itertools.permutations(range(n)):
                    yield {"nodes": list(vs), "edges": edges, "order": list(perm)}
    n3 = 0.04 if tier == "thorough" else 0.0
    if n3:
        pairs = [(i, j) for i in range(3) for j in range(3)]
        for vs in itertools.product(range(len(VARIANTS)), repeat=3):
            for mask in range(1 << 9):
                if rnd.random() < n3:
                    edges = [pairs[k] for k in range(9) if mask >> k & 1]
                    perm = list(range(3)); rnd.shuffle(perm)
                    yield {"nodes": list(vs), "edges": edges, "order": perm}
    count = 3000 if tier == "quick" else 60000
    hi = 6 if tier == "quick" else 8
    for _ in range(count):
        n = rnd.randint(3, hi)
        vs = [rnd.randrange(len(VARIANTS)) for _ in range(n)]
        dens = rnd.choice((0.15, 0.3, 0.5))
        edges = [(i, j) for i in range(n) for j in range(n) if rnd.random() < dens]
        for _p in range(3):
            perm = list(range(n)); rnd.shuffle(perm)
            yield {"nodes": vs, "edges": edges, "order": perm}


def reference(vs, edges):
    """greatest solution of the equations in the property statement"""
    n = len(vs)
    parents = [[p for (p, c) in edges if c == i] for i in range(n)]
    def dist(i):
        t = TTCS[VARIANTS[vs[i]][2]]
        return bool(t) and t["name"] not in ("Enabled", "Disabled")
    V = [True] * n; N = [True] * n
    for i in range(n):
        ty, st, _ = VARIANTS[vs[i]]
        if ty == "defense":   V[i], N[i] = st != 1.0, st != 0.0
        elif ty == "exist":   V[i], N[i] = st, not st
        elif ty == "notExist": V[i], N[i] = not st, st
    changed = True
    while changed:
        changed = False
        for i in range(n):
            ty = VARIANTS[vs[i]][0]
            if ty not in ("or", "and") or not parents[i]:
                continue
            if ty == "or":
                v = any(V[p] for p in parents[i]); nn = all(N[p] or dist(p) for p in parents[i])
            else:
                v = all(V[p] for p in parents[i]); nn = any(N[p] or dist(p) for p in parents[i])
            v = v and V[i]; nn = nn and N[i]        # descending iteration from TOP
            if v != V[i] or nn != N[i]:
                V[i], N[i] = v, nn; changed = True
    return V, N


def run_case(recipe):
    from maltoolbox.attackgraph import AttackGraph, AttackGraphNode
    from maltoolbox.attackgraph.analyzers.apriori import calculate_viability_and_necessity
    import copy
    vs, edges, order = recipe["nodes"], [tuple(e) for e in recipe["edges"]], recipe["order"]
    n = len(vs)
    nodes = []
    for i in range(n):
        ty, st, t = VARIANTS[vs[i]]
        nd = AttackGraphNode(type=ty, name="n%d" % i, ttc=copy.deepcopy(TTCS[t]))
        if ty == "defense": nd.defense_status = st
        if ty in ("exist", "notExist"): nd.existence_status = st
        nodes.append(nd)
    for (p, c) in edges:
        nodes[p].children.append(nodes[c]); nodes[c].parents.append(nodes[p])
    g = AttackGraph()
    for k in order:
        g.add_node(nodes[k])
    r = CaseResult()
    try:
        calculate_viability_and_necessity(g)
    except RecursionError:
        r.check("C08.terminates", False, FN, "RecursionError")
        return r
    V, N = reference(vs, edges)
    gotV = [nodes[i].is_viable for i in range(n)]; gotN = [nodes[i].is_necessary for i in range(n)]
    def sig(kind, i):
        ty = VARIANTS[vs[i]][0]
        return "%s:%s:%s" % (kind, ty, "selfloop" if (i, i) in edges else "noself")
    for i in range(n):
        r.check("C08.gfp.viable", gotV[i] == V[i], FN,
                "node %d (%s): is_viable=%s, greatest fixed point says %s" % (i, VARIANTS[vs[i]], gotV[i], V[i]), sig("v", i))
        r.check("C08.gfp.necessary", gotN[i] == N[i], FN,
                "node %d (%s): is_necessary=%s, greatest fixed point says %s" % (i, VARIANTS[vs[i]], gotN[i], N[i]), sig("n", i))
    if any(VARIANTS[vs[i]][0] in ("or", "and") and not (V[i] and N[i]) for i in range(n)):
        r.nontrivial_key = "%s|%s" % (vs, sorted(edges))
    return r


if __name__ == "__main__":
    common.main(globals())
