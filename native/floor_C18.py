"""
Bounded stand-in for C18 (legacy model loaders agree with the native loader).

An abstract model (recipe: assets with ids / names / types / defense values, links, attackers with entry points) is
written three times by the harness:
  (n) in the native layout (the layout of tests/testdata/*.yml),
  (a) in the 0.0.39 layout   (`metaconcept`, associations {metaconcept, association:{field: ids}} or flat),
  (b) as a securiCAD .sCAD archive (zip with an .eom XML document, layout of tests/testdata/example_model.sCAD).
(a) and (b) are the INVERSE of the translators under test, written from the documented layouts.  Real code under
test: translators.updater.load_model_from_older_version, translators.securicad.load_model_from_scad_archive, and as
base line Model.load_from_file.  Reference: the abstract model itself (what the native file says); every loaded
model is observed through Model._to_dict() normalised to
  assets {id: (name, type)} + defense values, links {(association class, {(field, id), (field, id)})},
  attackers {attacker id: {asset id: set of steps}}.
Attacker names and model metadata are not compared (the .sCAD loader does not read them, the statement does not
list them).
"""
from __future__ import annotations
import itertools, os, random, re, shutil, sys, tempfile
sys.path.insert(0, os.path.dirname(os.path.abspath(__file__)))
import common
from common import CaseResult
import lib_trans as L

PROPERTY = "C18"
FN_NATIVE = "maltoolbox.model:Model._from_dict"
FN_ADD = "maltoolbox.model:Model.add_asset"
FN_LEGACY = "maltoolbox.translators.updater:load_model_from_version_0_0_39"
FN_SCAD = "maltoolbox.translators.securicad:load_model_from_scad_archive"
SCOPE = {
    "quick": "languages: mini (5 types, 8 associations: sub-types, reflexive, 2 duplicate-named pairs, 0..1 field) and "
             "coreLang 1.0.0; enumerated: every association x every pair of concrete (sub)types x both XML "
             "orientations as a one-link model (+ self-link where possible); entry-point shapes (1-3 steps on 1-2 "
             "assets, 1-2 attackers); id patterns (3 of {-7,0,1,13,2^62+} in every order); defense assignments of one "
             "asset (4^3); + 6000 seeded random models of <=4 (mini) / <=3 (coreLang) assets, <=3 links, <=2 attackers, "
             "each in json/yml, nested/flat/scalar 0.0.39 associations, random XML order and orientation",
    "thorough": "same enumerated part; 80000 random models of <=5 assets, <=5 links, <=3 attackers",
}
EXHAUSTIVE = {"quick": False, "thorough": False}
RULE = ("case = abstract model + layout options; non-trivial when the model has a link, an entry point or an explicit "
        "defense value; distinct = distinct (language, asset types, link classes and sizes, entry-point shape, id "
        "pattern, layout options)")
ASSUMPTIONS = [
    "the native layout, the 0.0.39 layout and the .sCAD layout are written by the harness from the documented layouts "
    "(tests/testdata/scad_equivalent_model.yml, updater.py field names, example_model.sCAD)",
    "json / yaml / zipfile / ElementTree round-trip what the harness writes",
    "a duplicate asset name is renamed '<name>:<id>' by the loader (add_asset documentation); assets are written in "
    "the same order in all three files (the order decides which duplicate is renamed)",
    "ids are distinct over assets and attackers (securiCAD object ids are)",
]
BUDGET_S = {"quick": 100, "thorough": 1500}
CHUNK = 100

BIG = 6772009123833071681
# directory creation on the disk-backed /tmp of the sandbox costs ~40 ms; use memory-backed storage when present
_TMPBASE = "/dev/shm" if os.path.isdir("/dev/shm") and os.access("/dev/shm", os.W_OK) else None


def _opts(rnd):
    return {"native_ext": rnd.choice(["json", "yml"]), "legacy_ext": rnd.choice(["json", "yml"]),
            "nested": rnd.random() < 0.6, "scalar": rnd.random() < 0.3, "scad_seed": rnd.randrange(1 << 30),
            "flip": None, "explicit_defaults": rnd.random() < 0.3}


def _fixed_opts(flip, k=0):
    return {"native_ext": "json" if k % 2 == 0 else "yml", "legacy_ext": "yml" if k % 2 == 0 else "json",
            "nested": k % 3 != 0, "scalar": k % 4 == 1, "scad_seed": k, "flip": flip, "explicit_defaults": False}


def cases(tier, seed):
    rnd = random.Random(seed)
    k = 0
    # E1: one link of every association between every pair of concrete (sub)types, both orientations
    for lang in ("mini", "core"):
        info = L.get_info(lang)
        for a in info.assocs:
            for tl in info.subtypes(a["L"]):
                for tr in info.subtypes(a["R"]):
                    for flip in (0, 1):
                        k += 1
                        rec = {"lang": lang, "name": "e1", "assets": [[tl, "l", 1, {}], [tr, "r", 2, {}]],
                               "links": [[a["cls"], a["lf"], [0], a["rf"], [1]]], "attackers": [],
                               "opts": _fixed_opts(flip, k)}
                        yield rec
                    if tl == tr:        # self-link: one asset on both sides
                        k += 1
                        yield {"lang": lang, "name": "e1s", "assets": [[tl, "l", 1, {}]],
                               "links": [[a["cls"], a["lf"], [0], a["rf"], [0]]], "attackers": [],
                               "opts": _fixed_opts(k % 2, k)}
    # E2: entry-point shapes (mini)
    info = L.get_info("mini")
    for t0, t1 in (("A", None), ("A1", "B1"), ("B", "C")):
        s0 = info.attack_steps(t0)
        s1 = info.attack_steps(t1) if t1 else []
        for n0 in range(1, min(3, len(s0)) + 1):
            for c0 in itertools.combinations(s0, n0):
                for c1 in [()] + [c for n1 in range(1, min(2, len(s1)) + 1) for c in itertools.combinations(s1, n1)]:
                    for natt in (1, 2):
                        for flip in (0, 1, None):
                            k += 1
                            assets = [[t0, "p", 1, {}]] + ([[t1, "q", 2, {}]] if t1 else [])
                            eps = [[0, list(c0)]] + ([[1, list(c1)]] if c1 else [])
                            atts = [["Attacker:%d" % (10 + j), 10 + j, eps if j == 0 else eps[::-1]] for j in range(natt)]
                            yield {"lang": "mini", "name": "e2", "assets": assets, "links": [], "attackers": atts,
                                   "opts": _fixed_opts(flip, k)}
    # E3: id patterns
    for ids in itertools.permutations([-7, 0, 1, 13, BIG], 3):
        for n in (2, 3):
            k += 1
            assets = [["A", "a", ids[0], {}], ["B", "b", ids[1], {}]]
            atts = [["Attacker:%d" % ids[2], ids[2], [[1, ["u"]]]]] if n == 2 else []
            if n == 3:
                assets.append(["C", "c", ids[2], {}])
            yield {"lang": "mini", "name": "e3", "assets": assets, "links": [["AB", "as", [0], "bs", [1]]],
                   "attackers": atts, "opts": _fixed_opts(None, k)}
    # E4: defense assignments on one A1 asset (d1 default 0, d2 default 1, d3 default 0)
    for vals in itertools.product([None, 0.0, 1.0, 0.5], repeat=3):
        for expl in (False, True):
            k += 1
            defs = {d: v for d, v in zip(("d1", "d2", "d3"), vals) if v is not None}
            o = _fixed_opts(None, k)
            o["explicit_defaults"] = expl
            yield {"lang": "mini", "name": "e4", "assets": [["A1", "a", 1, defs]], "links": [], "attackers": [], "opts": o}
    # random
    n_rand = 6000 if tier == "quick" else 80000
    big = tier != "quick"
    for j in range(n_rand):
        lang = "mini" if j % 8 < 5 else "core"
        info = L.get_info(lang)
        rec = L.gen_model(rnd, info, max_assets=(5 if big else (4 if lang == "mini" else 3)),
                          max_links=5 if big else 3, max_attackers=3 if big else 2)
        rec.update({"lang": lang, "name": "r%d" % j, "opts": _opts(rnd)})
        yield rec


# ---------------------------------------------------------------------------------------------------

def _load(f):
    stage = "load"
    try:
        m = f()
        if m is None:
            return ("none",)
        stage = "_to_dict"                      # a loaded model that cannot be observed is a failed load
        return ("ok", L.model_view(m))
    except Exception as e:                      # noqa: the loaders may raise anything; classified below
        msg = re.sub(r"abc\.\w+", "abc.T", str(e))
        msg = re.sub(r'"[^"]*"', '"..."', msg)
        msg = re.sub(r"'[^']*'", "'...'", msg)
        msg = re.sub(r"-?\d+", "N", msg)
        return ("exc", type(e).__name__, "%s:%s" % (stage, msg[:60]), str(e)[:200])


def _id0_late(order):
    """an object with id 0 that is preceded by an object with id >= 0 (where `asset_id or next_id` shows)"""
    seen_nonneg = False
    for i in order:
        if i == 0 and seen_nonneg:
            return True
        if i >= 0:
            seen_nonneg = True
    return False


def _judge(r, fmt, fn, got, ref, nat, rec, id0late):
    """compare one loaded model with the reference view"""
    tag = "|id0-late" if id0late else ""
    if got[0] == "exc":
        # what `asset_id or next_id` (defect k) leads to: a clash of ids, or None where the asset 0 is looked up
        k_like = id0late and (got[1] in ("ValidationError", "AttributeError") or
                              (got[1] == "ValueError" and "already in use" in got[3]))
        r.check("C18.%s.no-crash" % fmt, False, FN_ADD if k_like else fn,
                "%s raised %s: %s" % (fmt, got[1], got[3]),
                "id0-not-honoured:%s" % got[1] if k_like else "raises:%s:%s" % (got[1], got[2]))
        return
    if got[0] == "none":
        r.check("C18.%s.no-crash" % fmt, False, FN_ADD if id0late else fn,
                "%s loader returned None for a model the native loader accepts" % fmt,
                "id0-not-honoured:returns-None" if id0late else "returns-None")
        return
    r.check("C18.%s.no-crash" % fmt, True, fn)
    v = got[1]
    # assets
    ok, sig, msg = True, "", ""
    if set(v["assets"]) != set(ref["assets"]):
        ok, msg = False, "asset ids %s, expected %s" % (sorted(v["assets"]), sorted(ref["assets"]))
        sig = "id0-not-honoured" if (0 in ref["assets"] and 0 not in v["assets"]) else "ids"
    else:
        for i in ref["assets"]:
            if v["assets"][i][1] != ref["assets"][i][1]:
                ok, sig, msg = False, "type", "asset %d type %r, expected %r" % (i, v["assets"][i][1], ref["assets"][i][1])
            elif v["assets"][i][0] != ref["assets"][i][0]:
                ok, sig, msg = False, "name", "asset %d name %r, expected %r" % (i, v["assets"][i][0], ref["assets"][i][0])
            else:
                for d, val in ref["defenses"][i].items():
                    if v["defenses"].get(i, {}).get(d) != val:
                        ok, sig = False, "defense-value"
                        msg = "asset %d defense %s = %r, file says %r" % (i, d, v["defenses"].get(i, {}).get(d), val)
                if ok and nat is not None and nat["defenses"].get(i) != v["defenses"].get(i):
                    ok, sig = False, "defense-default"
                    msg = "asset %d defenses %r, native loader gives %r" % (i, v["defenses"].get(i), nat["defenses"].get(i))
    r.check("C18.%s.assets" % fmt, ok, FN_ADD if sig == "id0-not-honoured" else fn, msg, sig + tag)
    # links
    miss, extra = ref["links"] - v["links"], v["links"] - ref["links"]
    r.check("C18.%s.links" % fmt, not miss and not extra, FN_ADD if id0late else fn,
            "missing %s extra %s" % (sorted(miss)[:3], sorted(extra)[:3]),
            ("missing" if miss else "") + ("extra" if extra else "") + tag)
    # attackers (through _to_dict) and the raw tuples
    multi = any(len(s) > 1 for eps in ref["attackers"].values() for s in eps.values())
    ok = v["attackers"] == ref["attackers"]
    sig = "ok"
    if not ok:
        subset = set(v["attackers"]) == set(ref["attackers"]) and all(
            set(v["attackers"][a]) == set(ref["attackers"][a]) and
            all(v["attackers"][a][x] <= ref["attackers"][a][x] for x in ref["attackers"][a]) for a in ref["attackers"])
        sig = "steps-lost:several-steps-on-one-asset" if (subset and multi) else "other"
    r.check("C18.%s.attackers" % fmt, ok, FN_ADD if (id0late and sig == "other") else fn,
            "entry points %s, expected %s" % (_fmt_att(v["attackers"]), _fmt_att(ref["attackers"])),
            sig + (tag if sig == "other" else ""))
    if fmt == "scad":
        want = {a: sorted((x, tuple(sorted(s))) for x, s in eps.items()) for a, eps in ref["attackers"].items()}
        ok = v["tuples"] == want
        split = (not ok) and all(len({x for x, _ in v["tuples"].get(a, [])}) < len(v["tuples"].get(a, []))
                                 or v["tuples"].get(a) == want[a] for a in want) and set(v["tuples"]) == set(want)
        r.check("C18.scad.entry-point-tuples", ok, FN_ADD if (id0late and not split) else fn,
                "entry_points tuples %s, native loader gives one tuple per asset: %s" % (
                    {a: t for a, t in sorted(v["tuples"].items())}, {a: t for a, t in sorted(want.items())}),
                "one-tuple-per-xml-association" if split else "other" + tag)


def _fmt_att(d):
    return {a: {x: sorted(s) for x, s in sorted(e.items())} for a, e in sorted(d.items())}


def run_case(recipe):
    from maltoolbox.model import Model
    from maltoolbox.translators.updater import load_model_from_older_version
    from maltoolbox.translators.securicad import load_model_from_scad_archive
    info, lg, lcf = L.get_lang(recipe["lang"])
    o = recipe["opts"]
    ref = L.reference_view(recipe)
    r = CaseResult()
    tmp = tempfile.mkdtemp(prefix="c18-", dir=_TMPBASE)
    try:
        pn = os.path.join(tmp, "native." + o["native_ext"])
        pl = os.path.join(tmp, "legacy." + o["legacy_ext"])
        ps = os.path.join(tmp, "model.sCAD")
        L.write_dict(pn, L.native_dict(recipe, info))
        L.write_dict(pl, L.legacy_dict(recipe, info, nested=o["nested"], scalar=o["scalar"]))
        order = L.write_scad(ps, recipe, info, seed=o["scad_seed"], explicit_defaults=o["explicit_defaults"],
                             flip=o["flip"])
        nat = _load(lambda: Model.load_from_file(pn, lcf))
        leg = _load(lambda: load_model_from_older_version(pl, lcf, "0.0.39"))
        scad = _load(lambda: load_model_from_scad_archive(ps, lg, lcf))
    finally:
        shutil.rmtree(tmp, ignore_errors=True)
    file_late = _id0_late([a[2] for a in recipe["assets"]])
    # base line: the native loader yields what the native file says (else: defect of the native side, e.g. k)
    natv = nat[1] if nat[0] == "ok" else None
    base_ok = natv is not None and natv["assets"] == ref["assets"] and natv["links"] == ref["links"] \
        and natv["attackers"] == ref["attackers"] \
        and all(natv["defenses"].get(i, {}).get(d) == val for i in ref["defenses"] for d, val in ref["defenses"][i].items())
    r.check("C18.native.baseline", base_ok, FN_ADD if file_late else FN_NATIVE,
            "the native loader does not yield what the native file says: %s" % (nat[3] if nat[0] == "exc" else
                                                                                  sorted(natv["assets"]) if natv else nat[0]),
            ("id0-late" if file_late else "other") + (":" + nat[1] if nat[0] == "exc" else ""))
    _judge(r, "legacy", FN_LEGACY, leg, ref, natv if base_ok else None, recipe, file_late)
    _judge(r, "scad", FN_SCAD, scad, ref, natv if base_ok else None, recipe, _id0_late(order))
    if recipe["links"] or any(eps for (_n, _i, eps) in recipe["attackers"]) or any(a[3] for a in recipe["assets"]):
        ids = [a[2] for a in recipe["assets"]]
        r.nontrivial_key = "|".join([
            recipe["lang"], ",".join(a[0] for a in recipe["assets"]),
            ",".join("%s:%dx%d" % (l[0], len(l[2]), len(l[4])) for l in recipe["links"]),
            ";".join(",".join(str(len(s)) for (_k, s) in eps) for (_n, _i, eps) in recipe["attackers"]),
            "".join("0" if i == 0 else "-" if i < 0 else "+" for i in ids),
            "d" if any(a[3] for a in recipe["assets"]) else "",
            "%s%s%d%d%s" % (o["native_ext"][0], o["legacy_ext"][0], o["nested"], o["scalar"], o["flip"])])
    return r


if __name__ == "__main__":
    common.main(globals())
