"""
Bounded stand-in for C03 (step inheritance resolves override/extend correctly and the lookup is pure).

Real code under test: LanguageGraph._get_attacks_for_asset_type (and its callers LanguageGraph._generate_graph,
LanguageGraph.regenerate_graph, AttackGraph._generate_graph) on real LanguageGraph objects built from langspec
dicts.  Reference: lib_lang.steps_ref, the fold of the property statement over the ancestor chain (root first).
"""
from __future__ import annotations
import copy, itertools, json, os, random, sys
sys.path.insert(0, os.path.dirname(os.path.abspath(__file__)))
import common
from common import CaseResult
import lib_lang as L

PROPERTY = "C03"
FN = "maltoolbox.language.languagegraph:LanguageGraph._get_attacks_for_asset_type"
SCOPE = {
    "quick": "every inheritance chain of depth 1..4 over one step name and of depth 1..3 over two step names, each level "
             "declaring each step as absent / '->' / '+>' / without reaches clause (4^d resp. 16^d mixes) - plain and with a "
             "'+>' sibling under every level; with the asset list reversed: one step name all, two step names depth 2 all "
             "and a seeded quarter of depth 3; plus 800 seeded two-step chains of depth 4; every type looked up twice, in "
             "both orders, then regeneration and two attack-graph generations, each followed by another round of lookups",
    "thorough": "as quick, plus every chain of depth 4 over two step names (65536 mixes) plain and a seeded third of them "
                "with siblings / reversed asset list, plus 3000 seeded chains of depth 5-6",
}
EXHAUSTIVE = {"quick": True, "thorough": True}
RULE = ("case = (kinds per level and step, siblings?, reversed asset order?); non-trivial when some type below the root "
        "inherits a step it also redeclares (the fold does more than copy); distinct = distinct recipe")
ASSUMPTIONS = ["reference Steps(T) = fold of the declarations of T's ancestors from the root down (lib_lang.steps_ref), "
               "written from the property statement",
               "copy.deepcopy of a JSON-like dict yields an equal, disjoint dict (snapshot of the specification)",
               "logging disabled (no effect on state)"]
BUDGET_S = {"quick": 95, "thorough": 1500}
CHUNK = 100


def _mixes(depth, nsteps=2):
    per_level = ["".join(p) for p in itertools.product(L.KINDS, repeat=nsteps)]
    return itertools.product(per_level, repeat=depth)


def cases(tier, seed):
    rnd = random.Random(seed)
    for d in (1, 2, 3, 4):                                   # one step name: every mix up to depth 4 (340 chains)
        for m in _mixes(d, 1):
            for sib, rev in ((0, 0), (1, 0), (0, 1), (1, 1)):
                if d > 1 or not (sib or rev):
                    yield {"kinds": list(m), "sib": sib, "rev": rev}
    for d in (1, 2, 3):
        for m in _mixes(d):
            yield {"kinds": list(m), "sib": 0, "rev": 0}
    for d in (2, 3):
        for m in _mixes(d):
            yield {"kinds": list(m), "sib": 1, "rev": 0}
            if d == 2 or tier == "thorough" or rnd.random() < 0.25:
                yield {"kinds": list(m), "sib": 0, "rev": 1}
            if d == 2 or tier == "thorough":
                yield {"kinds": list(m), "sib": 1, "rev": 1}
    per_level = ["".join(p) for p in itertools.product(L.KINDS, repeat=2)]
    if tier == "thorough":
        for m in _mixes(4):
            yield {"kinds": list(m), "sib": 0, "rev": 0}
            if rnd.random() < 0.33:
                yield {"kinds": list(m), "sib": int(rnd.random() < 0.7), "rev": int(rnd.random() < 0.5)}
        for _ in range(3000):
            d = rnd.randint(5, 6)
            yield {"kinds": [rnd.choice(per_level) for _ in range(d)], "sib": int(rnd.random() < 0.5), "rev": int(rnd.random() < 0.3)}
    else:
        for _ in range(800):
            yield {"kinds": [rnd.choice(per_level) for _ in range(4)], "sib": int(rnd.random() < 0.5), "rev": int(rnd.random() < 0.3)}


def _classify(got, want):
    """pattern of a fold mismatch for one step definition"""
    if got is None:
        return "step-missing"
    if want is None:
        return "step-extra"
    gr, wr = got.get("reaches"), want.get("reaches")
    if (gr is None) != (wr is None):
        return "reaches-none-vs-some"
    if gr is not None:
        ge, we = gr["stepExpressions"], wr["stepExpressions"]
        if ge != we:
            if len(ge) > len(we) and ge[:len(we)] == we:
                return "reaches-has-extra-expressions-appended"
            if len(ge) < len(we):
                return "reaches-lost-expressions"
            return "reaches-differ"
        if gr["overrides"] != wr["overrides"]:
            return "override-flag"
    if got.get("type") != want.get("type"):
        return "type"
    return "other-attribute"


def _lookup(r, lg, t, phase):
    try:
        return lg._get_attacks_for_asset_type(t)
    except Exception as e:                                  # the property allows no exception here
        r.check("C03.no-crash", False, FN, "%s: lookup of %s raised %s: %s" % (phase, t, type(e).__name__, e),
                "lookup-raises:" + type(e).__name__)
        return None


def _compare(r, wants, t, got, phase):
    want = wants[t]
    ok = True
    for n in sorted(set(got) | set(want)):
        g, w = got.get(n), want.get(n)
        if g != w:
            ok = False
            ge = g and g.get("reaches") and len(g["reaches"]["stepExpressions"])
            we = w and w.get("reaches") and len(w["reaches"]["stepExpressions"])
            r.check("C03.fold", False, FN,
                    "%s: Steps(%s)[%s]: got %s reaches expressions (overrides=%s), the fold of the statement gives %s (overrides=%s)"
                    % (phase, t, n, ge, g and g.get("reaches") and g["reaches"]["overrides"], we,
                       w and w.get("reaches") and w["reaches"]["overrides"]), "fold:" + _classify(g, w))
    if ok:
        r.check("C03.fold", True, FN)
    return ok


_ALONE = {}     # per process: kinds of a chain prefix -> steps s/u its last type exposes in the language cut down to that prefix


def run_case(recipe):
    from maltoolbox.language import LanguageGraph, LanguageClassesFactory
    from maltoolbox.attackgraph import AttackGraph
    kinds = recipe["kinds"]
    spec = L.chain_language(kinds, recipe["sib"], recipe["rev"])
    spec0 = copy.deepcopy(spec)                              # snapshot before anything touches the specification
    r = CaseResult()
    types = [a["name"] for a in spec0["assets"]]
    chain = ["T%d" % i for i in range(len(kinds))]

    def pure(phase):
        ok = spec == spec0
        r.check("C03.spec-unchanged", ok, FN,
                "the language specification differs from its load-time snapshot after: " + phase,
                "spec-modified")
        return ok

    try:
        lg = LanguageGraph(spec)
    except Exception as e:
        r.check("C03.no-crash", False, "maltoolbox.language.languagegraph:LanguageGraph._generate_graph",
                "LanguageGraph() raised %s: %s" % (type(e).__name__, e), "construct-raises:" + type(e).__name__)
        return r
    assert lg._lang_spec is spec
    pure("LanguageGraph(spec)")
    wants = {t: L.steps_ref(spec0, t) for t in types}        # the fold of the statement, from the untouched snapshot
    spec_objs = L.containers(spec, "spec")                   # every dict / list of the live specification

    # lookups: every type, twice, in both orders; each answer against the fold, and against the first answer
    first = {}
    for phase, order in (("first pass", types), ("second pass (reverse order)", list(reversed(types)))):
        for t in order:
            got = _lookup(r, lg, t, phase)
            if got is None:
                continue
            _compare(r, wants, t, got, phase)
            if t in first:
                r.check("C03.repeatable", got == first[t], FN,
                        "%s: lookup of %s differs from the first answer" % (phase, t), "answer-changes-between-lookups")
            else:
                first[t] = copy.deepcopy(got)
            # separation: no dict / list of the answer is an object of the specification
            sh = [(p, spec_objs[i]) for i, p in L.containers(got, "result").items() if i in spec_objs]
            if sh:
                p = sh[0][0]
                kind = ("shared-stepExpressions-list" if p.endswith("['stepExpressions']") else
                        "shared-expression-dict" if "['stepExpressions'][" in p else "shared-other")
                r.check("C03.separation", False, FN,
                        "%s: lookup of %s returns %s which is the specification's own object %s" % (phase, t, p, sh[0][1]),
                        kind)
            else:
                r.check("C03.separation", True, FN)
        pure(phase)

    # language-graph step nodes carry the same answer
    for a in lg.assets:
        got = {s.name: s.attributes for s in a.attack_steps}
        if got != wants[a.name]:
            r.check("C03.fold", False, "maltoolbox.language.languagegraph:LanguageGraph._generate_graph",
                    "attack steps of language-graph asset %s differ from the fold" % a.name, "fold:language-graph-nodes")

    # independence of descendants / siblings: the same types in the language cut down to the chain prefix
    for i, t in enumerate(chain):
        key = "/".join(kinds[:i + 1])
        alone = _ALONE.get(key)
        if alone is None:
            cut = L.chain_language(kinds[:i + 1], False, False)
            try:
                lg2 = LanguageGraph(cut)
                alone = lg2._get_attacks_for_asset_type(t)
            except Exception as e:
                r.check("C03.no-crash", False, FN, "prefix language raised %s" % type(e).__name__,
                        "construct-raises:" + type(e).__name__)
                continue
            alone = _ALONE[key] = {n: copy.deepcopy(alone.get(n)) for n in ("s", "u")}
        here = first.get(t)
        if here is None:
            continue
        # the root of the full language declares more target steps (those of the cut-away levels); compare the
        # redeclarable steps only
        names = ("s", "u")
        r.check("C03.independent", {n: here.get(n) for n in names} == {n: alone.get(n) for n in names}, FN,
                "steps of %s differ between the full language and the language without its descendants/siblings" % t,
                "depends-on-descendants-or-siblings")

    # regeneration and attack-graph generation leave the specification alone and do not change the answers
    def again(phase):
        pure(phase)
        for t in types:
            got = _lookup(r, lg, t, phase)
            if got is not None and t in first:
                r.check("C03.repeatable", got == first[t], FN, "%s: lookup of %s differs from the first answer" % (phase, t),
                        "answer-changes-between-lookups")
    try:
        lg.regenerate_graph()
    except Exception as e:
        r.check("C03.no-crash", False, "maltoolbox.language.languagegraph:LanguageGraph.regenerate_graph",
                "regenerate_graph raised %s: %s" % (type(e).__name__, e), "regenerate-raises:" + type(e).__name__)
    again("regenerate_graph")
    try:
        lcf = LanguageClassesFactory(lg)
        mrec = {"assets": [[t, t.lower()] for t in types], "links": [[0, i, i + 1] for i in range(len(types) - 1)]}
        model, _ = L.build_model(lcf, spec0, mrec)
        edges = []
        for _k in range(2):
            g = AttackGraph(lg, model)
            edges.append(sorted((n.full_name, c.full_name) for n in g.nodes for c in n.children))
        r.check("C03.repeatable", edges[0] == edges[1], "maltoolbox.attackgraph.attackgraph:AttackGraph._generate_graph",
                "two attack graphs generated from one language graph and model have different edges (%d vs %d)"
                % (len(edges[0]), len(edges[1])), "attack-graph-edges-change-between-generations")
    except Exception as e:
        r.check("C03.no-crash", False, "maltoolbox.attackgraph.attackgraph:AttackGraph._generate_graph",
                "attack graph generation raised %s: %s" % (type(e).__name__, e), "attackgraph-raises:" + type(e).__name__)
    again("two attack-graph generations")

    # non-trivial: below the root some step is both inherited and redeclared
    seen = [False, False]
    nontrivial = False
    for ks in kinds:
        for j, k in enumerate(ks):
            if k != "A":
                if seen[j]:
                    nontrivial = True
                seen[j] = True
    if nontrivial or recipe["sib"]:
        r.nontrivial_key = json.dumps(recipe, sort_keys=True)
    return r


if __name__ == "__main__":
    common.main(globals())
