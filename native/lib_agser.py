"""
Helper shared by floor_C10 / floor_C14 / floor_C12 (agent agser).

* builds REAL AttackGraph objects from JSON recipes, either generated from a tiny MAL language + instance model
  (native/mini.py builders, real LanguageGraph / Model / AttackGraph constructors) or hand-built from
  AttackGraphNode objects without assets;
* applies an operation history through the repository's public API (attach_attackers, add_attacker, compromise,
  remove_node, analyzers, direct attribute writes that the library's users perform: labels, tags, extras, ttc);
* `view(g)`: an abstract, plain-python reading of a graph taken *directly from the object attributes* (never through
  to_dict), which is what the property statements talk about;
* `typed_eq`: deep equality that also compares types (bool/int/float/str are not interchangeable).

Nothing here re-implements repository behaviour.  Never print pjs objects: only str(asset.name).
"""
from __future__ import annotations
import copy, json, hashlib, logging, sys, os

sys.path.insert(0, os.path.dirname(os.path.abspath(__file__)))
import mini
from mini import asset, attack_step, assoc, lang, path, field, step, ttc_exp, TTC_DISABLED, TTC_ENABLED

logging.disable(logging.CRITICAL)

# ---------------------------------------------------------------------------------------------------
# tiny languages

TTCS = {
    "none": None,
    "en": {"type": "function", "name": "Enabled", "arguments": []},
    "dis": {"type": "function", "name": "Disabled", "arguments": []},
    "exp": {"type": "function", "name": "Exponential", "arguments": [0.1]},
    "sum": {"type": "addition",
            "lhs": {"type": "function", "name": "Exponential", "arguments": [0.25]},
            "rhs": {"type": "function", "name": "Gamma", "arguments": [2, 1.5]}},
}


def _lang_L0():
    """A{s:or tags+mitre+ttc, d:defense(suppress)}  B{t:and, e:exist}"""
    A = asset("A", steps=[
        attack_step("s", "or", reaches=[path(field("bs"), step("t"))], tags=["tg", "x y"], meta={"mitre": "T1078"},
                    ttc=copy.deepcopy(TTCS["exp"])),
        attack_step("d", "defense", ttc=copy.deepcopy(TTCS["dis"]), reaches=[step("s")], tags=["suppress"]),
    ])
    B = asset("B", steps=[
        attack_step("t", "and", reaches=[path(field("as"), step("s"))], ttc=copy.deepcopy(TTCS["sum"])),
        attack_step("e", "exist", requires=[field("as")], reaches=[step("t")]),
    ])
    return lang([A, B], [assoc("AB", "A", "as", "B", "bs")])


def _lang_L1():
    """A{s:or, ne:notExist}  B{t:and self-reaching, d:defense with mitre, Enabled}  C{c:or}"""
    A = asset("A", steps=[
        attack_step("s", "or", reaches=[path(field("bs"), step("t")), step("s")]),
        attack_step("ne", "notExist", requires=[field("bs")], reaches=[step("s")], tags=["it's", "suppressed"]),
    ])
    B = asset("B", steps=[
        attack_step("t", "and", reaches=[path(field("as"), step("s"))], tags=["True"]),
        attack_step("d", "defense", ttc=copy.deepcopy(TTCS["en"]), reaches=[step("t")], meta={"mitre": "M1030"}),
    ])
    C = asset("C", steps=[attack_step("c", "or", reaches=[path(field("cs"), step("c"))], ttc=copy.deepcopy(TTCS["exp"]),
                                      tags=["suppress"])])
    return lang([A, B, C], [assoc("AB", "A", "as", "B", "bs"), assoc("CC", "C", "cs", "C", "cs2")])


LANGS = {"L0": _lang_L0, "L1": _lang_L1}
ASSOC_ENDS = {"AB": ("A", "B"), "CC": ("C", "C")}


_LANG_CACHE = {}
INPLACE_OPS = ("tag_append", "ttc_set", "ttc_deep")


def build_lang(name, fresh=True):
    """(LanguageGraph, LanguageClassesFactory).  Generated nodes alias lists/dicts of the language spec (tags, ttc), so a
    history with in-place writes to those needs a fresh language (fresh=True); otherwise a per-process cached one is
    used and its spec is checked to be untouched (a change would be a harness error: cases must stay independent)."""
    if fresh:
        return mini.make_lang(LANGS[name]())
    ent = _LANG_CACHE.get(name)
    if ent is None:
        lg, lcf = mini.make_lang(LANGS[name]())
        ent = _LANG_CACHE[name] = (lg, lcf, json.dumps(lg._lang_spec, sort_keys=True, default=str))
    assert json.dumps(ent[0]._lang_spec, sort_keys=True, default=str) == ent[2], "cached language spec was mutated"
    return ent[0], ent[1]


def build_model_from(lcf, mrec):
    """mrec = {"assets": [[type, name, id|None, {defense: v}]], "links": [[assocname, lfield, [idx], rfield, [idx]]],
               "attackers": [[name, id|None, [[asset idx, [steps]]]]]}"""
    rec = {"assets": mrec.get("assets", []), "attackers": mrec.get("attackers", []), "links": []}
    for (an, lf, li, rf, ri) in mrec.get("links", []):
        l, r = ASSOC_ENDS[an]
        rec["links"].append([mini.assoc_class_name(lcf, an, l, r), lf, li, rf, ri])
    return mini.build_model(lcf, rec)


# ---------------------------------------------------------------------------------------------------
# graphs

def make_node(spec):
    from maltoolbox.attackgraph import AttackGraphNode
    n = AttackGraphNode(type=spec["type"], name=spec["name"], ttc=copy.deepcopy(TTCS[spec.get("ttc", "none")]))
    if "ds" in spec: n.defense_status = spec["ds"]
    if "es" in spec: n.existence_status = spec["es"]
    if "viable" in spec: n.is_viable = spec["viable"]
    if "necessary" in spec: n.is_necessary = spec["necessary"]
    if spec.get("mitre") is not None: n.mitre_info = spec["mitre"]
    if "tags" in spec: n.tags = list(spec["tags"])
    if "extras" in spec: n.extras = copy.deepcopy(spec["extras"])
    return n


class Built:
    __slots__ = ("graph", "model", "lang_graph", "lcf", "recipe", "op_log")


def build_graph(grec):
    """grec = {"kind": "gen", "lang": "L0", "model": mrec, "ops": [...]}
            | {"kind": "hand", "nodes": [nodespec], "edges": [[p, c]], "ops": [...]}"""
    from maltoolbox.attackgraph import AttackGraph
    b = Built()
    b.recipe = grec
    b.model = b.lang_graph = b.lcf = None
    if grec["kind"] == "gen":
        inplace = any(op[0] in INPLACE_OPS for op in grec.get("ops", [])) or grec.get("fresh_lang", False)
        b.lang_graph, b.lcf = build_lang(grec["lang"], fresh=inplace)
        b.model, _ = build_model_from(b.lcf, grec["model"])
        b.graph = AttackGraph(b.lang_graph, b.model)
    else:
        nodes = [make_node(s) for s in grec["nodes"]]
        for (p, c) in grec.get("edges", []):
            nodes[p].children.append(nodes[c]); nodes[c].parents.append(nodes[p])
        b.graph = AttackGraph()
        for n in nodes:
            b.graph.add_node(n)
    b.op_log = [apply_op(b.graph, op) for op in grec.get("ops", [])]
    return b


def fresh_model_for(grec):
    """a second, independent model equal to the one the graph was generated from (for 'load with model');
    for hand-built graphs a small unrelated model."""
    if grec["kind"] == "gen":
        _, lcf = build_lang(grec["lang"], fresh=False)
        m, _ = build_model_from(lcf, grec["model"])
    else:
        _, lcf = build_lang("L0", fresh=False)
        m, _ = build_model_from(lcf, {"assets": [["A", "a0", None]]})
    return m


def node_by_id(g, i):
    for n in g.nodes:
        if n.id == i:
            return n
    return None


def attacker_by_id(g, i):
    for a in g.attackers:
        if a.id == i:
            return a
    return None


def apply_op(g, op):
    """Apply one operation through the library API / the attribute writes its users perform.
    Nodes and attackers are addressed by id (looked up by scanning, not through the graph's indexes).
    Returns "ok", "skip" (target absent) or "raised:<Exc>" (library refused / failed; state is whatever it left)."""
    from maltoolbox.attackgraph import Attacker
    k = op[0]
    try:
        if k == "attach":
            g.attach_attackers()
        elif k == "analyze":
            from maltoolbox.attackgraph.analyzers.apriori import calculate_viability_and_necessity
            calculate_viability_and_necessity(g)
        elif k == "prune":
            from maltoolbox.attackgraph.analyzers.apriori import prune_unviable_and_unnecessary_nodes
            prune_unviable_and_unnecessary_nodes(g)
        elif k == "attacker":                       # ["attacker", name, id|None, [entry ids], [reached ids]]
            if any(node_by_id(g, i) is None for i in list(op[3]) + list(op[4])):
                return "skip"                       # unknown ids are C09/C11 business (defect ac), not part of these floors
            g.add_attacker(Attacker(name=op[1], entry_points=[], reached_attack_steps=[]), attacker_id=op[2],
                           entry_points=list(op[3]), reached_attack_steps=list(op[4]))
        elif k == "rm_attacker":
            a = attacker_by_id(g, op[1])
            if a is None: return "skip"
            g.remove_attacker(a)
        elif k in ("compromise", "undo"):           # [k, attacker id, node id]
            a, n = attacker_by_id(g, op[1]), node_by_id(g, op[2])
            if a is None or n is None: return "skip"
            (a.compromise if k == "compromise" else a.undo_compromise)(n)
        elif k == "add_node":                       # ["add_node", nodespec, [parent ids], [child ids]]
            n = make_node(op[1])
            ps = [node_by_id(g, i) for i in op[2]]; cs = [node_by_id(g, i) for i in op[3]]
            if any(x is None for x in ps + cs): return "skip"
            for p in ps: n.parents.append(p); p.children.append(n)
            for c in cs: n.children.append(c); c.parents.append(n)
            g.add_node(n)
        else:
            n = node_by_id(g, op[1])
            if n is None: return "skip"
            if k == "remove":
                g.remove_node(n)
            elif k == "flag":                       # ["flag", id, "is_viable"|"is_necessary", bool]
                setattr(n, op[2], op[3])
            elif k == "status":                     # ["status", id, "defense_status"|"existence_status", value]
                setattr(n, op[2], op[3])
            elif k == "tags":
                n.tags = list(op[2])
            elif k == "tag_append":
                n.tags.append(op[2])
            elif k == "extras":
                n.extras = copy.deepcopy(op[2])
            elif k == "extras_set":
                n.extras[op[2]] = copy.deepcopy(op[3])
            elif k == "extras_deep":                # mutate a nested container inside extras, if there is one
                for v in n.extras.values():
                    if isinstance(v, list): v.append(op[2]); break
                    if isinstance(v, dict): v["deep"] = op[2]; break
                else:
                    return "skip"
            elif k == "ttc_set":                    # in-place write into the ttc dict
                if not isinstance(n.ttc, dict): return "skip"
                n.ttc[op[2]] = copy.deepcopy(op[3])
            elif k == "ttc_deep":                   # in-place write into the arguments list of the ttc dict
                if not isinstance(n.ttc, dict) or not isinstance(n.ttc.get("arguments"), list): return "skip"
                n.ttc["arguments"].append(op[2])
            elif k == "mitre":
                n.mitre_info = op[2]
            else:
                raise AssertionError("unknown op %r" % (op,))
        return "ok"
    except AssertionError:
        raise
    except RecursionError:
        return "raised:RecursionError"
    except Exception as e:                          # the library refused or failed; not this floor's clause
        return "raised:" + type(e).__name__


# ---------------------------------------------------------------------------------------------------
# abstract view (read from attributes)

def view(g):
    """plain reading of the graph; raw attribute values are kept (types matter to the callers)"""
    nodes = {}
    order = []
    for n in g.nodes:
        order.append(n.id)
        nodes[n.id] = {
            "id": n.id, "name": n.name, "type": n.type, "ttc": copy.deepcopy(n.ttc),
            "defense_status": n.defense_status, "existence_status": n.existence_status,
            "is_viable": n.is_viable, "is_necessary": n.is_necessary, "mitre_info": n.mitre_info,
            "tags": n.tags if isinstance(n.tags, str) else copy.deepcopy(n.tags),
            "extras": copy.deepcopy(n.extras),
            "asset": None if n.asset is None else str(n.asset.name),
            "children": [c.id for c in n.children], "parents": [p.id for p in n.parents],
            "compromised_by": [a.id for a in n.compromised_by],
        }
    attackers = [{"id": a.id, "name": a.name, "entry": [n.id for n in a.entry_points],
                  "reached": [n.id for n in a.reached_attack_steps]} for a in g.attackers]
    return {"nodes": nodes, "order": order, "attackers": attackers,
            "next_node_id": g.next_node_id, "next_attacker_id": g.next_attacker_id}


def plain(x):
    """pjs literals -> python values (defense_status of generated nodes is a pjs literal wrapper)"""
    if x is None or type(x) in (bool, int, float, str):
        return x
    if isinstance(x, dict):
        return {plain(k): plain(v) for k, v in x.items()}
    if isinstance(x, (list, tuple)):
        return [plain(v) for v in x]
    if hasattr(x, "_value"):
        return plain(x._value)
    return x


def view_json(v):
    """canonical string of a view (for snapshots / hashing)"""
    return json.dumps(plain(v), sort_keys=True, default=str)


def view_hash(v):
    w = dict(v); w.pop("order", None)
    return hashlib.sha256(view_json(w).encode()).hexdigest()[:16]


def typed_eq(a, b):
    if type(a) is not type(b):
        return False
    if isinstance(a, dict):
        if len(a) != len(b): return False
        for k, v in a.items():
            hit = [kk for kk in b if type(kk) is type(k) and kk == k]
            if not hit or not typed_eq(v, b[hit[0]]): return False
        return True
    if isinstance(a, (list, tuple)):
        return len(a) == len(b) and all(typed_eq(x, y) for x, y in zip(a, b))
    return a == b


def ser_snapshot(g):
    """serialised form + counters + abstract view, as one string (for unchanged-checks)"""
    try:
        d = json.dumps(g._to_dict(), sort_keys=True, default=str)
    except Exception as e:                       # a graph the library itself cannot serialise any more
        d = "to_dict raised " + type(e).__name__
    return d + "|" + view_json(view(g))


def mutable_ids(x, acc=None):
    """ids of every mutable container (dict / list / set) reachable inside a plain value"""
    if acc is None: acc = set()
    if isinstance(x, dict):
        acc.add(id(x))
        for v in x.values(): mutable_ids(v, acc)
    elif isinstance(x, (list, set)):
        acc.add(id(x))
        for v in x: mutable_ids(v, acc)
    elif isinstance(x, tuple):
        for v in x: mutable_ids(v, acc)
    return acc
