"""
Bounded stand-in for C06 (a model can only hold what the language allows).

Real code under test: LanguageClassesFactory (schema generation + python_jsonschema_objects class building),
LanguageClassesFactory.get_association_by_signature, Model.get_asset_defenses, Model.add_association /
_validate_association, on languages generated here as langspec dicts (<=3 asset types).

Reference (from the statement and the language specification only): the defenses of a type are those it declares or
inherits, default 1 iff declared Enabled; a field of an association accepts exactly the declared type and its
sub-types; at most `max` assets per field; no asset twice in a field; no second link of the same class between the
same pair.
"""
from __future__ import annotations
import itertools, json, random, sys, os
sys.path.insert(0, os.path.dirname(os.path.abspath(__file__)))
import common
from common import CaseResult
import mini
import lib_model as L

PROPERTY = "C06"
SCOPE = {
    "quick": "ALL languages of the family: 2 types (unrelated / T1 extends T0) x one association (T0-T1, T0-T0 reflexive) x "
             "4x4 multiplicity forms (0..1, 1, *, 1..*) x 3 defense menus, and 2 same-named associations x 4 multiplicity "
             "pairs; + 4000 seeded random languages over <=3 types (5 inheritance shapes, defenses Enabled / Disabled / no TTC / Exponential "
             "declared at any level, 0..3 associations incl. duplicate names, flipped duplicates, reflexive). Per language: "
             "every type instantiated, every defense read / set in and out of [0,1], every (field, asset type) pair tried, "
             "max+1 assets, repeated asset, duplicate and overlapping link",
    "thorough": "as quick with 40000 random languages",
}
EXHAUSTIVE = {"quick": False, "thorough": False}
RULE = ("case = one language description (types, parents, declared defenses, associations with multiplicities); non-trivial = "
        "the language has a defense or an association; distinct = distinct description")
ASSUMPTIONS = [
    "languages are given as langspec dicts (mini.lang) to LanguageGraph / LanguageClassesFactory; well-formed: acyclic "
    "inheritance, field names unique, same-named associations differ in their (left, right) types, a sub-type does not "
    "redeclare an inherited defense",
    "an element put into a field counts as accepted only if the field then holds that very object (identity), not a copy",
    "wrong-type / over-maximum attempts use assets that are in the model and have no links yet (the library formats its "
    "error message with repr of the assets)",
]
BUDGET_S = {"quick": 100, "thorough": 1500}
CHUNK = 20
FN_A = "maltoolbox.language.classes_factory:LanguageClassesFactory._generate_assets"
FN_S = "maltoolbox.language.classes_factory:LanguageClassesFactory._generate_associations"
FN_G = "maltoolbox.language.classes_factory:LanguageClassesFactory.get_association_by_signature"
FN_V = "maltoolbox.model:Model._validate_association"
MULTS = [(0, 1), (1, 1), (0, None), (1, None)]
DEF_KINDS = {"e": mini.TTC_ENABLED, "d": mini.TTC_DISABLED, "n": None, "x": mini.ttc_exp(0.5)}
PARENTS = {1: [[None]], 2: [[None, None], [None, 0]],
           3: [[None, None, None], [None, 0, None], [None, 0, 0], [None, 0, 1], [None, None, 0]]}


def cases(tier, seed):
    rnd = random.Random(seed)
    menus = [[[], []], [["e", "d", "n", "x"], ["e"]], [["d"], ["n", "e", "x"]]]
    for parents in PARENTS[2]:
        for (l, r) in ((0, 1), (0, 0), (1, 0)):
            for lm in range(4):
                for rm in range(4):
                    for menu in menus:
                        yield {"parents": parents, "defenses": menu, "assocs": [["X", l, r, lm, rm]]}
        for (lm, rm) in ((0, 2), (2, 0), (1, 3), (2, 2)):
            yield {"parents": parents, "defenses": menus[1], "assocs": [["X", 0, 1, lm, rm], ["X", 0, 0, rm, lm]]}
            yield {"parents": parents, "defenses": menus[2], "assocs": [["X", 0, 1, lm, rm], ["X", 1, 0, rm, lm], ["Y", 1, 1, 2, 2]]}
    for _ in range(4000 if tier == "quick" else 40000):
        n = rnd.choice((1, 2, 3, 3, 3))
        parents = rnd.choice(PARENTS[n])
        defenses = [sorted(rnd.sample(["e", "d", "n", "x"], rnd.choice((0, 1, 1, 2, 3)))) for _ in range(n)]
        assocs, seen = [], set()
        for _a in range(rnd.choice((0, 1, 2, 2, 3))):
            name = rnd.choice(("X", "X", "Y", "zed"))
            l, r = rnd.randrange(n), rnd.randrange(n)
            if (name, l, r) in seen: continue
            seen.add((name, l, r))
            assocs.append([name, l, r, rnd.randrange(4), rnd.randrange(4)])
        yield {"parents": parents, "defenses": defenses, "assocs": assocs}


def build_spec(recipe):
    n = len(recipe["parents"])
    assets = []
    for i in range(n):
        steps = [mini.attack_step("s%d" % i, "or")] + \
                [mini.attack_step("%s%d" % (k, i), "defense", ttc=DEF_KINDS[k]) for k in recipe["defenses"][i]]
        p = recipe["parents"][i]
        assets.append(mini.asset("T%d" % i, sup=None if p is None else "T%d" % p, steps=steps))
    assocs = [mini.assoc(name, "T%d" % l, "f%dl" % j, "T%d" % r, "f%dr" % j, MULTS[lm], MULTS[rm])
              for j, (name, l, r, lm, rm) in enumerate(recipe["assocs"])]
    return mini.lang(assets, assocs)


def is_sub(recipe, x, t):
    """type index x is t or a (transitive) sub-type of t"""
    while x is not None:
        if x == t: return True
        x = recipe["parents"][x]
    return False


def run_case(recipe):
    from maltoolbox.model import Model
    from maltoolbox.exceptions import DuplicateModelAssociationError, ModelAssociationException
    r = CaseResult()
    spec = build_spec(recipe)
    n = len(recipe["parents"])
    try:
        lg, lcf = mini.make_lang(spec)
    except Exception as e:
        r.check("C06.asset-types", False, FN_A, "building the classes raised %s: %s" % (L.exc_name(e), str(e)[:150]),
                "build:" + L.exc_name(e))
        return r
    names = ["T%d" % i for i in range(n)]
    inh = "inherits" if any(p is not None for p in recipe["parents"]) else "flat"

    # ---- asset types ----
    exposed = sorted(lcf.json_schema["definitions"]["LanguageAsset"]["definitions"].keys())
    r.check("C06.asset-types", exposed == sorted(names), FN_A, "asset types exposed %s, language has %s" % (exposed, names), "set")
    m = Model("m", lcf)
    objs = {}                # type index -> 3 live assets
    for i in range(n):
        objs[i] = []
        for k in range(3):
            try:
                a = getattr(lcf.ns, names[i])(name="%s_%d" % (names[i], k))
                m.add_asset(a)
                objs[i].append(a)
            except Exception as e:
                r.check("C06.asset-types", False, FN_A, "type %s cannot be instantiated: %s" % (names[i], L.exc_name(e)), "instantiate:" + L.exc_name(e))
                return r
        a = objs[i][0]
        r.check("C06.asset-types", str(a.type) == names[i] and type(a).__name__ == names[i], FN_A,
                "instance of %s says type %s / class %s" % (names[i], str(a.type), type(a).__name__), "type-field")
        for j in range(n):
            want = is_sub(recipe, i, j)
            got = isinstance(a, getattr(lcf.ns, names[j]))
            r.check("C06.asset-types", got == want, FN_A, "isinstance(%s instance, %s) is %s" % (names[i], names[j], got),
                    "isinstance:%s" % ("missing" if want else "spurious"))

    # ---- defenses: names, defaults, range ----
    for i in range(n):
        want = L.spec_defenses(spec, names[i])
        a = objs[i][0]
        try:
            got = m.get_asset_defenses(a, include_defaults=True)
            got = {str(k): float(v) for k, v in got.items()}
        except Exception as e:
            r.check("C06.defenses", False, "maltoolbox.model:Model.get_asset_defenses", "%s: get_asset_defenses raised %s" % (names[i], L.exc_name(e)),
                    "raised:%s:%s" % (L.exc_name(e), inh))
            continue
        own = {d for d in want if d.endswith(str(i))}
        if set(got) != set(want):
            r.check("C06.defenses", False, FN_A, "%s exposes defenses %s, language gives it %s" % (names[i], sorted(got), sorted(want)),
                    "names:%s" % ("inherited-missing" if set(want) - set(got) - own else "differ"))
        else:
            bad = [d for d in want if got[d] != want[d]]
            r.check("C06.defenses", not bad, FN_A, "%s defaults %s, expected %s" % (names[i], got, want),
                    "default:%s" % ("+".join(sorted({b[0] for b in bad}))))
            for d in want:
                try:
                    direct = float(getattr(a, d))
                except Exception as e:
                    direct = L.exc_name(e)
                r.check("C06.defenses", direct == want[d], FN_A, "%s.%s reads %r, default should be %r" % (names[i], d, direct, want[d]),
                        "attribute-default")
            nd = m.get_asset_defenses(a, include_defaults=False)
            r.check("C06.defenses", not nd, "maltoolbox.model:Model.get_asset_defenses", "fresh %s reports non-default defenses %s" % (names[i], list(nd)), "fresh-nondefault")
        for d in sorted(set(got) & set(want)):
            b = objs[i][1]
            for val in (0.0, 1.0, 0.3):
                try:
                    setattr(b, d, val); ok = float(getattr(b, d)) == val
                except Exception as e:
                    ok = False
                r.check("C06.defense-range", ok, FN_A, "%s.%s = %r not accepted" % (names[i], d, val), "in-range-rejected")
            for val in (-0.1, 1.5, 2, -1):
                try:
                    setattr(b, d, val); rej = False
                except Exception:
                    rej = True
                now = float(getattr(b, d))
                r.check("C06.defense-range", rej and now == 0.3, FN_A,
                        "%s.%s = %r %s, value now %r" % (names[i], d, val, "rejected" if rej else "accepted", now),
                        "out-of-range-accepted" if not rej else "value-changed-by-rejected-set")
    for cl in ("defenses", "defense-range"): r.clauses.setdefault("C06." + cl, True)

    # ---- association classes ----
    sigs = [(name, l, rr) for (name, l, rr, _, _) in recipe["assocs"]]
    cnames = []
    for j, (name, l, rr, lm, rm) in enumerate(recipe["assocs"]):
        dup = sum(1 for s in sigs if s[0] == name) > 1
        try:
            cn = lcf.get_association_by_signature(name, names[l], names[rr])
            cls = getattr(lcf.ns, cn)
            s = cls()
            fields = sorted(str(k) for k in m.get_association_field_names(s))
        except Exception as e:
            r.check("C06.association-classes", False, FN_G, "association %s(%s,%s): %s %s" % (name, names[l], names[rr], L.exc_name(e), str(e)[:100]),
                    "lookup:%s:%s" % (L.exc_name(e), "dup-name" if dup else "single"))
            cnames.append(None); continue
        cnames.append(cn)
        r.check("C06.association-classes", fields == sorted(["f%dl" % j, "f%dr" % j]), FN_S,
                "class %s has fields %s, expected f%dl/f%dr" % (cn, fields, j, j), "fields:%s" % ("dup-name" if dup else "single"))
        if (name, rr, l) not in sigs or l == rr:
            try:
                cf = lcf.get_association_by_signature(name, names[rr], names[l])
            except Exception as e:
                cf = L.exc_name(e)
            r.check("C06.association-classes", cf == cn, FN_G, "flipped signature of %s gives %s" % (cn, cf), "flipped")
    live = [c for c in cnames if c is not None]
    r.check("C06.association-classes", len(set(live)) == len(live), FN_S, "association classes %s are not pairwise distinct" % cnames, "not-distinct")
    try:
        lcf.get_association_by_signature("NoSuchAssociation", names[0], names[0]); unk = False
    except LookupError:
        unk = True
    except Exception:
        unk = False
    r.check("C06.association-classes", unk, FN_G, "unknown association name does not raise LookupError", "unknown-name")

    # ---- what a field accepts (before any link exists) ----
    def try_fill(cn, j, left_objs, right_objs):
        """(association or None, error name or None); accepted only if the fields hold exactly these objects"""
        s = getattr(lcf.ns, cn)()
        try:
            setattr(s, "f%dl" % j, list(left_objs)); setattr(s, "f%dr" % j, list(right_objs))
            gl, gr = list(getattr(s, "f%dl" % j)), list(getattr(s, "f%dr" % j))
        except Exception as e:
            return None, L.exc_name(e)
        if len(gl) != len(left_objs) or len(gr) != len(right_objs) or any(x is not y for x, y in zip(gl + gr, list(left_objs) + list(right_objs))):
            return s, "COPIED"
        return s, None

    def undo(s):            # take an association the model should not have accepted out again (best effort)
        try:
            m.remove_association(s)
        except Exception:
            pass

    def snapshot():
        return json.dumps(m._to_dict()["associations"], sort_keys=True)

    for j, (name, l, rr, lm, rm) in enumerate(recipe["assocs"]):
        cn = cnames[j]
        if cn is None: continue
        for side, decl, other in (("l", l, rr), ("r", rr, l)):
            for x in range(n):
                allowed = is_sub(recipe, x, decl)
                lo, ro = ([objs[x][0]], [objs[other][1]]) if side == "l" else ([objs[other][1]], [objs[x][0]])
                before = snapshot()
                s, err = try_fill(cn, j, lo, ro)
                kind = "declared" if x == decl else ("subtype" if allowed else ("supertype" if is_sub(recipe, decl, x) else "unrelated"))
                if allowed:
                    r.check("C06.field-types", err is None, FN_S, "%s.f%d%s rejects a %s (%s): %s" % (cn, j, side, names[x], kind, err),
                            "%s-rejected:%s" % (kind, err))
                else:
                    inmodel = False
                    if err is None or err == "COPIED":       # not refused on assignment: the model must refuse it
                        e2 = None
                        try:
                            m.add_association(s)
                        except Exception as e:
                            e2 = e
                        inmodel = e2 is None
                        if inmodel: undo(s)
                    r.check("C06.field-types", not inmodel and snapshot() == before, FN_S,
                            "%s.f%d%s (declared %s) took a %s (%s) and the model accepted the link" % (cn, j, side, names[decl], names[x], kind),
                            "%s-accepted" % kind)
    r.clauses.setdefault("C06.field-types", True)

    # ---- maximum multiplicity ----
    for j, (name, l, rr, lm, rm) in enumerate(recipe["assocs"]):
        cn = cnames[j]
        if cn is None: continue
        for side, decl, other, mult in (("l", l, rr, MULTS[lm]), ("r", rr, l, MULTS[rm])):
            mx = mult[1]
            many = objs[decl][:(mx + 1 if mx is not None else 3)]
            one = [objs[other][2]]
            s, err = try_fill(cn, j, many, one) if side == "l" else try_fill(cn, j, one, many)
            if mx is None:
                r.check("C06.multiplicity", err is None, FN_S, "%s.f%d%s is unbounded but refused 3 assets: %s" % (cn, j, side, err), "unbounded-refused")
            else:
                r.check("C06.multiplicity", err is not None and err != "COPIED", FN_S,
                        "%s.f%d%s has maximum %d but took %d assets" % (cn, j, side, mx, mx + 1), "over-max-accepted")
                s2, err2 = try_fill(cn, j, many[:mx], one) if side == "l" else try_fill(cn, j, one, many[:mx])
                r.check("C06.multiplicity", err2 is None, FN_S, "%s.f%d%s refused %d asset(s) (max %d): %s" % (cn, j, side, mx, mx, err2), "at-max-refused")
    r.clauses.setdefault("C06.multiplicity", True)

    # ---- Model: repeated asset in a field, duplicate link ----
    for j, (name, l, rr, lm, rm) in enumerate(recipe["assocs"]):
        cn = cnames[j]
        if cn is None: continue
        a, b = objs[l][0], objs[rr][1]
        s, err = try_fill(cn, j, [a], [b])
        if err is not None: continue
        before = snapshot()
        try:
            m.add_association(s); e1 = None
        except Exception as e:
            e1 = e
        if not r.check("C06.valid-link", e1 is None and snapshot() != before, "maltoolbox.model:Model.add_association",
                       "valid link %s(%s, %s) refused: %s" % (cn, names[l], names[rr], L.exc_name(e1) if e1 else "no effect"), "refused"):
            continue
        after = snapshot()
        # the same pair again, in a new association object
        s2, _ = try_fill(cn, j, [a], [b])
        try:
            m.add_association(s2); e2 = None
        except Exception as e:
            e2 = e
        r.check("C06.no-duplicate-link", isinstance(e2, DuplicateModelAssociationError) and snapshot() == after, FN_V,
                "second %s link between the same two assets: %s" % (cn, "accepted" if e2 is None else L.exc_name(e2)),
                "same-pair:" + ("accepted" if e2 is None else L.exc_name(e2)))
        if e2 is None: undo(s2)
        # overlapping: a larger left side that contains the pair (only when the field can hold 2)
        if MULTS[lm][1] is None:
            s3, err3 = try_fill(cn, j, [a, objs[l][2]], [b])
            if err3 is None:
                try:
                    m.add_association(s3); e3 = None
                except Exception as e:
                    e3 = e
                r.check("C06.no-duplicate-link", isinstance(e3, DuplicateModelAssociationError) and snapshot() == after, FN_V,
                        "%s link whose sides contain an already linked pair: %s" % (cn, "accepted" if e3 is None else L.exc_name(e3)),
                        "overlap:" + ("accepted" if e3 is None else L.exc_name(e3)))
                if e3 is None: undo(s3)
            # the same asset twice in the field
            c = objs[l][2]
            s4, err4 = try_fill(cn, j, [c, c], [objs[rr][2] if rr != l else objs[rr][1]])
            if err4 is None:
                try:
                    m.add_association(s4); e4 = None
                except Exception as e:
                    e4 = e
                r.check("C06.no-repeat", isinstance(e4, ModelAssociationException) and snapshot() == after, FN_V,
                        "%s link with one asset twice in a field: %s" % (cn, "accepted" if e4 is None else L.exc_name(e4)),
                        "repeat:" + ("accepted" if e4 is None else L.exc_name(e4)))
                if e4 is None: undo(s4)
            else:
                r.check("C06.no-repeat", err4 != "COPIED", FN_S, "repeated asset was copied on assignment", "repeat:copied")
        m.remove_association(s)
    for cl in ("asset-types", "defenses", "defense-range", "association-classes", "field-types", "multiplicity", "valid-link",
               "no-duplicate-link", "no-repeat"):
        r.clauses.setdefault("C06." + cl, True)
    if recipe["assocs"] or any(recipe["defenses"]):
        r.nontrivial_key = common.recipe_hash(recipe)
    return r


if __name__ == "__main__":
    common.main(globals())
