"""
Bounded stand-in for C06 (a model can only hold what the language allows).

Real code under test: LanguageClassesFactory (schema generation + python_jsonschema_objects class building),
LanguageClassesFactory.get_association_by_signature, Model.get_asset_defenses, Model.add_association /
_validate_association, on languages generated here as langspec dicts (<=3 asset types).

Reference (from the statement and the language specification only): the defenses of a type are those it declares or
inherits, default 1 iff declared Enabled; a field of an association accepts exactly the declared type and its
sub-types; at most `max` assets per field; no asset twice in a field; no second link of the same class between the
same pair - whichever of the links of that class the model holds has the pair; every association of the language is
exposed by exactly one generated class that has exactly its two fields.
"""
from __future__ import annotations
import itertools, json, random, sys, os
sys.path.insert(0, os.path.dirname(os.path.abspath(__file__)))
import common
from common import CaseResult
import mini
import lib_model as L

PROPERTY = "C06"
SCOPE = {
    "quick": "ALL languages of the family: 2 types (unrelated / T1 extends T0) x one association (T0-T1, T0-T0 reflexive) x "
             "4x4 multiplicity forms (0..1, 1, *, 1..*) x 3 defense menus, and 2 same-named associations x 4 multiplicity "
             "pairs; + 4000 seeded random languages over <=3 types (5 inheritance shapes, defenses Enabled / Disabled / no TTC / Exponential "
             "declared at any level, unrelated types also with SHARED defense names declared differently, 0..3 associations incl. duplicate names, flipped duplicates, reflexive). Per language: "
             "every type instantiated, every defense read / set in and out of [0,1], every (field, asset type) pair tried, "
             "max+1 assets, repeated asset (as the first link of its class and next to a held one), duplicate and overlapping link; "
             "+ SAME-SIGNATURE associations (same name AND same (left, right) types, told apart by their field names only): "
             "ALL of 2 type shapes x 3 type pairs x 6 multiplicity combinations x {alone, + same name flipped / other types, "
             "+ a third of the same signature, + another name}, and 1500 seeded random languages with 1-4 associations where "
             "signatures may repeat. Per association class additionally: the model HOLDS 2 and then 3 links of the class "
             "(disjoint pairs) and a duplicate / overlapping (left-side and right-side) link is attempted against EACH held "
             "link (first and later ones)",
    "thorough": "as quick with 40000 random languages and 15000 random languages with repeated signatures",
}
EXHAUSTIVE = {"quick": False, "thorough": False}
RULE = ("case = one language description (types, parents, declared defenses, associations with multiplicities); non-trivial = "
        "the language has a defense or an association; distinct = distinct description. Associations of one language "
        "may share their name, and also their name and both asset types (field names f<j>l / f<j>r are unique per "
        "association). Models: per association class 1, 2 and 3 links held at the same time, duplicate attempts against "
        "every held link")
ASSUMPTIONS = [
    "languages are given as langspec dicts (mini.lang) to LanguageGraph / LanguageClassesFactory; well-formed: acyclic "
    "inheritance, field names unique (same-named associations differ in their (left, right) types or, same-signature "
    "class, in their field names only), a sub-type does not redeclare an inherited defense",
    "the generated association classes are the leaf entries of json_schema['definitions']['LanguageAssociation'] (an "
    "entry with 'definitions' is a group of same-named associations, its sub-entries are the classes); for associations "
    "with the same name and the same two types get_association_by_signature cannot tell them apart: it only has to "
    "return one of their classes, the classes themselves are located by their field names",
    "an element put into a field counts as accepted only if the field then holds that very object (identity), not a copy",
    "wrong-type / over-maximum attempts use assets that are in the model and have no links yet (the library formats its "
    "error message with repr of the assets)",
]
BUDGET_S = {"quick": 100, "thorough": 1500}
CHUNK = 20
FN_A = "maltoolbox.language.classes_factory:LanguageClassesFactory._generate_assets"
FN_S = "maltoolbox.language.classes_factory:LanguageClassesFactory._generate_associations"
FN_G = "maltoolbox.language.classes_factory:LanguageClassesFactory.get_association_by_signature"
FN_V = "maltoolbox.model:Model._validate_association"
MULTS = [(0, 1), (1, 1), (0, None), (1, None)]
DEF_KINDS = {"e": mini.TTC_ENABLED, "d": mini.TTC_DISABLED, "n": None, "x": mini.ttc_exp(0.5)}
PARENTS = {1: [[None]], 2: [[None, None], [None, 0]],
           3: [[None, None, None], [None, 0, None], [None, 0, 0], [None, 0, 1], [None, None, 0]]}


def cases(tier, seed):
    rnd = random.Random(seed)
    menus = [[[], []], [["e", "d", "n", "x"], ["e"]], [["d"], ["n", "e", "x"]]]
    for parents in PARENTS[2]:
        for (l, r) in ((0, 1), (0, 0), (1, 0)):
            for lm in range(4):
                for rm in range(4):
                    for menu in menus:
                        yield {"parents": parents, "defenses": menu, "assocs": [["X", l, r, lm, rm]]}
        for (lm, rm) in ((0, 2), (2, 0), (1, 3), (2, 2)):
            yield {"parents": parents, "defenses": menus[1], "assocs": [["X", 0, 1, lm, rm], ["X", 0, 0, rm, lm]]}
            yield {"parents": parents, "defenses": menus[2], "assocs": [["X", 0, 1, lm, rm], ["X", 1, 0, rm, lm], ["Y", 1, 1, 2, 2]]}
    for _ in range(4000 if tier == "quick" else 40000):
        n = rnd.choice((1, 2, 3, 3, 3))
        parents = rnd.choice(PARENTS[n])
        defenses = [sorted(rnd.sample(["e", "d", "n", "x"], rnd.choice((0, 1, 1, 2, 3)))) for _ in range(n)]
        assocs, seen = [], set()
        for _a in range(rnd.choice((0, 1, 2, 2, 3))):
            name = rnd.choice(("X", "X", "Y", "zed"))
            l, r = rnd.randrange(n), rnd.randrange(n)
            if (name, l, r) in seen: continue
            seen.add((name, l, r))
            assocs.append([name, l, r, rnd.randrange(4), rnd.randrange(4)])
        yield {"parents": parents, "defenses": defenses, "assocs": assocs}
        if all(p is None for p in parents) and n >= 2 and sum(1 for d in defenses if d) >= 2:
            # unrelated types that use the SAME defense names (guard0, guard1, ...) with their own, different declarations
            shuffled = [rnd.sample(d, len(d)) for d in defenses]
            yield {"parents": parents, "defenses": shuffled, "assocs": assocs, "shared_defense_names": True}
    yield from cases_same_signature(tier, seed)


def cases_same_signature(tier, seed):
    """languages in which associations share name AND (left, right) types (own generator: the cases above stay)"""
    menus = [[[], []], [["e", "d"], ["n"]]]
    for parents in PARENTS[2]:
        for (l, r) in ((0, 1), (0, 0), (1, 0)):
            for (lm, rm, lm2, rm2) in ((2, 2, 2, 2), (2, 2, 2, 0), (0, 2, 2, 3), (1, 3, 0, 0), (3, 0, 2, 2), (2, 1, 3, 2)):
                two = [["X", l, r, lm, rm], ["X", l, r, lm2, rm2]]
                yield {"parents": parents, "defenses": menus[0], "assocs": two}
                yield {"parents": parents, "defenses": menus[1], "assocs": two + [["X", r, l, rm, lm]] if l != r else two + [["X", 1 - l, 1 - l, 2, 2]]}
                yield {"parents": parents, "defenses": menus[0], "assocs": [["X", 1, 1, 2, 2]] + two}
                yield {"parents": parents, "defenses": menus[0], "assocs": two + [["X", l, r, rm, lm]]}
                yield {"parents": parents, "defenses": menus[1], "assocs": [two[0], ["Y", l, r, 2, 2], two[1]]}
    rnd = random.Random(seed * 65537 + 6)
    for _ in range(1500 if tier == "quick" else 15000):
        n = rnd.choice((1, 2, 2, 3, 3))
        parents = rnd.choice(PARENTS[n])
        defenses = [sorted(rnd.sample(["e", "d", "n", "x"], rnd.choice((0, 0, 1, 2)))) for _ in range(n)]
        assocs = []
        for _a in range(rnd.choice((1, 2, 2, 3, 3, 4))):
            if assocs and rnd.random() < 0.5:
                name, l, r = rnd.choice(assocs)[:3]              # the signature of an earlier association again
                if rnd.random() < 0.25: l, r = r, l
            else:
                name, l, r = rnd.choice(("X", "X", "Y")), rnd.randrange(n), rnd.randrange(n)
            assocs.append([name, l, r, rnd.randrange(4), rnd.randrange(4)])
        yield {"parents": parents, "defenses": defenses, "assocs": assocs}


def generated_association_classes(lcf):
    """{class name: sorted field names} of the leaf entries of the association part of the generated schema"""
    out = {}
    for name, entry in lcf.json_schema["definitions"]["LanguageAssociation"]["definitions"].items():
        if "definitions" in entry:
            for sub, se in entry["definitions"].items():
                out[str(sub)] = sorted(str(k) for k in se.get("properties", {}))
        else:
            out[str(name)] = sorted(str(k) for k in entry.get("properties", {}))
    return out


def build_spec(recipe):
    n = len(recipe["parents"])
    assets = []
    for i in range(n):
        steps = [mini.attack_step("s%d" % i, "or")] + \
                [mini.attack_step(("guard%d" % q) if recipe.get("shared_defense_names") else ("%s%d" % (k, i)), "defense", ttc=DEF_KINDS[k])
                 for q, k in enumerate(recipe["defenses"][i])]
        p = recipe["parents"][i]
        assets.append(mini.asset("T%d" % i, sup=None if p is None else "T%d" % p, steps=steps))
    assocs = [mini.assoc(name, "T%d" % l, "f%dl" % j, "T%d" % r, "f%dr" % j, MULTS[lm], MULTS[rm])
              for j, (name, l, r, lm, rm) in enumerate(recipe["assocs"])]
    return mini.lang(assets, assocs)


def is_sub(recipe, x, t):
    """type index x is t or a (transitive) sub-type of t"""
    while x is not None:
        if x == t: return True
        x = recipe["parents"][x]
    return False


def run_case(recipe):
    from maltoolbox.model import Model
    from maltoolbox.exceptions import DuplicateModelAssociationError, ModelAssociationException
    r = CaseResult()
    spec = build_spec(recipe)
    n = len(recipe["parents"])
    try:
        lg, lcf = mini.make_lang(spec)
    except Exception as e:
        r.check("C06.asset-types", False, FN_A, "building the classes raised %s: %s" % (L.exc_name(e), str(e)[:150]),
                "build:" + L.exc_name(e))
        return r
    names = ["T%d" % i for i in range(n)]
    inh = "inherits" if any(p is not None for p in recipe["parents"]) else "flat"

    # ---- asset types ----
    exposed = sorted(lcf.json_schema["definitions"]["LanguageAsset"]["definitions"].keys())
    r.check("C06.asset-types", exposed == sorted(names), FN_A, "asset types exposed %s, language has %s" % (exposed, names), "set")
    m = Model("m", lcf)
    objs = {}                # type index -> 3 live assets
    for i in range(n):
        objs[i] = []
        for k in range(3):
            try:
                a = getattr(lcf.ns, names[i])(name="%s_%d" % (names[i], k))
                m.add_asset(a)
                objs[i].append(a)
            except Exception as e:
                r.check("C06.asset-types", False, FN_A, "type %s cannot be instantiated: %s" % (names[i], L.exc_name(e)), "instantiate:" + L.exc_name(e))
                return r
        a = objs[i][0]
        r.check("C06.asset-types", str(a.type) == names[i] and type(a).__name__ == names[i], FN_A,
                "instance of %s says type %s / class %s" % (names[i], str(a.type), type(a).__name__), "type-field")
        for j in range(n):
            want = is_sub(recipe, i, j)
            got = isinstance(a, getattr(lcf.ns, names[j]))
            r.check("C06.asset-types", got == want, FN_A, "isinstance(%s instance, %s) is %s" % (names[i], names[j], got),
                    "isinstance:%s" % ("missing" if want else "spurious"))

    # ---- defenses: names, defaults, range ----
    for i in range(n):
        want = L.spec_defenses(spec, names[i])
        a = objs[i][0]
        try:
            got = m.get_asset_defenses(a, include_defaults=True)
            got = {str(k): float(v) for k, v in got.items()}
        except Exception as e:
            r.check("C06.defenses", False, "maltoolbox.model:Model.get_asset_defenses", "%s: get_asset_defenses raised %s" % (names[i], L.exc_name(e)),
                    "raised:%s:%s" % (L.exc_name(e), inh))
            continue
        own = {d for d in want if d.endswith(str(i))}
        if set(got) != set(want):
            r.check("C06.defenses", False, FN_A, "%s exposes defenses %s, language gives it %s" % (names[i], sorted(got), sorted(want)),
                    "names:%s" % ("inherited-missing" if set(want) - set(got) - own else "differ"))
        else:
            bad = [d for d in want if got[d] != want[d]]
            r.check("C06.defenses", not bad, FN_A, "%s defaults %s, expected %s" % (names[i], got, want),
                    "default:%s" % ("+".join(sorted({b[0] for b in bad}))))
            for d in want:
                try:
                    direct = float(getattr(a, d))
                except Exception as e:
                    direct = L.exc_name(e)
                r.check("C06.defenses", direct == want[d], FN_A, "%s.%s reads %r, default should be %r" % (names[i], d, direct, want[d]),
                        "attribute-default")
            nd = m.get_asset_defenses(a, include_defaults=False)
            r.check("C06.defenses", not nd, "maltoolbox.model:Model.get_asset_defenses", "fresh %s reports non-default defenses %s" % (names[i], list(nd)), "fresh-nondefault")
        for d in sorted(set(got) & set(want)):
            b = objs[i][1]
            for val in (0.0, 1.0, 0.3):
                try:
                    setattr(b, d, val); ok = float(getattr(b, d)) == val
                except Exception as e:
                    ok = False
                r.check("C06.defense-range", ok, FN_A, "%s.%s = %r not accepted" % (names[i], d, val), "in-range-rejected")
            for val in (-0.1, 1.5, 2, -1):
                try:
                    setattr(b, d, val); rej = False
                except Exception:
                    rej = True
                now = float(getattr(b, d))
                r.check("C06.defense-range", rej and now == 0.3, FN_A,
                        "%s.%s = %r %s, value now %r" % (names[i], d, val, "rejected" if rej else "accepted", now),
                        "out-of-range-accepted" if not rej else "value-changed-by-rejected-set")
    for cl in ("defenses", "defense-range"): r.clauses.setdefault("C06." + cl, True)

    # ---- association classes ----
    sigs = [(name, l, rr) for (name, l, rr, _, _) in recipe["assocs"]]
    cnames = []
    generated = generated_association_classes(lcf)
    same_sig = any(sigs.count(sg) > 1 for sg in sigs)
    r.check("C06.association-classes", len(generated) == len(sigs), FN_S,
            "the language has %d associations, %d association classes are generated: %s" % (len(sigs), len(generated), sorted(generated)),
            "count:%s" % ("same-signature" if same_sig else ("dup-name" if len({sg[0] for sg in sigs}) < len(sigs) else "single")))
    by_fields = [[cn for cn, fs in sorted(generated.items()) if fs == sorted(["f%dl" % j, "f%dr" % j])] for j in range(len(sigs))]
    for j, (name, l, rr, lm, rm) in enumerate(recipe["assocs"]):
        dup = sum(1 for s in sigs if s[0] == name) > 1
        ambiguous = sigs.count((name, l, rr)) > 1       # same name and same two types: only the fields tell them apart
        kind = "same-signature" if ambiguous else ("dup-name" if dup else "single")
        r.check("C06.association-classes", len(by_fields[j]) == 1, FN_S,
                "association %s(%s.f%dl, %s.f%dr) is exposed by %d generated classes with exactly these fields (generated: %s)"
                % (name, names[l], j, names[rr], j, len(by_fields[j]), sorted(generated.items())),
                "by-fields:%s:%s" % ("missing" if not by_fields[j] else "several", kind))
        if ambiguous:
            group = sorted(c for i, sg in enumerate(sigs) if sg == (name, l, rr) for c in by_fields[i])
            for (x, y, how) in ((l, rr, "by-signature"), (rr, l, "flipped")):
                if how == "flipped" and l != rr and (name, rr, l) in sigs: continue
                try:
                    cg = lcf.get_association_by_signature(name, names[x], names[y])
                except Exception as e:
                    cg = L.exc_name(e)
                r.check("C06.association-classes", cg in group, FN_G,
                        "%s lookup %s(%s,%s) gives %s, the classes of the associations with that signature are %s" % (how, name, names[x], names[y], cg, group),
                        "%s:same-signature" % how)
            if len(by_fields[j]) != 1:
                cnames.append(None); continue
            try:
                cn = by_fields[j][0]
                s = getattr(lcf.ns, cn)()
                fields = sorted(str(k) for k in m.get_association_field_names(s))
            except Exception as e:
                r.check("C06.association-classes", False, FN_S, "association class %s: %s %s" % (by_fields[j][0], L.exc_name(e), str(e)[:100]),
                        "instantiate:%s:%s" % (L.exc_name(e), kind))
                cnames.append(None); continue
            cnames.append(cn)
            r.check("C06.association-classes", fields == sorted(["f%dl" % j, "f%dr" % j]), FN_S,
                    "class %s has fields %s, expected f%dl/f%dr" % (cn, fields, j, j), "fields:%s" % kind)
            continue
        try:
            cn = lcf.get_association_by_signature(name, names[l], names[rr])
            cls = getattr(lcf.ns, cn)
            s = cls()
            fields = sorted(str(k) for k in m.get_association_field_names(s))
        except Exception as e:
            r.check("C06.association-classes", False, FN_G, "association %s(%s,%s): %s %s" % (name, names[l], names[rr], L.exc_name(e), str(e)[:100]),
                    "lookup:%s:%s" % (L.exc_name(e), "dup-name" if dup else "single"))
            cnames.append(None); continue
        cnames.append(cn)
        r.check("C06.association-classes", fields == sorted(["f%dl" % j, "f%dr" % j]), FN_S,
                "class %s has fields %s, expected f%dl/f%dr" % (cn, fields, j, j), "fields:%s" % ("dup-name" if dup else "single"))
        r.check("C06.association-classes", by_fields[j] == [cn], FN_G,
                "signature %s(%s,%s) gives class %s, the class with fields f%dl/f%dr is %s" % (name, names[l], names[rr], cn, j, j, by_fields[j]),
                "by-signature-vs-fields:%s" % kind)
        if (name, rr, l) not in sigs or l == rr:
            try:
                cf = lcf.get_association_by_signature(name, names[rr], names[l])
            except Exception as e:
                cf = L.exc_name(e)
            r.check("C06.association-classes", cf == cn, FN_G, "flipped signature of %s gives %s" % (cn, cf), "flipped")
    live = [c for c in cnames if c is not None]
    r.check("C06.association-classes", len(set(live)) == len(live), FN_S, "association classes %s are not pairwise distinct" % cnames, "not-distinct")
    try:
        lcf.get_association_by_signature("NoSuchAssociation", names[0], names[0]); unk = False
    except LookupError:
        unk = True
    except Exception:
        unk = False
    r.check("C06.association-classes", unk, FN_G, "unknown association name does not raise LookupError", "unknown-name")

    # ---- what a field accepts (before any link exists) ----
    def try_fill(cn, j, left_objs, right_objs):
        """(association or None, error name or None); accepted only if the fields hold exactly these objects"""
        s = getattr(lcf.ns, cn)()
        try:
            setattr(s, "f%dl" % j, list(left_objs)); setattr(s, "f%dr" % j, list(right_objs))
            gl, gr = list(getattr(s, "f%dl" % j)), list(getattr(s, "f%dr" % j))
        except Exception as e:
            return None, L.exc_name(e)
        if len(gl) != len(left_objs) or len(gr) != len(right_objs) or any(x is not y for x, y in zip(gl + gr, list(left_objs) + list(right_objs))):
            return s, "COPIED"
        return s, None

    def undo(s):            # take an association the model should not have accepted out again (best effort)
        try:
            m.remove_association(s)
        except Exception:
            pass

    def snapshot():
        return json.dumps(m._to_dict()["associations"], sort_keys=True)

    for j, (name, l, rr, lm, rm) in enumerate(recipe["assocs"]):
        cn = cnames[j]
        if cn is None: continue
        for side, decl, other in (("l", l, rr), ("r", rr, l)):
            for x in range(n):
                allowed = is_sub(recipe, x, decl)
                lo, ro = ([objs[x][0]], [objs[other][1]]) if side == "l" else ([objs[other][1]], [objs[x][0]])
                before = snapshot()
                s, err = try_fill(cn, j, lo, ro)
                kind = "declared" if x == decl else ("subtype" if allowed else ("supertype" if is_sub(recipe, decl, x) else "unrelated"))
                if allowed:
                    r.check("C06.field-types", err is None, FN_S, "%s.f%d%s rejects a %s (%s): %s" % (cn, j, side, names[x], kind, err),
                            "%s-rejected:%s" % (kind, err))
                else:
                    inmodel = False
                    if err is None or err == "COPIED":       # not refused on assignment: the model must refuse it
                        e2 = None
                        try:
                            m.add_association(s)
                        except Exception as e:
                            e2 = e
                        inmodel = e2 is None
                        if inmodel: undo(s)
                    r.check("C06.field-types", not inmodel and snapshot() == before, FN_S,
                            "%s.f%d%s (declared %s) took a %s (%s) and the model accepted the link" % (cn, j, side, names[decl], names[x], kind),
                            "%s-accepted" % kind)
    r.clauses.setdefault("C06.field-types", True)

    # ---- maximum multiplicity ----
    for j, (name, l, rr, lm, rm) in enumerate(recipe["assocs"]):
        cn = cnames[j]
        if cn is None: continue
        for side, decl, other, mult in (("l", l, rr, MULTS[lm]), ("r", rr, l, MULTS[rm])):
            mx = mult[1]
            many = objs[decl][:(mx + 1 if mx is not None else 3)]
            one = [objs[other][2]]
            s, err = try_fill(cn, j, many, one) if side == "l" else try_fill(cn, j, one, many)
            if mx is None:
                r.check("C06.multiplicity", err is None, FN_S, "%s.f%d%s is unbounded but refused 3 assets: %s" % (cn, j, side, err), "unbounded-refused")
            else:
                r.check("C06.multiplicity", err is not None and err != "COPIED", FN_S,
                        "%s.f%d%s has maximum %d but took %d assets" % (cn, j, side, mx, mx + 1), "over-max-accepted")
                s2, err2 = try_fill(cn, j, many[:mx], one) if side == "l" else try_fill(cn, j, one, many[:mx])
                r.check("C06.multiplicity", err2 is None, FN_S, "%s.f%d%s refused %d asset(s) (max %d): %s" % (cn, j, side, mx, mx, err2), "at-max-refused")
    r.clauses.setdefault("C06.multiplicity", True)

    # ---- Model: repeated asset in a field, duplicate link ----
    for j, (name, l, rr, lm, rm) in enumerate(recipe["assocs"]):
        cn = cnames[j]
        if cn is None: continue
        a, b = objs[l][0], objs[rr][1]
        s, err = try_fill(cn, j, [a], [b])
        if err is not None: continue
        # the same asset twice in a field while the model holds NO link of this class yet (the first of its type)
        if MULTS[lm][1] is None:
            c0 = objs[l][2]
            s0, err0 = try_fill(cn, j, [c0, c0], [objs[rr][2] if rr != l else objs[rr][1]])
            if err0 is None:
                before0 = snapshot()
                try:
                    m.add_association(s0); e0 = None
                except Exception as e:
                    e0 = e
                r.check("C06.no-repeat", isinstance(e0, ModelAssociationException) and snapshot() == before0, FN_V,
                        "%s link with one asset twice in a field, as the first link of its class: %s" % (cn, "accepted" if e0 is None else L.exc_name(e0)),
                        "repeat-first:" + ("accepted" if e0 is None else L.exc_name(e0)))
                if e0 is None: undo(s0)
        before = snapshot()
        try:
            m.add_association(s); e1 = None
        except Exception as e:
            e1 = e
        if not r.check("C06.valid-link", e1 is None and snapshot() != before, "maltoolbox.model:Model.add_association",
                       "valid link %s(%s, %s) refused: %s" % (cn, names[l], names[rr], L.exc_name(e1) if e1 else "no effect"), "refused"):
            continue
        after = snapshot()
        # the same pair again, in a new association object
        s2, _ = try_fill(cn, j, [a], [b])
        try:
            m.add_association(s2); e2 = None
        except Exception as e:
            e2 = e
        r.check("C06.no-duplicate-link", isinstance(e2, DuplicateModelAssociationError) and snapshot() == after, FN_V,
                "second %s link between the same two assets: %s" % (cn, "accepted" if e2 is None else L.exc_name(e2)),
                "same-pair:" + ("accepted" if e2 is None else L.exc_name(e2)))
        if e2 is None: undo(s2)
        # overlapping: a larger left side that contains the pair (only when the field can hold 2)
        if MULTS[lm][1] is None:
            s3, err3 = try_fill(cn, j, [a, objs[l][2]], [b])
            if err3 is None:
                try:
                    m.add_association(s3); e3 = None
                except Exception as e:
                    e3 = e
                r.check("C06.no-duplicate-link", isinstance(e3, DuplicateModelAssociationError) and snapshot() == after, FN_V,
                        "%s link whose sides contain an already linked pair: %s" % (cn, "accepted" if e3 is None else L.exc_name(e3)),
                        "overlap:" + ("accepted" if e3 is None else L.exc_name(e3)))
                if e3 is None: undo(s3)
            # the same asset twice in the field
            c = objs[l][2]
            s4, err4 = try_fill(cn, j, [c, c], [objs[rr][2] if rr != l else objs[rr][1]])
            if err4 is None:
                try:
                    m.add_association(s4); e4 = None
                except Exception as e:
                    e4 = e
                r.check("C06.no-repeat", isinstance(e4, ModelAssociationException) and snapshot() == after, FN_V,
                        "%s link with one asset twice in a field: %s" % (cn, "accepted" if e4 is None else L.exc_name(e4)),
                        "repeat:" + ("accepted" if e4 is None else L.exc_name(e4)))
                if e4 is None: undo(s4)
            else:
                r.check("C06.no-repeat", err4 != "COPIED", FN_S, "repeated asset was copied on assignment", "repeat:copied")
        # ---- the model holds 2, then 3 links of this class (disjoint pairs; pair 0 is `s`): a link that exists in
        #      ANY of them is refused, be it the first or a later one of its class
        pairs = [(0, 1), (1, 2), (2, 0)]            # (index into objs[l], index into objs[rr])
        held = [s]
        for k in (1, 2):
            sk, errk = try_fill(cn, j, [objs[l][pairs[k][0]]], [objs[rr][pairs[k][1]]])
            if errk is not None: break
            before_k = snapshot()
            try:
                m.add_association(sk); ek = None
            except Exception as e:
                ek = e
            if not r.check("C06.valid-link", ek is None and snapshot() != before_k, "maltoolbox.model:Model.add_association",
                           "valid %s link between a pair no held link has refused (the model holds %d): %s"
                           % (cn, len(held), L.exc_name(ek) if ek else "no effect"), "refused:further-link"):
                if ek is None: undo(sk)
                break
            held.append(sk)
            now = snapshot()
            for i in range(len(held)):
                pos = "first-of-several" if i == 0 else "later-link"
                ai, bi = objs[l][pairs[i][0]], objs[rr][pairs[i][1]]
                attempts = [("same-pair", [ai], [bi])]
                if MULTS[lm][1] is None:
                    attempts.append(("overlap-left", [objs[l][(pairs[i][0] + 1) % 3], ai], [bi]))
                if MULTS[rm][1] is None:
                    attempts.append(("overlap-right", [ai], [bi, objs[rr][(pairs[i][1] + 1) % 3]]))
                for (how, lo, ro) in attempts:
                    d, errd = try_fill(cn, j, lo, ro)
                    if errd is not None: continue
                    try:
                        m.add_association(d); ed = None
                    except Exception as e:
                        ed = e
                    r.check("C06.no-duplicate-link", isinstance(ed, DuplicateModelAssociationError) and snapshot() == now, FN_V,
                            "%s link (%s) repeating the pair of held link %d of %d of its class: %s"
                            % (cn, how, i + 1, len(held), "accepted" if ed is None else L.exc_name(ed)),
                            "%s:%s:%s" % (how, pos, "accepted" if ed is None else L.exc_name(ed)))
                    if ed is None: undo(d)
        for sk in reversed(held[1:]):
            m.remove_association(sk)
        m.remove_association(s)
    for cl in ("asset-types", "defenses", "defense-range", "association-classes", "field-types", "multiplicity", "valid-link",
               "no-duplicate-link", "no-repeat"):
        r.clauses.setdefault("C06." + cl, True)
    if recipe["assocs"] or any(recipe["defenses"]):
        r.nontrivial_key = common.recipe_hash(recipe)
    return r


if __name__ == "__main__":
    common.main(globals())
