"""
Bounded stand-in for C19 (Neo4j export is isomorphic to what is exported, and import inverts it).

There is no database: `py2neo.Graph` as imported by maltoolbox.ingestors.neo4j is replaced by a recording stand-in
(lib_trans.RecordingDB): `begin()/create(subgraph)/commit` record the py2neo Subgraph that is sent, and
`run(query).data()` answers the two fixed Cypher queries of get_model from the recorded data, implemented by hand
from the query text:
   Q1  MATCH (a) WHERE a.type IS NOT NULL RETURN DISTINCT a
         -> one row per recorded node that has a `type` property;
   Q2  MATCH (a)-[r1]->(b),(a)<-[r2]-(b) WHERE a.type IS NOT NULL RETURN DISTINCT a, r1, r2, b
         -> one row per ordered pair of DIFFERENT relationships r1: a->b, r2: b->a (a relationship is used at most
            once per pattern; a may equal b).
Rows come in an arbitrary order (derived from the recipe's db_seed): a database guarantees none.

Reading of "one relationship per direction labelled with the respective field name": for an association object
with fields f1, f2, every a in f1 and b in f2 give exactly two relationships, a-[f1]->b and b-[f2]->a, i.e. the
relationship LEAVING an asset carries the name of the field the asset itself sits in.  This orientation is what the
third clause of the statement forces: get_model puts the start node of r1 into the field named type(r1)
(`setattr(assoc, left_field, [left_asset])`), so only this labelling is inverted by the import.

Real code under test: ingestors.neo4j.ingest_model / ingest_attack_graph / get_model on real Model / AttackGraph
objects and real py2neo Node / Relationship / Subgraph objects.  Reference: the model / attack graph that is
exported, read directly.
"""
from __future__ import annotations
import itertools, os, random, re, sys
from collections import Counter
sys.path.insert(0, os.path.dirname(os.path.abspath(__file__)))
import common
from common import CaseResult
import lib_trans as L

PROPERTY = "C19"
FN_IM = "maltoolbox.ingestors.neo4j:ingest_model"
FN_IG = "maltoolbox.ingestors.neo4j:ingest_attack_graph"
FN_GM = "maltoolbox.ingestors.neo4j:get_model"
FN_ADD = "maltoolbox.model:Model.add_asset"
SCOPE = {
    "quick": "languages: mini (5 types, 8 associations: sub-types, reflexive, duplicate-named pairs) and coreLang; "
             "enumerated: every association x every pair of concrete (sub)types as a one-link model (+ self-link); every "
             "PAIR of mini associations on <=3 assets (two links, incl. both links on one pair of assets and opposite "
             "reflexive links; over declared types and over sub-types); every pair of coreLang associations that can "
             "link one and the same pair of assets; + 8000 seeded random models of <=3 assets, <=3 links, <=2 attackers; each model is "
             "ingested, read back under a seeded row order, and its generated attack graph (optionally with attackers "
             "attached, non-viable flags, extra/duplicate edges, and 0-2 nodes removed with remove_node() first so that node ids "
             "are not list positions) is ingested",
    "thorough": "same enumerated part; 60000 random models of <=4 assets, <=4 links, 3 row orders each",
}
EXHAUSTIVE = {"quick": False, "thorough": False}
RULE = ("case = abstract model + db row-order seed + attack-graph modifications; non-trivial when the model has a link "
        "(so relationships are sent and the association lookups of get_model run) or the attack graph has an edge; "
        "distinct = distinct (language, asset types, link classes and sizes, shared-pair pattern, id pattern, graph mods)")
ASSUMPTIONS = [
    "PY2NEO: the recorded Subgraph is what a database would hold after commit; the two Cypher queries mean what the "
    "module docstring says; rows are unordered",
    "py2neo Node / Relationship / Subgraph are the real classes (Subgraph holds SETS: equal unbound relationships "
    "collapse - a child listed k times in `children` may therefore arrive as 1..k relationships; both are accepted)",
    "the exported model / graph is read directly from the real objects (ids, names, types, children lists)",
    "attackers are not part of the statement's model export (ingest_model does not send them) and are not compared",
]
BUDGET_S = {"quick": 100, "thorough": 1500}
CHUNK = 100

URI, USER, PW, DB = "bolt://stub:7687", "u", "p", "db"


def _ag(rnd, remove=None):
    """attack-graph part of a recipe; `remove`: positions of nodes taken out with remove_node() before the export (the ids
    of the remaining nodes are then no longer their positions in graph.nodes)"""
    if rnd is None:
        return {"attach": True, "unviable": [1], "extra": [[0, 1], [0, 1], [2, 2]], "remove": remove or []}
    return {"attach": rnd.random() < 0.6, "unviable": [rnd.randrange(50) for _ in range(rnd.randint(0, 2))],
            "extra": [[rnd.randrange(50), rnd.randrange(50)] for _ in range(rnd.randint(0, 3))] * rnd.choice([1, 1, 2]),
            "remove": [rnd.randrange(50) for _ in range(rnd.choice([0, 0, 1, 2]))]}


def cases(tier, seed):
    rnd = random.Random(seed)
    k = 0
    # E1: every association x every pair of (sub)types, one link
    for lang in ("mini", "core"):
        info = L.get_info(lang)
        for a in info.assocs:
            for tl in info.subtypes(a["L"]):
                for tr in info.subtypes(a["R"]):
                    k += 1
                    yield {"lang": lang, "assets": [[tl, "l", 1, {}], [tr, "r", 2, {}]],
                           "links": [[a["cls"], a["lf"], [0], a["rf"], [1]]], "attackers": [],
                           "db_seed": k, "delete": k % 2 == 0, "ag": _ag(None, remove=[0] if k % 3 == 0 else ([1, 3] if k % 3 == 1 else None)) if lang == "mini" else None}
                    if tl == tr:
                        k += 1
                        yield {"lang": lang, "assets": [[tl, "l", 1, {}]],
                               "links": [[a["cls"], a["lf"], [0], a["rf"], [0]]], "attackers": [],
                               "db_seed": k, "delete": False, "ag": _ag(None) if lang == "mini" else None}
    # E2: every pair of mini associations on <=3 assets; once over the declared types, once over sub-types
    info = L.get_info("mini")
    for base in ([["A", "a", 1, {}], ["B", "b", 2, {}], ["C", "c", 3, {}], ["A", "a2", 4, {}], ["A1", "a3", 5, {}],
                  ["B1", "b2", 6, {}], ["D", "d", 7, {}]],
                 [["A1", "a", 1, {}], ["B1", "b", 2, {}], ["C", "c", 3, {}], ["A", "a2", 4, {}]]):
        def ends(a):
            li = [i for i, x in enumerate(base) if info.is_sub(x[0], a["L"])]
            ri = [i for i, x in enumerate(base) if info.is_sub(x[0], a["R"])]
            return [(x, y) for x in li for y in ri]
        for a1, a2 in itertools.combinations_with_replacement(info.assocs, 2):
            for (x1, y1) in ends(a1):
                for (x2, y2) in ends(a2):
                    if a1 is a2 and (x1, y1) >= (x2, y2):
                        continue
                    used = sorted({x1, y1, x2, y2})
                    # associations that share a field name (look-alike roles) are also tried on disjoint asset pairs
                    lookalike = a1 is not a2 and ({a1["lf"], a1["rf"]} & {a2["lf"], a2["rf"]})
                    if len(used) > (4 if lookalike else (2 if len(base) > 4 else 3)):
                        continue
                    idx = {u: n for n, u in enumerate(used)}
                    k += 1
                    yield {"lang": "mini", "assets": [base[u] for u in used],
                           "links": [[a1["cls"], a1["lf"], [idx[x1]], a1["rf"], [idx[y1]]],
                                     [a2["cls"], a2["lf"], [idx[x2]], a2["rf"], [idx[y2]]]],
                           "attackers": [], "db_seed": k, "delete": False, "ag": None}
    # E3: coreLang - every pair of different associations that can link one and the same pair of assets
    info = L.get_info("core")
    for a1, a2 in itertools.combinations(info.assocs, 2):
        for swap in (0, 1):
            l2, r2 = (a2["L"], a2["R"]) if not swap else (a2["R"], a2["L"])
            tls = [t for t in info.subtypes(a1["L"]) if info.is_sub(t, l2)]
            trs = [t for t in info.subtypes(a1["R"]) if info.is_sub(t, r2)]
            for tl in tls[:2]:
                for tr in trs[:2]:
                    k += 1
                    second = [a2["cls"], a2["lf"], [0], a2["rf"], [1]] if not swap else \
                             [a2["cls"], a2["lf"], [1], a2["rf"], [0]]
                    yield {"lang": "core", "assets": [[tl, "l", 1, {}], [tr, "r", 2, {}]],
                           "links": [[a1["cls"], a1["lf"], [0], a1["rf"], [1]], second],
                           "attackers": [], "db_seed": k, "delete": False, "ag": None}
    # random
    n_rand = 8000 if tier == "quick" else 60000
    big = tier != "quick"
    for j in range(n_rand):
        lang = "mini" if j % 5 < 3 else "core"
        info = L.get_info(lang)
        rec = L.gen_model(rnd, info, max_assets=4 if big else 3, max_links=4 if big else 3, max_attackers=2,
                          p_id0_late=0.0, p_seq=0.1, p_id0_first=0.05)
        for _rep in range(3 if big else 1):
            r2 = dict(rec)
            r2.update({"lang": lang, "db_seed": rnd.randrange(1 << 30), "delete": rnd.random() < 0.3,
                       "ag": _ag(rnd) if (lang == "mini" or rnd.random() < 0.15) else None})
            yield r2


# ---------------------------------------------------------------------------------------------------

def _sig_exc(e):
    msg = re.sub(r"abc\.\w+", "abc.T", str(e))
    msg = re.sub(r'"[^"]*"', '"..."', msg)
    msg = re.sub(r"'[^']*'", "'...'", msg)
    msg = re.sub(r"-?\d+", "N", msg)
    return "raises:%s:%s" % (type(e).__name__, msg[:60])


def _prop_ok(stored, actual):
    """a property is faithful if it is the value or its string form"""
    return stored == actual or stored == str(actual)


def run_case(recipe):
    import maltoolbox.ingestors.neo4j as neo
    from maltoolbox.attackgraph import AttackGraph
    info, lg, lcf = L.get_lang(recipe["lang"])
    r = CaseResult()
    model, objs = L.build_model(lcf, recipe, name="m")
    ids = [int(a.id) for a in objs]
    exp_assets = Counter((int(a.id), str(a.name), str(a.type)) for a in model.assets)
    exp_rels = Counter()
    exp_links = set()
    for (cls, f1, l, f2, rr) in recipe["links"]:
        for x in l:
            for y in rr:
                exp_rels[(ids[x], f1, ids[y])] += 1       # the relationship leaving x carries x's own field name
                exp_rels[(ids[y], f2, ids[x])] += 1
                exp_links.add(L.norm_link(cls, f1, ids[x], f2, ids[y]))
    # pattern of the model: do two links share an (unordered) pair of assets?
    pair_cnt = Counter(frozenset((ids[x], ids[y])) for (cls, f1, l, f2, rr) in recipe["links"] for x in l for y in rr)
    shared = any(c > 1 for c in pair_cnt.values())
    def _dupsub(cls, l, rr):
        a = info.assoc_by_cls[cls]
        return a["dup"] and (any(recipe["assets"][x][0] != a["L"] for x in l) or
                             any(recipe["assets"][y][0] != a["R"] for y in rr))
    dupsub = any(_dupsub(cls, l, rr) for (cls, f1, l, f2, rr) in recipe["links"])
    pat = ("shared-pair" if shared else "") + ("+dup-subtype" if dupsub else "")

    db = L.RecordingDB(recipe["db_seed"])
    saved = neo.Graph
    neo.Graph = L.make_graph_class(db)
    try:
        # ---- ingest_model
        try:
            neo.ingest_model(model, URI, USER, PW, DB, delete=bool(recipe["delete"]))
            crashed = None
        except Exception as e:                      # noqa
            crashed = e
        r.check("C19.model.no-crash", crashed is None, FN_IM, "ingest_model raised %r" % (crashed,),
                _sig_exc(crashed) if crashed else None)
        if crashed is None:
            got_nodes = Counter()
            bad_node = None
            node_id = {}
            for n in db.nodes:
                try:
                    key = (int(n["asset_id"]), n["name"], n["type"])
                except Exception:                   # noqa
                    bad_node = dict(n)
                    continue
                got_nodes[key] += 1
                node_id[id(n)] = key[0]
            r.check("C19.model.nodes", bad_node is None and got_nodes == exp_assets and db.committed >= 1, FN_IM,
                    "nodes sent %s (committed %d), assets %s, malformed %s" % (
                        sorted(got_nodes.elements()), db.committed, sorted(exp_assets.elements()), bad_node),
                    "missing" if exp_assets - got_nodes else "extra")
            got_rels = Counter()
            for rel in db.rels:
                got_rels[(node_id.get(id(rel.start_node)), type(rel).__name__, node_id.get(id(rel.end_node)))] += 1
            ok = got_rels == exp_rels
            sig = None
            if not ok:
                swapped = Counter({(a, f, b): c for (b, f, a), c in got_rels.items()}) == exp_rels
                sig = "labels-on-the-opposite-direction" if swapped else \
                      ("missing" if exp_rels - got_rels else "") + ("extra" if got_rels - exp_rels else "")
            r.check("C19.model.relationships", ok, FN_IM,
                    "relationships sent %s, expected %s" % (sorted(got_rels.elements(), key=str)[:8],
                                                           sorted(exp_rels.elements(), key=str)[:8]), sig)
            # ---- get_model on what was recorded
            try:
                back = neo.get_model(URI, USER, PW, DB, lg, lcf)
                err = None
            except Exception as e:                  # noqa
                back, err = None, e
            # does the (arbitrary) row order put asset id 0 after a non-negative id?  (`asset_id or next_id`, defect k)
            late0, seen = False, False
            for row in db.answer(L.Q_ASSETS):
                i = int(row["a"]["asset_id"])
                late0 = late0 or (i == 0 and seen)
                seen = seen or i >= 0
            if err is None and back is not None:
                try:
                    v = L.model_view(back)
                except Exception as e:              # noqa
                    err = e
            if err is not None or back is None:
                k_like = late0 and err is not None and (
                    (isinstance(err, ValueError) and "already in use" in str(err)) or
                    (isinstance(err, LookupError) and "Failed to find asset with id" in str(err)))
                r.check("C19.get.no-crash", False, FN_ADD if k_like else FN_GM,
                        "get_model %s on the recorded export of a model with links %s" % (
                            "raised %r" % (err,) if err is not None else "returned None", sorted(exp_links)[:4]),
                        "id0-not-honoured:" + type(err).__name__ if k_like else
                        _sig_exc(err) if err is not None else
                        "returns-None|" + ("two-links-on-one-pair-of-assets" if shared else "no-shared-pair"))
            else:
                r.check("C19.get.no-crash", True, FN_GM)
                want = {i: (nm, t) for (i, nm, t) in exp_assets}
                ok = v["assets"] == want
                id0 = 0 in want and 0 not in v["assets"]
                r.check("C19.get.assets", ok, FN_ADD if id0 else FN_GM,
                        "assets read back %s, exported %s" % (sorted(v["assets"].items()), sorted(want.items())),
                        "id0-not-honoured" if id0 else "other")
                miss, extra = exp_links - v["links"], v["links"] - exp_links
                r.check("C19.get.links", not miss and not extra, FN_ADD if id0 else FN_GM,
                        "links read back: missing %s extra %s" % (sorted(miss)[:3], sorted(extra)[:3]),
                        ("missing" if miss else "") + ("extra" if extra else "") + ("|id0" if id0 else "") +
                        ("|two-links-on-one-pair-of-assets" if shared else ""))
        # ---- attack graph
        ag_key = ""
        if recipe.get("ag") is not None:
            try:
                g = AttackGraph(lg, model)
                if recipe["ag"]["attach"]:
                    g.attach_attackers()
            except Exception:                       # noqa: generation is the subject of other properties
                g = None
            if g is not None and g.nodes:
                n = len(g.nodes)
                for i in recipe["ag"]["unviable"]:
                    g.nodes[i % n].is_viable = False
                    g.nodes[(i * 7 + 1) % n].is_necessary = False
                for (i, j) in recipe["ag"]["extra"]:
                    p, c = g.nodes[i % n], g.nodes[j % n]
                    p.children.append(c)
                    c.parents.append(p)
                for i in recipe["ag"].get("remove", []):
                    if len(g.nodes) > 2:
                        try:
                            g.remove_node(g.nodes[i % len(g.nodes)])
                        except Exception:           # noqa: remove_node is the subject of C09 / C13
                            pass
                n = len(g.nodes)
                edges = Counter((p.full_name, c.full_name) for p in g.nodes for c in p.children)
                db2 = L.RecordingDB(recipe["db_seed"])
                neo.Graph = L.make_graph_class(db2)
                try:
                    neo.ingest_attack_graph(g, URI, USER, PW, DB, delete=bool(recipe["delete"]))
                    crashed = None
                except Exception as e:              # noqa
                    crashed = e
                r.check("C19.graph.no-crash", crashed is None, FN_IG, "ingest_attack_graph raised %r" % (crashed,),
                        _sig_exc(crashed) if crashed else None)
                if crashed is None:
                    by_name = {}
                    dup = None
                    for nd in db2.nodes:
                        fn = nd.get("full_name")
                        if fn in by_name:
                            dup = fn
                        by_name[fn] = nd
                    ok = dup is None and set(by_name) == {x.full_name for x in g.nodes} and len(db2.nodes) == n \
                        and db2.committed >= 1
                    r.check("C19.graph.nodes", ok, FN_IG, "database nodes %s, attack steps %s" % (
                        sorted(map(str, by_name))[:6], sorted(x.full_name for x in g.nodes)[:6]),
                        "duplicate" if dup else "set-differs")
                    bad = None
                    for x in g.nodes:
                        nd = by_name.get(x.full_name)
                        if nd is None:
                            continue
                        actual = {"name": x.name, "type": x.type, "full_name": x.full_name, "ttc": x.ttc,
                                  "is_viable": x.is_viable, "is_necessary": x.is_necessary,
                                  "compromised_by": [a.name for a in x.compromised_by]}
                        if x.defense_status is not None:
                            actual["defense_status"] = x.defense_status
                        for key, val in actual.items():
                            if key not in nd:
                                bad = (key + ":not-sent", "%s: attribute %s not sent" % (x.full_name, key))
                            elif not _prop_ok(nd[key], val):
                                bad = (key + ":wrong-value", "%s: %s sent as %r, is %r" % (x.full_name, key, nd[key], val))
                        if x.asset is not None and not (nd.has_label(str(x.asset.name)) or nd.get("asset") == str(x.asset.name)):
                            bad = ("asset:not-sent", "%s: asset %s neither label nor property" % (
                                x.full_name, str(x.asset.name)))
                    r.check("C19.graph.attributes", bad is None, FN_IG, bad[1] if bad else "", bad[0] if bad else None)
                    name_of = {id(nd): fn for fn, nd in by_name.items()}
                    got = Counter((name_of.get(id(rel.start_node)), name_of.get(id(rel.end_node))) for rel in db2.rels)
                    missing = [e for e in edges if got[e] < 1]
                    extra = [e for e in got if got[e] > edges.get(e, 0)]
                    r.check("C19.graph.relationships", not missing and not extra, FN_IG,
                            "edges without relationship %s; relationships without edge / too many %s" % (
                                missing[:3], extra[:3]), ("missing" if missing else "") + ("extra" if extra else ""))
                    ag_key = "ag%d%s%s" % (min(len(edges), 9), "d" if any(c > 1 for c in edges.values()) else "",
                                           "a" if any(x.compromised_by for x in g.nodes) else "")
    finally:
        neo.Graph = saved
    if recipe["links"] or ag_key:
        r.nontrivial_key = "|".join([
            recipe["lang"], ",".join(a[0] for a in recipe["assets"]),
            ",".join("%s:%dx%d" % (l[0], len(l[2]), len(l[4])) for l in recipe["links"]), pat,
            "".join("0" if i == 0 else "-" if i < 0 else "+" for i in ids), ag_key, str(recipe["db_seed"] % 4)])
    return r


if __name__ == "__main__":
    common.main(globals())
