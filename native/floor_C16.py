"""
Bounded stand-in for C16 (graph generation is deterministic and does not disturb its inputs).

Real code under test: AttackGraph(lang_graph, model) / attach_attackers / calculate_viability_and_necessity and
maltoolbox.wrappers.create_attack_graph on real language graphs and models; fresh interpreter processes with
different PYTHONHASHSEED values.  The oracle is the property itself: equal inputs -> equal serialised outputs, inputs
compare equal to snapshots taken before.
"""
from __future__ import annotations
import copy, hashlib, json, os, random, shutil, subprocess, sys, tempfile, zipfile
sys.path.insert(0, os.path.dirname(os.path.abspath(__file__)))
import common
from common import CaseResult
import lib_lang as L

PROPERTY = "C16"
FN_GEN = "maltoolbox.attackgraph.attackgraph:AttackGraph._generate_graph"
FN_WRAP = "maltoolbox.wrappers:create_attack_graph"
FN_STEPS = "maltoolbox.language.languagegraph:LanguageGraph._get_attacks_for_asset_type"
SCOPE = {
    "quick": "6 tiny languages (two-type, 3-level inheritance with no-reaches/+>/+> chain, set operators + variable + "
             "subType, three chain languages) x 250 seeded models of 1-4 assets each, + coreLang x (shipped example model, 40 "
             "seeded models of 2-6 assets): generate twice on the same objects and once on fresh ones; inputs compared "
             "with snapshots; wrapper from .mar for every pair (coreLang: 12), from .mal instead for a third of the tiny ones, called twice for a quarter; "
             "fresh processes: 9 batches of 10 tiny pairs x {direct, .mar wrapper, .mal wrapper} + 3 coreLang batches of 3 x "
             "{direct, .mar wrapper}, each under PYTHONHASHSEED 0 and 1 and compared with this process; "
             "+ a language whose steps / defense carry 2-5 tags each (also inherited, '+>' and '->' in a sub-type) x 250 seeded "
             "models, 2 fresh-process batches of 10 such pairs x 3 routes under PYTHONHASHSEED 0, 1, 2 (the serialised tags "
             "list is order-sensitive); "
             "+ REVISIONS: for each tiny language a second specification with the same #id / #version and the same asset / "
             "step / variable names but other variable definitions, fewer reaches expressions, reversed tags (6 revisions x 60 "
             "models of 3-6 assets as pairs); HISTORY batches: 16 pairs alternating a language and its revision on the same 8 models, in one "
             "fresh process in sequence, compared pair by pair with each pair generated in a process state of its own (6 "
             "batches x {direct, .mar}); every fresh-process batch is also compared with such one-pair-per-process runs; "
             "+ every pair: two graphs generated back to back from the same language graph and Model object, attackers "
             "attached and analysis run on the FIRST one, then on the second: both serialise like the graph generated alone, "
             "and every node / attacker reachable from a graph (children, parents, attackers' entry points and reached "
             "steps, compromised_by) is an object of that graph",
    "thorough": "same languages x 2500 models of 1-6 assets, coreLang x 400 models of 2-8 assets, wrapper for all; 60 batches "
                "x PYTHONHASHSEED {0,1,2,random}",
}
EXHAUSTIVE = {"quick": False, "thorough": False}
RULE = ("case = (language or language revision, model recipe, file formats) or a batch (ordered sequence) of such pairs for "
        "the fresh-process / history clause; non-trivial "
        "when the generated graph has at least one edge; distinct = distinct (language, model)")
ASSUMPTIONS = ["two serialisations are compared as json.dumps(graph._to_dict()) strings without key sorting (key order counts)",
               "a generation that raises is an outcome ('exception: <type>') compared like a graph",
               "the wrapper's side files (log_configs langspec_file / model_file) are redirected into a temp dir",
               ".mal variant only where MalCompiler().compile(emitted text) reproduces the langspec dict exactly",
               "child interpreters: same floor file with --child, cwd = temp dir, PYTHONPATH inherited",
               "'a process state of its own' for one pair = a fork of a fresh interpreter that has imported maltoolbox and has "
               "not constructed or generated anything yet (equivalent to a fresh process for module-level state; same hash seed)"]
BUDGET_S = {"quick": 95, "thorough": 1500}
CHUNK = 1

TESTDATA = None
TINY = ["two", "inherit", "setops", "chain:N/E/E", "chain:NE/EA/EE:sib", "chain:OE/NE/EO/AE"]


def _testdata():
    global TESTDATA
    if TESTDATA is None:
        import maltoolbox
        TESTDATA = os.path.join(os.path.dirname(os.path.dirname(os.path.abspath(maltoolbox.__file__))), "tests", "testdata")
    return TESTDATA


_SPECS = {}


def load_spec(name):
    """fresh deep copy of the langspec dict of a language name"""
    if name not in _SPECS:
        if name == "corelang":
            with zipfile.ZipFile(os.path.join(_testdata(), "org.mal-lang.coreLang-1.0.0.mar")) as z:
                _SPECS[name] = json.loads(z.read("langspec.json"))
        else:
            _SPECS[name] = L.catalogue_language(name)
    return copy.deepcopy(_SPECS[name])


def cases(tier, seed):
    allc = list(_cases(tier, seed)) + list(_cases_more(tier, seed))
    procs = [c for c in allc if c["kind"] == "procs"]
    for c in procs:                      # the slow ones first so that they overlap with the rest
        yield c
    for c in allc:
        if c["kind"] != "procs":
            yield c


def _cases(tier, seed):
    rnd = random.Random(seed)
    quick = tier == "quick"
    pairs = []
    n_tiny, n_core = (250, 40) if quick else (2500, 400)
    for ln in TINY:
        spec = load_spec(ln)
        for k in range(n_tiny):
            n = rnd.randint(1, 4 if quick else 6)
            m = L.random_model_recipe(spec, rnd, n, rnd.choice((0.3, 0.6, 0.9)), attackers=rnd.randint(0, 2))
            files = ("mal" if k % 3 == 0 else "mar")
            pairs.append({"lang": ln, "model": m})
            yield {"kind": "pair", "lang": ln, "model": m, "files": files, "mfmt": ("json", "yml")[k % 2],
                   "wrap2": k % 4 == 0}
    spec = load_spec("corelang")
    concrete = [a["name"] for a in spec["assets"] if not a["isAbstract"]]
    yield {"kind": "pair", "lang": "corelang", "model": "file:simple_example_model.json", "files": "mar", "mfmt": "json"}
    core_pairs = [{"lang": "corelang", "model": "file:simple_example_model.json"}]
    for k in range(n_core):
        n = rnd.randint(2, 6 if quick else 8)
        m = L.random_model_recipe(spec, rnd, n, rnd.choice((0.2, 0.5)), attackers=rnd.randint(0, 1), types=concrete)
        core_pairs.append({"lang": "corelang", "model": m})
        yield {"kind": "pair", "lang": "corelang", "model": m, "files": ("mar" if (not quick or k < 12) else None),
               "mfmt": ("json", "yml")[k % 2]}
    # fresh-process batches (one case per batch and route, so that no case runs for more than a few seconds)
    seeds = [0, 1] if quick else [0, 1, 2, "random"]
    nb = 12 if quick else 60
    rnd.shuffle(pairs)
    for b in range(nb):
        if b % 4 == 3:
            batch = core_pairs[:1] + rnd.sample(core_pairs[1:], 2 if quick else 5)
            vias = ["direct", "mar"]
        else:
            batch = pairs[b * 10:(b + 1) * 10]
            vias = ["direct", "mar", "mal"]
        for via in vias:
            yield {"kind": "procs", "pairs": batch, "vias": [via], "seeds": seeds}


MORE = ["tags"]                              # languages added after the first enumeration (own random stream)


def _cases_more(tier, seed):
    rnd = random.Random(seed + 7919)
    quick = tier == "quick"
    n_tiny, n_rev = (250, 60) if quick else (2500, 600)
    seeds = [0, 1, 2] if quick else [0, 1, 2, 3, "random"]
    # several tags per step
    for ln in MORE:
        spec = load_spec(ln)
        pairs = []
        for k in range(n_tiny):
            m = L.random_model_recipe(spec, rnd, rnd.randint(1, 4 if quick else 6), rnd.choice((0.3, 0.6, 0.9)),
                                      attackers=rnd.randint(0, 2))
            pairs.append({"lang": ln, "model": m})
            yield {"kind": "pair", "lang": ln, "model": m, "files": ("mal" if k % 3 == 0 else "mar"),
                   "mfmt": ("json", "yml")[k % 2], "wrap2": k % 4 == 0}
        for b in range(2 if quick else 10):
            for via in ("direct", "mar", "mal"):
                yield {"kind": "procs", "pairs": pairs[b * 10:(b + 1) * 10], "vias": [via], "seeds": seeds}
    # revisions of a language under the same #id / #version
    for ln in TINY + MORE:
        spec, rev = load_spec(ln), load_spec(ln + L.REV_SUFFIX)
        if rev == spec:
            continue
        models = []
        for k in range(n_rev):
            m = L.random_model_recipe(spec, rnd, rnd.randint(3, 6), rnd.choice((0.6, 0.9)), attackers=rnd.randint(0, 2))
            models.append(m)
            yield {"kind": "pair", "lang": ln + L.REV_SUFFIX, "model": m, "files": "mar", "mfmt": ("json", "yml")[k % 2]}
        for b in range(1 if quick else 6):
            seq = []
            for m in models[b * 8:(b + 1) * 8]:
                seq += [{"lang": ln, "model": m}, {"lang": ln + L.REV_SUFFIX, "model": m}]
            for via in ("direct", "mar"):
                yield {"kind": "procs", "pairs": seq, "vias": [via], "seeds": seeds[:1]}


# ---------------------------------------------------------------------------------------------------
# shared between parent and child

def _model_for(lcf, spec, m):
    from maltoolbox.model import Model
    if isinstance(m, str) and m.startswith("file:"):
        return Model.load_from_file(os.path.join(_testdata(), m[5:]), lcf)
    return L.build_model(lcf, spec, m)[0]


def _ser(g):
    return json.dumps(g._to_dict(), default=str)


def _generate(lg, model):
    """the direct API pipeline; returns (serialised outcome, graph or None)"""
    from maltoolbox.attackgraph import AttackGraph
    from maltoolbox.attackgraph.analyzers.apriori import calculate_viability_and_necessity
    try:
        g = AttackGraph(lg, model)
        g.attach_attackers()
        calculate_viability_and_necessity(g)
        return _ser(g), g
    except Exception as e:
        return "exception: " + type(e).__name__, None


def _generate_interleaved(lg, model):
    """two graphs from the same objects, both generated before either is attached / analysed; the one generated first is
    attached and analysed first.  Returns (serialised first, serialised second, first graph, second graph)"""
    from maltoolbox.attackgraph import AttackGraph
    from maltoolbox.attackgraph.analyzers.apriori import calculate_viability_and_necessity
    try:
        ga = AttackGraph(lg, model)
        gb = AttackGraph(lg, model)
    except Exception as e:
        x = "exception: " + type(e).__name__
        return x, x, None, None
    out = []
    for g in (ga, gb):
        try:
            g.attach_attackers()
            calculate_viability_and_necessity(g)
            out.append(_ser(g))
        except Exception as e:
            out.append("exception: " + type(e).__name__)
    return out[0], out[1], ga, gb


def _foreign_refs(g):
    """descriptions '<kind> <node full name>' of the references held by graph g (its nodes' children / parents /
    compromised_by, its attackers' entry points / reached steps) to objects that are not nodes / attackers OF g"""
    own = {id(n) for n in g.nodes}
    own_att = {id(a) for a in g.attackers}
    bad = []
    for n in g.nodes:
        for c in n.children:
            if id(c) not in own:
                bad.append("child " + n.full_name)
        for p in n.parents:
            if id(p) not in own:
                bad.append("parent " + n.full_name)
        for a in (n.compromised_by or []):
            if id(a) not in own_att:
                bad.append("compromised_by " + n.full_name)
    for a in g.attackers:
        for n in a.entry_points:
            if id(n) not in own:
                bad.append("entry_point " + n.full_name)
        for n in a.reached_attack_steps:
            if id(n) not in own:
                bad.append("reached_step " + n.full_name)
    return bad


def _first_diff(s, t):
    if s == t:
        return "equal"
    if s.startswith("exception") or t.startswith("exception"):
        return "%s vs %s" % (s[:40], t[:40])
    a, b = json.loads(s), json.loads(t)
    for sec in ("attack_steps", "attackers"):
        for k in list(a[sec]) + [k for k in b[sec] if k not in a[sec]]:
            x, y = a[sec].get(k), b[sec].get(k)
            if x != y:
                if isinstance(x, dict) and isinstance(y, dict):
                    for f in x:
                        if x.get(f) != y.get(f):
                            return "%s[%s].%s: %s vs %s" % (sec, k, f, json.dumps(x.get(f))[:60], json.dumps(y.get(f))[:60])
                return "%s[%s] present in one only" % (sec, k)
    return "key order"


def _write_lang(spec, via, d):
    if via == "mal":
        p = os.path.join(d, "lang.mal")
        with open(p, "w", encoding="utf-8") as f:
            f.write(L.to_mal(spec))
    else:
        p = os.path.join(d, "lang.mar")
        L.write_mar(spec, p)
    return p


def _mal_ok(spec, d):
    """the .mal text emitted for spec compiles back to exactly spec (else the .mal variant is not applicable)"""
    from maltoolbox.language.compiler import MalCompiler
    if any(len(a["name"]) == 1 for a in spec["assets"]):       # single capitals such as A, C, I are lexer keywords
        return False
    try:
        p = _write_lang(spec, "mal", d)
        return MalCompiler().compile(p) == spec
    except Exception:
        return False


def _wrapper(lang_file, model_file, d):
    import maltoolbox
    from maltoolbox.wrappers import create_attack_graph
    saved = dict(maltoolbox.log_configs)
    maltoolbox.log_configs["langspec_file"] = os.path.join(d, "side_langspec.yml")
    maltoolbox.log_configs["model_file"] = os.path.join(d, "side_model.yml")
    try:
        return _ser(create_attack_graph(lang_file, model_file))
    except SystemExit:
        return "exception: AttackGraphStepExpressionError"
    except Exception as e:
        return "exception: " + type(e).__name__
    finally:
        maltoolbox.log_configs.update(saved)


def _save_model(model, d, fmt):
    for f in (fmt, "yml" if fmt == "json" else "json"):
        p = os.path.join(d, "model." + f)
        try:
            model.save_to_file(p)
            return p
        except Exception:
            continue
    return None


def _one(pair, via, d):
    """serialised outcome of one (language, model) pair through `via` in this process"""
    from maltoolbox.language import LanguageGraph, LanguageClassesFactory
    spec = load_spec(pair["lang"])
    lg = LanguageGraph(copy.deepcopy(spec))
    lcf = LanguageClassesFactory(lg)
    model = _model_for(lcf, spec, pair["model"])
    if via == "direct":
        return _generate(lg, model)[0]
    sub = tempfile.mkdtemp(dir=d)
    if via == "mal" and not _mal_ok(spec, sub):
        return "n/a"
    mf = _save_model(model, sub, "json")
    if mf is None:
        return "n/a"
    return _wrapper(_write_lang(spec, via, sub), mf, sub)


def child_main():
    import logging
    logging.disable(logging.CRITICAL)
    sys.setrecursionlimit(3000)
    job = json.load(sys.stdin)
    d = os.getcwd()
    out = []
    if job.get("mode") == "isolated":
        out = _isolated(job["pairs"], job["via"], d)
    else:
        for pair in job["pairs"]:
            out.append(_one(pair, job["via"], d))
    sys.stdout.write(json.dumps(out))


def _isolated(pairs, via, d):
    """every pair in a process state of its own: this (fresh) interpreter imports the package, constructs nothing, and
    forks once per pair; the fork computes the pair and sends the serialised outcome back through a pipe"""
    import maltoolbox, maltoolbox.wrappers, maltoolbox.model, maltoolbox.language, maltoolbox.language.compiler
    import maltoolbox.attackgraph, maltoolbox.attackgraph.analyzers.apriori
    out = []
    for pair in pairs:
        rfd, wfd = os.pipe()
        sys.stdout.flush()
        pid = os.fork()
        if pid == 0:
            code = 1
            try:
                os.close(rfd)
                res = json.dumps(_one(pair, via, d))
                with os.fdopen(wfd, "w") as f:
                    f.write(res)
                code = 0
            except BaseException:
                import traceback
                traceback.print_exc()
            finally:
                os._exit(code)
        os.close(wfd)
        with os.fdopen(rfd) as f:
            data = f.read()
        _, status = os.waitpid(pid, 0)
        if status != 0:
            raise RuntimeError("isolated generation of a pair failed (status %d)" % status)
        out.append(json.loads(data))
    return out


# ---------------------------------------------------------------------------------------------------

def _run_pair(recipe, r):
    from maltoolbox.language import LanguageGraph, LanguageClassesFactory
    spec0 = load_spec(recipe["lang"])
    spec = copy.deepcopy(spec0)
    lg = LanguageGraph(spec)
    spec_after_load = copy.deepcopy(spec)          # what the specification looks like once the language graph exists
    lcf = LanguageClassesFactory(lg)
    model = _model_for(lcf, spec0, recipe["model"])
    m0 = json.dumps(model._to_dict(), default=str)

    s1, g1 = _generate(lg, model)
    m1 = json.dumps(model._to_dict(), default=str)
    spec_ok_1 = spec == spec_after_load
    s2, g2 = _generate(lg, model)
    m2 = json.dumps(model._to_dict(), default=str)
    spec_ok_2 = spec == spec_after_load

    # fresh objects from the same recipe
    lg3 = LanguageGraph(copy.deepcopy(spec0))
    lcf3 = LanguageClassesFactory(lg3)
    model3 = _model_for(lcf3, spec0, recipe["model"])
    s3, g3 = _generate(lg3, model3)

    r.check("C16.same-process", s1 == s2, FN_GEN,
            "second generation from the same language graph and model serialises differently (%s vs %s)" % (s1[:40], s2[:40]),
            "regeneration-differs")
    r.check("C16.same-process", s1 == s3, FN_GEN,
            "generation from freshly built equal inputs serialises differently from the first one", "fresh-inputs-differ")
    if g1 is not None and g2 is not None:
        e1 = [[c.id for c in n.children] for n in g1.nodes]
        e2 = [[c.id for c in n.children] for n in g2.nodes]
        e3 = [[c.id for c in n.children] for n in g3.nodes] if g3 is not None else None
        if s1 == s2:
            r.check("C16.same-process", e1 == e2, FN_GEN,
                    "the second graph has %d edges in its children lists, the first %d (serialised form equal: duplicate "
                    "edges)" % (sum(map(len, e2)), sum(map(len, e1))), "regeneration-differs:edge-multiplicity-only")
        if s1 == s3 and e3 is not None:
            r.check("C16.same-process", e1 == e3, FN_GEN,
                    "graph from fresh inputs has %d edges in its children lists, the first %d" % (sum(map(len, e3)), sum(map(len, e1))),
                    "fresh-inputs-differ:edge-multiplicity-only")
        shared = {id(n) for n in g1.nodes} & {id(n) for n in g2.nodes}
        shared_att = {id(a) for a in g1.attackers} & {id(a) for a in g2.attackers}
        r.check("C16.no-shared-node", not shared and not shared_att, FN_GEN,
                "two graphs from one model share %d node and %d attacker objects" % (len(shared), len(shared_att)), "shared-node")
    # two graphs generated back to back from the same objects; attach + analyse the one generated FIRST, then the other
    FN_ATT = "maltoolbox.attackgraph.attackgraph:AttackGraph.attach_attackers"
    sA, sB, gA, gB = _generate_interleaved(lg, model)
    m3 = json.dumps(model._to_dict(), default=str)
    r.check("C16.same-process", sA == s1, FN_ATT,
            "the first of two graphs generated back to back from one model, attached and analysed after the second was "
            "generated, serialises differently from the graph generated alone (%s)" % _first_diff(s1, sA),
            "interleaved-first-differs")
    r.check("C16.same-process", sB == s1, FN_ATT,
            "the second of two graphs generated back to back from one model (attached after the first) serialises "
            "differently from the graph generated alone (%s)" % _first_diff(s1, sB), "interleaved-second-differs")
    if gA is not None and gB is not None:
        fa, fb = _foreign_refs(gA), _foreign_refs(gB)
        r.check("C16.no-shared-node", not fa and not fb, FN_ATT,
                "two graphs from one model: the first refers to %s, the second to %s" % (fa[:3], fb[:3]),
                "refers-to-objects-of-another-graph:" + ",".join(sorted({x.split(" ")[0] for x in fa + fb})))
        shared2 = {id(n) for n in gA.nodes} & {id(n) for n in gB.nodes}
        r.check("C16.no-shared-node", not shared2, FN_GEN, "two graphs generated back to back share %d nodes" % len(shared2),
                "shared-node")
    r.check("C16.model-unchanged", m0 == m1 == m2 == m3, FN_GEN, "Model._to_dict() changed by generation/analysis", "model-dict-changed")
    r.check("C16.spec-unchanged", spec_ok_1 and spec_ok_2, FN_STEPS,
            "the language specification changed during attack-graph generation (%s)" %
            ("first generation" if not spec_ok_1 else "second generation"), "spec-modified-by-generation")
    r.check("C16.spec-unchanged", spec_after_load == spec0, FN_STEPS,
            "the language specification differs from the loaded one as soon as LanguageGraph() returns",
            "spec-modified-by-language-graph-construction")

    if recipe.get("files"):
        d = tempfile.mkdtemp(prefix="c16_")
        try:
            via = recipe["files"]
            if via == "mal" and not _mal_ok(spec0, d):
                via = "mar"
            mf = _save_model(model, d, recipe.get("mfmt", "json"))
            if mf is not None:
                lf = _write_lang(spec0, via, d)
                w = _wrapper(lf, mf, d)
                r.check("C16.wrapper", w == s1, FN_WRAP,
                        "create_attack_graph(%s, %s) serialises differently from the direct API on the in-memory model (%s vs %s)"
                        % (os.path.basename(lf), os.path.basename(mf), w[:40], s1[:40]), "wrapper-differs:" + via)
                if recipe.get("wrap2"):
                    w2 = _wrapper(lf, mf, d)
                    r.check("C16.wrapper", w == w2, FN_WRAP, "two wrapper calls on the same files differ",
                            "wrapper-not-repeatable:" + via)
        finally:
            shutil.rmtree(d, ignore_errors=True)
    if g1 is not None and any(n.children for n in g1.nodes):
        r.nontrivial_key = recipe["lang"] + "|" + hashlib.sha256(json.dumps(recipe["model"], sort_keys=True).encode()).hexdigest()[:12]


def _run_procs(recipe, r):
    d = tempfile.mkdtemp(prefix="c16p_")
    try:
        for via in recipe["vias"]:
            here = [_one(p, via, d) for p in recipe["pairs"]]
            outs = {}
            for seed in recipe["seeds"]:
                outs[seed] = _child(recipe["pairs"], via, seed, d)
            first = outs[recipe["seeds"][0]]
            for seed in recipe["seeds"][1:]:
                if outs[seed] != first:
                    a, b = json.loads(first), json.loads(outs[seed])
                    k = next(i for i in range(len(a)) if a[i] != b[i])
                    r.check("C16.fresh-process", False, FN_GEN if via == "direct" else FN_WRAP,
                            "via %s: pair %d (%s) serialises differently under PYTHONHASHSEED=%s and %s"
                            % (via, k, recipe["pairs"][k]["lang"], recipe["seeds"][0], seed), "hash-seed-dependent:" + via)
                else:
                    r.check("C16.fresh-process", True, FN_GEN)
            a = json.loads(first)
            # history: the same pairs, each in a process state of its own (hash seed as for `first`)
            alone = json.loads(_child(recipe["pairs"], via, recipe["seeds"][0], d, mode="isolated"))
            bad = [i for i in range(len(a)) if a[i] != alone[i]]
            langs = sorted({recipe["pairs"][i]["lang"] for i in bad})
            r.check("C16.fresh-process", not bad, FN_GEN if via == "direct" else FN_WRAP,
                    "via %s: pairs %s (languages %s) of the batch serialise differently when generated one after the other in one "
                    "fresh process and when each is generated in a process of its own" % (via, bad[:5], langs),
                    "depends-on-earlier-generations-in-the-process:" + via)
            bad = [i for i in range(len(a)) if a[i] != here[i]]
            r.check("C16.fresh-process", not bad, FN_GEN if via == "direct" else FN_WRAP,
                    "via %s: pairs %s serialise differently in a fresh process and in this (long-running) process" % (via, bad[:5]),
                    "fresh-process-differs-from-this-process:" + via)
            if via != "direct":
                direct = [_one(p, "direct", d) for p in recipe["pairs"]]
                bad = [i for i in range(len(a)) if a[i] != "n/a" and a[i] != direct[i]]
                r.check("C16.wrapper", not bad, FN_WRAP,
                        "via %s in a fresh process: pairs %s differ from the direct API" % (via, bad[:5]), "wrapper-differs:" + via)
        r.nontrivial_key = "procs|" + hashlib.sha256(json.dumps(recipe, sort_keys=True).encode()).hexdigest()[:12]
    finally:
        shutil.rmtree(d, ignore_errors=True)


def _child(pairs, via, seed, d, mode="sequence"):
    """stdout (bytes, a JSON list of serialised outcomes) of a fresh interpreter running the pairs through `via`"""
    env = dict(os.environ)
    env["PYTHONHASHSEED"] = str(seed)
    cwd = tempfile.mkdtemp(dir=d)
    p = subprocess.run([sys.executable, "-u", os.path.abspath(__file__), "--child"],
                       input=json.dumps({"pairs": pairs, "via": via, "mode": mode}).encode(),
                       stdout=subprocess.PIPE, stderr=subprocess.PIPE, cwd=cwd, env=env, timeout=600)
    if p.returncode != 0:
        raise RuntimeError("child failed: " + p.stderr.decode()[-400:])
    return p.stdout


def run_case(recipe):
    r = CaseResult()
    if recipe["kind"] == "pair":
        _run_pair(recipe, r)
    else:
        _run_procs(recipe, r)
    return r


if __name__ == "__main__":
    if len(sys.argv) > 1 and sys.argv[1] == "--child":
        child_main()
    else:
        common.main(globals())
