"""
Bounded stand-in for C04 (the MAL compiler's output is the language the source text denotes).

Real code under test: maltoolbox.language.compiler.MalCompiler.compile (ANTLR lexer/parser + malVisitor) and
LanguageGraph.from_mal_spec.  Reference: the specification itself -- a language specification in the compiler's
output format is printed as MAL text by the harness printer (lib_comp, written from mal.g4: minimal
parenthesisation by precedence / left-associativity) and the compiler has to give the specification back.
"""
from __future__ import annotations
import itertools, json, os, random, sys, hashlib
sys.path.insert(0, os.path.dirname(os.path.abspath(__file__)))
import common
from common import CaseResult
import lib_comp as L

PROPERTY = "C04"
FN_COMPILE = "maltoolbox.language.compiler:MalCompiler.compile"
FN_VISITOR = "maltoolbox.language.compiler.mal_visitor:malVisitor"
SCOPE = {
    "quick": "exhaustive: every TTC tree with <=3 binary operators over + - * / ^ (distinct atoms: distributions with "
             "0-2 arguments, numbers); every field expression of nesting depth <=2 over collect/union/intersection/"
             "difference/transitive/subType with field and variable leaves, placed in a let, a requires, a reaches "
             "('->' and '+>') and as the middle one of three reaches targets; every step type x 0-2 tags x every CIA "
             "subset x ttc x reaches form; 10x10 multiplicity pairs in two spellings; 11 meta strings x 4 places; "
             "abstract x extends; 600 random field expressions of depth 3-4; + 1500 seeded random specifications (<=3 categories, <=7 assets, expressions up to "
             "depth 4, TTC up to depth 3) each under 2 of 11 source layouts (1-4 files, sub-directories, repeated "
             "/ chained / diamond includes) and a random spelling style; + coreLang 1.0.0 (single file, two split "
             "layouts, and through LanguageGraph.from_mal_spec); "
             "+ declarations that SHARE THEIR NAME: every pair of associations agreeing / differing in name x (left, "
             "right) asset types (same, swapped, reflexive) x left field x right field x multiplicity x meta (two equal "
             "associations excepted), some with a third one, each in one file (one / several associations blocks) and "
             "split over repeated / two / diamond / permuted includes; categories declared 2-3 times with different "
             "meta (with / without assets, adjacent / separated); a resolvable language with two `Attached` Host-Net and "
             "two `Tree` Host-Host associations told apart by their fields (compiler and LanguageGraph.from_mal_spec); "
             "400 seeded random specifications with 1-3 name-sharing associations (same types other fields, swapped, "
             "other types, one field / multiplicity / meta only) and re-declared categories; "
             "+ source layouts in which THE SAME INCLUDE STRING DENOTES DIFFERENT FILES (6 multi-directory kinds: "
             "a/mod.mal and b/mod.mal each including their own \"assoc.mal\"; three directories; nested directories; "
             "modules included repeatedly; \"lib/x.mal\" written in the root and in a/mod.mal): the resolvable languages, "
             "coreLang, the name-sharing specifications and 600 seeded random specifications, the same-named files "
             "non-empty whenever there are enough declarations",
    "thorough": "as quick, plus every TTC tree with 4 operators (seeded 30% sample), a seeded sample of 20000 field "
                "expressions of depth 3-4, 20000 more random specifications x 3 layouts, 4000 more name-sharing random "
                "specifications, 6000 more random specifications under the same-include-string layouts",
}
EXHAUSTIVE = {"quick": False, "thorough": False}
RULE = ("case = (specification in output format, source layout, spelling style); the specification is printed, "
        "written to a temp dir, compiled by the real compiler; non-trivial when the specification has at least one "
        "asset or association; distinct = distinct (specification, layout kind). Names of declarations need not be "
        "unique: associations may share name and asset types (distinct as long as one attribute differs), a category "
        "may be declared again with other meta. Layout kinds include multi-directory trees where one include string, "
        "written in files of different directories, denotes different files")
ASSUMPTIONS = [
    "printer lib_comp.print_decls is the trusted inverse of the MAL denotation (written from mal.g4, not from the visitor)",
    "well-formed = derivable from mal.g4 with names that the lexer delivers as ID (no keyword, none of the single "
    "letters E C I A, no leading digit); the compiler performs no semantic checks, so fields/steps need not resolve "
    "(coreLang and the small resolvable language lib_comp.valid_mini, which do resolve, also go through LanguageGraph.from_mal_spec)",
    "generated ANTLR lexer/parser trusted",
    "where 'include \"c.mal\"' inside sub/b.mal points to (next to b.mal or next to the root) is not fixed by the "
    "property: layouts of that kind provide the same file at both places",
    "layouts 'samename-*' (the same include string denotes different files, relative to the directory of the "
    "including file) also provide, where the string points to relative to the root, a file with the declarations of all "
    "files of that name, so that both readings denote the same set of declarations; they are compared including order "
    "only where both readings give the same order",
    "a category declared again with other meta information denotes a further entry of `categories` (declarations are "
    "de-duplicated as wholes); two associations are the same declaration only if all their attributes are equal",
    "coreLang: the .mar langspec.json and the compiler output have the same key set at every level "
    "(formatVersion, defines, categories[name, meta], assets[name, meta, category, isAbstract, superAsset, "
    "variables[name, stepExpression], attackSteps[name, meta, type, tags, risk, ttc, requires, reaches]], "
    "associations[name, meta, left/right Asset, Field, Multiplicity{min,max}]); the whole document is compared, "
    "numbers by value (JSON does not distinguish 2 and 2.0), nothing else is normalised",
]
BUDGET_S = {"quick": 100, "thorough": 1500}
CHUNK = 40


def _case(spec, layout=("single", 0), style=0, group=""):
    return {"kind": "spec", "group": group, "spec": spec, "layout": list(layout), "style": style}


def _g_fixed(seed):
    yield {"kind": "corelang", "layout": ["single", 0], "style": 0, "via": "compiler"}
    yield {"kind": "corelang", "layout": ["single", 0], "style": 0, "via": "language-graph"}
    yield {"kind": "corelang", "layout": ["two", seed + 1001], "style": 0, "via": "compiler"}
    yield {"kind": "corelang", "layout": ["diamond", seed + 1002], "style": 7, "via": "compiler"}
    yield {"kind": "corelang", "layout": ["subdir", seed + 1003], "style": 0, "via": "compiler"}
    yield {"kind": "mini", "layout": ["single", 0], "style": 0, "via": "language-graph"}
    yield {"kind": "mini", "layout": ["chain", 1], "style": 3, "via": "language-graph"}
    for k in L.LAYOUT_KINDS:
        yield {"kind": "mini", "layout": [k, 0], "style": 0, "via": "compiler"}
    # resolvable language whose associations share name and asset types
    yield {"kind": "mini-shared", "layout": ["single", 0], "style": 0, "via": "compiler"}
    yield {"kind": "mini-shared", "layout": ["single", 0], "style": 0, "via": "language-graph"}
    yield {"kind": "mini-shared", "layout": ["repeat", 2], "style": 5, "via": "language-graph"}
    for k in L.LAYOUT_KINDS[1:]:
        yield {"kind": "mini-shared", "layout": [k, 1], "style": 1 + len(k), "via": "compiler"}
    # the same include string denoting different files
    for i, k in enumerate(L.LAYOUT_KINDS_SAMENAME):
        for ls in (0, 1, 2):
            yield {"kind": "mini", "layout": [k, ls], "style": ls, "via": "compiler"}
            yield {"kind": "mini-shared", "layout": [k, ls], "style": 3 * ls, "via": "compiler"}
        yield {"kind": "mini", "layout": [k, 3], "style": 0, "via": "language-graph"}
        yield {"kind": "mini-shared", "layout": [k, 4], "style": 2, "via": "language-graph"}
        yield {"kind": "corelang", "layout": [k, seed + 1010 + i], "style": 0, "via": "compiler"}


def _g_shared_names(rnd):
    """declarations that share their name (own generator `rnd`: the other groups keep their cases)"""
    split = ("repeat", "two", "diamond", "permuted")
    for n, assocs in enumerate(L.enum_shared_name_assocs()):
        spec = L.spec_with_assocs(assocs)
        yield _case(spec, group="shared-assoc")                                     # one associations block
        yield _case(spec, style=_STYLE_ASSOC_BLOCKS[1 + n % 2][n % 3], group="shared-assoc")     # several blocks
        k = split[n % len(split)]
        yield _case(spec, layout=(k, rnd.randrange(1000)), style=_STYLE_ASSOC_BLOCKS[1][n % 3], group="shared-assoc")
        if n % 4 == 0:
            k = L.LAYOUT_KINDS_SAMENAME[(n // 4) % len(L.LAYOUT_KINDS_SAMENAME)]
            yield _case(spec, layout=(k, rnd.randrange(1000)), style=_STYLE_ASSOC_BLOCKS[1][n % 3], group="shared-assoc")
    for n, spec in enumerate(L.enum_redeclared_categories()):
        yield _case(spec, group="shared-category")
        yield _case(spec, layout=(split[n % len(split)], rnd.randrange(1000)), style=rnd.randrange(1, 1000), group="shared-category")
        if n % 3 == 0:
            k = L.LAYOUT_KINDS_SAMENAME[(n // 3) % len(L.LAYOUT_KINDS_SAMENAME)]
            yield _case(spec, layout=(k, rnd.randrange(1000)), style=rnd.randrange(1, 1000), group="shared-category")


def _styles_by_assoc_blocks():
    out = {0: [], 1: [], 2: []}
    seed = 1
    while any(len(v) < 3 for v in out.values()):
        st = L.Style(seed)
        if len(out[st.assoc_blocks]) < 3:
            out[st.assoc_blocks].append(seed)
        seed += 1
    return out


_STYLE_ASSOC_BLOCKS = _styles_by_assoc_blocks()          # assoc_blocks mode -> 3 style seeds with that mode


def _g_random_shared(rnd, n):
    kinds = [k for k in L.LAYOUT_KINDS if k != "single"] + L.LAYOUT_KINDS_SAMENAME
    for i in range(n):
        spec = L.gen_spec(rnd.randrange(1 << 30), size=rnd.choice((1, 2, 2, 3)), depth=rnd.choice((1, 2, 3)), shared_names=True)
        yield _case(spec, layout=("single", 0), style=rnd.randrange(1, 1000), group="random-shared")
        yield _case(spec, layout=(kinds[i % len(kinds)], rnd.randrange(1000)), style=rnd.randrange(1, 1000), group="random-shared")


def _g_random_samename(rnd, n):
    for i in range(n):
        spec = L.gen_spec(rnd.randrange(1 << 30), size=rnd.choice((1, 2, 2, 3)), depth=rnd.choice((1, 2, 3)),
                          shared_names=(i % 5 == 4))
        k = L.LAYOUT_KINDS_SAMENAME[i % len(L.LAYOUT_KINDS_SAMENAME)]
        yield _case(spec, layout=(k, rnd.randrange(1000)), style=rnd.randrange(1, 1000), group="random-samename")


def _g_ttc_named():
    named = [
        L.binop("multiplication", L.binop("multiplication", L.fn("Exponential", 0.1), L.num(2)), L.num(3)),
        L.binop("multiplication", L.binop("division", L.fn("a1"), L.fn("b1")), L.fn("c1")),
        L.binop("division", L.fn("a1"), L.binop("multiplication", L.fn("b1"), L.fn("c1"))),
        L.binop("subtraction", L.fn("a1"), L.binop("subtraction", L.fn("b1"), L.fn("c1"))),
        L.binop("exponentiation", L.binop("exponentiation", L.num(2), L.num(3)), L.num(2)),
        L.fn("Gamma", 1.5, 0.00005), L.fn("Custom3", 1, 2, 3), L.num(0), L.num(123456),
    ]
    for t in named:
        for st in (0, 1, 2, 3):
            yield _case(L.spec_with_ttc(t), style=st, group="ttc-named")


def _g_small():
    # meta strings in the four places, abstract / extends, defines only, empty category, interleaved categories
    for s in L.META_STRINGS:
        for place in range(4):
            m = {"user": s}
            m2 = {"developer": "d", "modeler": s}
            spec = L.mk_spec(
                [L.mk_asset("Host", meta=m if place == 1 else {}, steps=[L.mk_step("s", meta=m2 if place == 2 else {})])],
                [L.mk_assoc("Conn", "Host", "a1", (0, None), "Host", "b1", (0, 1), meta=m2 if place == 3 else {})],
                categories=[{"name": "Cat", "meta": m if place == 0 else {}}])
            yield _case(spec, group="meta")
    for ab in (False, True):
        for sup in (None, "Base"):
            for ab2 in (False, True):
                spec = L.mk_spec([L.mk_asset("Base", abstract=ab2), L.mk_asset("Host", abstract=ab, sup=sup)])
                yield _case(spec, group="abstract")
    yield _case(L.mk_spec([], defines={"id": "only.defines", "version": "1.0.0"}), group="empty")
    yield _case(L.mk_spec([], categories=[{"name": "Empty", "meta": {}}]), group="empty")
    yield _case(L.mk_spec([L.mk_asset("X1", category="B1"), L.mk_asset("X2", category="A1"), L.mk_asset("X3", category="B1")],
                          categories=[{"name": "A1", "meta": {}}, {"name": "B1", "meta": {"user": "m"}}]), group="interleaved")
    for lm in L.MULTS:
        for rm in L.MULTS:
            for st in (0, 11):
                spec = L.mk_spec([L.mk_asset("Host"), L.mk_asset("Net")],
                                 [L.mk_assoc("Conn", "Host", "hosts", lm, "Net", "nets", rm)])
                yield _case(spec, style=st, group="mult")


def _g_steps():
    for ty in L.STEP_SYMBOL:
        for ntags in (0, 1, 2):
            for bits in range(0, 8):
                for ttc in (None, L.fn("Enabled"), L.fn("Exponential", 0.1)):
                    for reach in (None, True, False):
                        risk = None if bits == 0 else L.mk_risk(bits & 1, bits & 2, bits & 4)
                        req = [L.field("f1"), L.binop("collect", L.field("f2"), L.field("f3"))] if ty in ("exist", "notExist") else None
                        s = L.mk_step("s", ty, tags=["hidden", "t2"][:ntags], risk=risk, ttc=ttc, requires=req,
                                      meta={"user": "u"} if bits & 1 else {},
                                      reaches=None if reach is None else [L.astep("t"), L.binop("collect", L.field("f"), L.astep("u"))],
                                      overrides=bool(reach))
                        other = L.mk_step("t", "and")
                        yield _case(L.mk_spec([L.mk_asset("Host", steps=[s, other])]), style=bits, group="step")


def _g_exprs(rnd):
    exprs = [L.rename_leaves(e) for e in L.enum_exprs(2)]
    for e in exprs:
        for where in ("let", "reaches"):
            yield _case(L.spec_with_expr(e, where), group="expr-" + where)
    for e in exprs:
        if L.expr_depth(e) <= 1:
            for where in ("requires", "reaches-ext", "reaches-second"):
                yield _case(L.spec_with_expr(e, where), group="expr-" + where)
        else:
            where = rnd.choice(("requires", "reaches-ext", "reaches-second"))
            yield _case(L.spec_with_expr(e, where), group="expr-" + where)


def _g_random_specs(rnd, n, extra_layouts, offset=0):
    kinds = [k for k in L.LAYOUT_KINDS if k != "single"]
    for i in range(offset, offset + n):
        spec = L.gen_spec(rnd.randrange(1 << 30), size=rnd.choice((1, 2, 2, 3)), depth=rnd.choice((2, 3, 4)))
        for k in ["single"] + [kinds[(i + j) % len(kinds)] for j in range(extra_layouts)]:
            yield _case(spec, layout=(k, rnd.randrange(1000)), style=rnd.randrange(1, 1000), group="random")


def _g_random_exprs(rnd, n):
    fields = ["f1", "g2", "hh"]; variables = ["v1", "w2"]; types = ["T1", "Sub"]
    for _ in range(n):
        e = L.gen_expr(rnd, rnd.choice((3, 4)), fields, variables, types)
        yield _case(L.spec_with_expr(e, rnd.choice(("let", "requires", "reaches", "reaches-ext", "reaches-second"))),
                    group="expr-random")


def cases(tier, seed):
    """cheap, broad groups first: when the wall-clock budget cuts the run short on a loaded machine, what is lost
    is the tail of the random part"""
    rnd = random.Random(seed)
    thorough = tier == "thorough"
    yield from _g_fixed(seed)
    yield from _g_ttc_named()
    yield from _g_small()
    yield from _g_steps()
    for t in L.enum_ttc(3):
        yield _case(L.spec_with_ttc(t), group="ttc")
    rnd2 = random.Random(seed * 1000003 + 17)          # generator of the name-sharing / same-include-string groups
    yield from _g_shared_names(rnd2)
    yield from _g_random_shared(rnd2, 200)
    yield from _g_random_samename(rnd2, 300)
    yield from _g_random_specs(rnd, 500, 1)
    yield from _g_exprs(rnd)
    yield from _g_random_exprs(rnd, 600)
    yield from _g_random_specs(rnd, 1000, 1, offset=500)
    yield from _g_random_shared(rnd2, 200)
    yield from _g_random_samename(rnd2, 300)
    if thorough:
        yield from _g_random_shared(rnd2, 4000)
        yield from _g_random_samename(rnd2, 6000)
        for t in L.enum_ttc(4):
            if sum(1 for _ in _nodes(t)) == 9 and rnd.random() < 0.3:
                yield _case(L.spec_with_ttc(t), group="ttc4")
        yield from _g_random_exprs(rnd, 20000)
        yield from _g_random_specs(rnd, 20000, 2, offset=1500)


def _nodes(e):
    yield e
    for k in ("lhs", "rhs"):
        if k in e:
            yield from _nodes(e[k])


def _has_term_chain(t):
    if not isinstance(t, dict):
        return False
    for nd in _nodes(t):
        if nd["type"] in L.TTC_MUL and nd["lhs"]["type"] in L.TTC_MUL:
            return True
    return False


def _signature(diff, spec=None):
    """pattern of a difference: the path down to the attribute of the declaration that differs, without indices"""
    path = diff[0]
    parts = L.generic_path(path).split(".")
    for i, p in enumerate(parts):
        if p in ("ttc", "reaches", "requires", "variables", "tags", "risk", "meta", "leftMultiplicity",
                 "rightMultiplicity", "defines"):
            parts = parts[:i + 1]
            break
    gp = ".".join(parts)
    if gp.endswith("attackSteps.ttc") and spec is not None:
        try:
            ai = int(path.split("assets[")[1].split("]")[0]); si = int(path.split("attackSteps[")[1].split("]")[0])
            t = spec["assets"][ai]["attackSteps"][si]["ttc"]
            return gp + (":term-with-3+-factors" if _has_term_chain(t) else ":other")
        except (IndexError, ValueError, KeyError, TypeError):
            return gp
    return gp


def _layout_class(layout):
    paths = [p for p, _ in layout["files"]]
    incs = [it[1] for _, items in layout["files"] for it in items if it[0] == "inc"]
    if layout["kind"] in L.LAYOUT_KINDS_SAMENAME:
        return "include-same-string-different-files"
    return "include-with-directory" if any("/" in i for i in incs) else ("include-plain" if incs else "single")


def run_case(recipe):
    r = CaseResult()
    via_lg = recipe.get("via") == "language-graph"
    if recipe["kind"] == "corelang":
        spec = L.load_corelang()
    elif recipe["kind"] == "mini":
        spec = L.valid_mini()
    elif recipe["kind"] == "mini-shared":
        spec = L.valid_mini_shared_names()
    else:
        spec = recipe["spec"]
    lkind, lseed = recipe["layout"]
    style_seed = recipe["style"]

    decls = L.print_decls(spec, L.Style(style_seed))
    single = L.make_layout("single", len(decls), 0)
    files1 = L.layout_files(decls, single, L.Style(style_seed))
    st1, out1 = L.compile_files(files1, via_language_graph=via_lg)
    fn_rt = "maltoolbox.language.languagegraph:LanguageGraph.from_mal_spec" if via_lg else FN_VISITOR
    clause_rt = {"corelang": "C04.corelang-equals-mar", "mini": "C04.from-mal-spec", "mini-shared": "C04.from-mal-spec",
                 "spec": "C04.roundtrip"}[recipe["kind"]]
    if recipe["kind"] in ("mini", "mini-shared") and not via_lg:
        clause_rt = "C04.roundtrip"
    if via_lg:
        clause_rt = "C04.from-mal-spec"

    if st1 == "exc":
        r.check("C04.compiles", False, FN_COMPILE,
                "well-formed single-file source raises %s: %s\n%s" % (type(out1).__name__, str(out1)[:150], files1["main.mal"][:200]),
                "single:" + type(out1).__name__)
    else:
        r.check("C04.compiles", True, FN_COMPILE)
        d = L.deep_diff(spec, out1, "spec")
        r.check(clause_rt, d is None, fn_rt,
                "" if d is None else "compile(print(spec)) differs from spec at %s: expected %s, compiled %s | source: %s"
                % (d[0], d[1], d[2], _excerpt(files1["main.mal"])),
                None if d is None else _signature(d, spec))
        bad = L.classification_violations(out1)
        r.check("C04.reaches-last-is-step", not bad, FN_VISITOR + "._resolve_part_ID_type", "; ".join(bad[:3]),
                "classification")

    if lkind != "single":
        layout = L.make_layout(lkind, len(decls), lseed)
        files2 = L.layout_files(decls, layout, L.Style(style_seed + 1))
        st2, out2 = L.compile_files(files2, via_language_graph=via_lg)
        lc = _layout_class(layout)
        if st2 == "exc":
            ok = st1 == "exc" and type(out1) is type(out2)
            r.check("C04.include-invariant", ok, FN_COMPILE,
                    "layout %s %s raises %s: %s" % (lkind, [p for p, _ in layout["files"]], type(out2).__name__, str(out2)[:200]),
                    "%s:%s" % (lc, type(out2).__name__))
        elif st1 == "ok":
            a, b = (out1, out2) if layout["ordered"] else (L.unordered(out1), L.unordered(out2))
            d = L.deep_diff(a, b, "spec")
            r.check("C04.include-invariant", d is None, FN_VISITOR + ".visitMal",
                    "" if d is None else "layout %s %s: result differs from the single-file result at %s: single %s, split %s"
                    % (lkind, json.dumps(layout["files"])[:300], d[0], d[1], d[2]),
                    None if d is None else "%s:%s" % (lc, _signature(d)))
            if recipe["kind"] == "corelang":
                d2 = L.deep_diff(L.unordered(spec) if not layout["ordered"] else spec,
                                 L.unordered(out2) if not layout["ordered"] else out2, "spec")
                r.check("C04.corelang-equals-mar", d2 is None, FN_VISITOR,
                        "" if d2 is None else "split coreLang differs from the .mar at %s: %s vs %s" % d2,
                        None if d2 is None else _signature(d2, spec))

    if spec.get("assets") or spec.get("associations"):
        h = hashlib.sha256(json.dumps(spec, sort_keys=True).encode()).hexdigest()[:12]
        r.nontrivial_key = "%s|%s|%s" % (h, lkind, recipe.get("via", ""))
    return r


def _excerpt(text, n=300):
    t = " ".join(text.split())
    return t if len(t) <= n else t[:n] + "..."


if __name__ == "__main__":
    common.main(globals())
