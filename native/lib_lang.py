"""
Helpers of the `lang` floors (C03, C15, C16).

Everything that plays the role of an ORACLE here is written from the property statements / the MAL reading of a
language specification (a langspec dict), never from the code under test:

  ancestors / is_sub / descendants      reflexive-transitive closure of `extends`
  steps_ref                             the inheritance fold Steps(T) of C03
  fields_of / static_type               which role names a type can navigate and the declared type at their end
                                        (only used to *generate* well-typed expressions)
  participating_assocs / lookup_ref     C15 association clauses

plus input builders (chain languages, small catalogue languages, random models, .mar / .mal writers) and an
aliasing detector.  Never print/repr python_jsonschema_objects instances.
"""
from __future__ import annotations
import copy, json, os, sys, zipfile, random

sys.path.insert(0, os.path.dirname(os.path.abspath(__file__)))
import mini
from mini import field, step, var, collect, union, inter, diff, trans, sub, path, attack_step, asset, assoc, lang


# ---------------------------------------------------------------------------------------------------
# reference view of a langspec dict

def decl(spec, name):
    for a in spec["assets"]:
        if a["name"] == name:
            return a
    return None


def ancestors(spec, name):
    """[name, parent, grand-parent, ...] (reflexive; stops at an undeclared or missing parent)"""
    out, seen = [], set()
    while name is not None and name not in seen:
        d = decl(spec, name)
        if d is None:
            break
        out.append(name); seen.add(name)
        name = d["superAsset"]
    return out


def is_sub(spec, t, u):
    return u in ancestors(spec, t)


def descendants(spec, name):
    return [a["name"] for a in spec["assets"] if name in ancestors(spec, a["name"])]


def steps_ref(spec, name):
    """Steps(T) of the C03 statement: the declarations of T's ancestors folded from the root down.
    '->' replaces, '+>' keeps the inherited definition and appends, no reaches clause leaves it untouched.
    Returns {step name: definition dict} (fresh objects)."""
    chain = list(reversed(ancestors(spec, name)))          # root first
    res = {}
    for tname in chain:
        for d in decl(spec, tname)["attackSteps"]:
            n = d["name"]
            if n not in res:
                res[n] = copy.deepcopy(d)
            elif d["reaches"] is None:
                pass
            elif d["reaches"]["overrides"]:
                res[n] = copy.deepcopy(d)
            else:
                own = copy.deepcopy(d["reaches"]["stepExpressions"])
                if res[n]["reaches"] is None:
                    res[n]["reaches"] = {"overrides": False, "stepExpressions": own}
                else:
                    res[n]["reaches"]["stepExpressions"] = res[n]["reaches"]["stepExpressions"] + own
    return res


def fields_of(spec, tname):
    """{role name: (declared type at that end, association index)} navigable from type `tname`
    (an association end is navigable from every sub-type of the opposite end)."""
    out = {}
    for k, a in enumerate(spec["associations"]):
        if is_sub(spec, tname, a["rightAsset"]):
            out.setdefault(a["leftField"], (a["leftAsset"], k))
        if is_sub(spec, tname, a["leftAsset"]):
            out.setdefault(a["rightField"], (a["rightAsset"], k))
    return out


def lca(spec, t, u):
    for x in ancestors(spec, t):
        if is_sub(spec, u, x):
            return x
    return None


def variable_ref(spec, tname, vname):
    for x in ancestors(spec, tname):
        for v in decl(spec, x)["variables"]:
            if v["name"] == vname:
                return v["stepExpression"]
    return None


def static_type(spec, tname, e):
    """declared type of the assets expression `e` denotes when evaluated on an asset of type tname; None = ill-typed.
    (the final attackStep of a collect does not change the type)"""
    k = e["type"]
    if tname is None:
        return None
    if k == "attackStep":
        return tname
    if k == "field":
        f = fields_of(spec, tname).get(e["name"])
        return f[0] if f and decl(spec, f[0]) else None
    if k == "collect":
        return static_type(spec, static_type(spec, tname, e["lhs"]), e["rhs"])
    if k in ("union", "intersection", "difference"):
        l, r = static_type(spec, tname, e["lhs"]), static_type(spec, tname, e["rhs"])
        if l is None or r is None:
            return None
        return lca(spec, l, r)
    if k == "transitive":
        t = static_type(spec, tname, e["stepExpression"])
        return t
    if k == "subType":
        t = static_type(spec, tname, e["stepExpression"])
        if t is None or decl(spec, e["subType"]) is None or not is_sub(spec, e["subType"], t):
            return None
        return e["subType"]
    if k == "variable":
        ve = variable_ref(spec, tname, e["name"])
        return static_type(spec, tname, ve) if ve is not None else None
    return None


def participating_assocs(spec, tname):
    """indices of the declared associations in which tname or one of its ancestors takes part"""
    anc = ancestors(spec, tname)
    return [k for k, a in enumerate(spec["associations"]) if a["leftAsset"] in anc or a["rightAsset"] in anc]


def assoc_sig(a):
    """comparable signature of a declared association (langspec dict)"""
    return (a["name"], a["leftAsset"], a["leftField"], a["rightAsset"], a["rightField"])


def lg_assoc_sig(n):
    """same signature of a LanguageGraphAssociation"""
    return (n.name, n.left_field.asset.name, n.left_field.fieldname, n.right_field.asset.name, n.right_field.fieldname)


def lookup_ref(spec, f1, f2, t1, t2):
    """signatures of the declared associations matching 'an asset of type t1 sits in role f1 and one of type t2 in
    role f2', in either orientation"""
    out = []
    for a in spec["associations"]:
        if (a["leftField"] == f1 and a["rightField"] == f2 and is_sub(spec, t1, a["leftAsset"])
                and is_sub(spec, t2, a["rightAsset"])) or \
           (a["leftField"] == f2 and a["rightField"] == f1 and is_sub(spec, t2, a["leftAsset"])
                and is_sub(spec, t1, a["rightAsset"])):
            out.append(assoc_sig(a))
    return out


# ---------------------------------------------------------------------------------------------------
# aliasing detector

def containers(obj, path="", out=None):
    """{id: path} of every dict / list reachable from obj"""
    if out is None:
        out = {}
    if isinstance(obj, dict):
        if id(obj) in out:
            return out
        out[id(obj)] = path
        for k, v in obj.items():
            containers(v, "%s[%r]" % (path, k), out)
    elif isinstance(obj, list):
        if id(obj) in out:
            return out
        out[id(obj)] = path
        for i, v in enumerate(obj):
            containers(v, "%s[%d]" % (path, i), out)
    return out


def shared(result, spec):
    """[(path in result, path in spec)] of mutable containers of `result` that are objects of `spec`"""
    s = containers(spec, "spec")
    r = containers(result, "result")
    return [(p, s[i]) for i, p in r.items() if i in s]


# ---------------------------------------------------------------------------------------------------
# C03: chain languages

KINDS = "AOEN"      # per level and step: Absent / '->' (overrides True) / '+>' (overrides False) / declared, No reaches
STEP_TYPES = {"s": "or", "u": "and"}


def _chain_decl(sname, kind, tag):
    if kind == "A":
        return None
    if kind == "N":
        return attack_step(sname, STEP_TYPES[sname], reaches=None)
    exprs = [step("t_%s_a" % tag), path(field("down"), step("t_%s_b" % tag))]
    return attack_step(sname, STEP_TYPES[sname], reaches=exprs, overrides=(kind == "O"))


def chain_language(kinds, sib=False, reverse=False):
    """kinds: list (one entry per level, root first) of strings over KINDS, one character per step name in
    ('s','u')[:len(entry)].  Types T0 <- T1 <- ... ; optional siblings S<i> extends T<i-1> declaring every step
    with '+>'.  Every target step t_* is declared on the root without a reaches clause, 'down'/'up' is a
    reflexive association on T0.  reverse=True lists the assets in reverse order in the specification."""
    names = ("s", "u")
    tags = []
    assets = []
    for i, ks in enumerate(kinds):
        steps = []
        for j, k in enumerate(ks):
            d = _chain_decl(names[j], k, "%d%s" % (i, names[j]))
            if d is not None:
                steps.append(d)
            tags.append("%d%s" % (i, names[j]))
        assets.append(asset("T%d" % i, sup=("T%d" % (i - 1)) if i else None, steps=steps))
    if sib:
        for i in range(1, len(kinds) + 1):
            steps = []
            for j in range(len(kinds[0])):
                tag = "x%d%s" % (i, names[j])
                steps.append(_chain_decl(names[j], "E", tag)); tags.append(tag)
            assets.append(asset("S%d" % i, sup="T%d" % (i - 1), steps=steps))
    targets = [attack_step("t_%s_%s" % (t, ab), "or") for t in tags for ab in "ab"]
    assets[0]["attackSteps"] = assets[0]["attackSteps"] + targets
    if reverse:
        assets = list(reversed(assets))
    return lang(assets, [assoc("R", "T0", "up", "T0", "down")])


# ---------------------------------------------------------------------------------------------------
# models from JSON recipes that refer to associations by their index in the specification

def assoc_class(lcf, a):
    """name of the generated class for declared association `a`: the class named after the association (or
    <name>_...) that has both role names as properties; falls back to the factory's signature lookup"""
    cands = []
    for cname in sorted(n for n in dir(lcf.ns) if n == a["name"] or n.startswith(a["name"] + "_")):
        info = getattr(getattr(lcf.ns, cname), "__propinfo__", None)
        if info and a["leftField"] in info and a["rightField"] in info:
            cands.append(cname)
    if len(cands) > 1:
        # several same-named associations with the same two role names (between different asset pairs): the class whose
        # two properties hold the declared asset types (read off the factory's JSON schema)
        for cname in cands:
            if _schema_ends(lcf, a["name"], cname) == {a["leftField"]: a["leftAsset"], a["rightField"]: a["rightAsset"]}:
                return cname
    if cands:
        return cands[0]
    return lcf.get_association_by_signature(a["name"], a["leftAsset"], a["rightAsset"])


def _schema_ends(lcf, name, cname):
    """{role name: asset type name} of the generated association class `cname` according to lcf.json_schema"""
    try:
        ent = lcf.json_schema["definitions"]["LanguageAssociation"]["definitions"][name]
        if cname != name:
            ent = ent["definitions"][cname]
        return {f: v["items"]["$ref"].rsplit("/", 1)[1] for f, v in ent["properties"].items()}
    except (KeyError, AttributeError, TypeError):
        return None


def build_model(lcf, spec, recipe, name="m"):
    """recipe = {"assets": [[type, name], ...], "links": [[assoc index, left asset idx, right asset idx], ...],
                 "attackers": [[name, [[asset idx, [steps]], ...]], ...], "defenses": {asset idx(str): {name: value}}}
    one association object per link.  Returns (model, objs)."""
    links = []
    for (k, li, ri) in recipe.get("links", []):
        a = spec["associations"][k]
        cls = assoc_class(lcf, a)
        links.append([cls, a["leftField"], [li], a["rightField"], [ri]])
    defs = recipe.get("defenses", {})
    assets = [[t, n, None, defs.get(str(i), {})] for i, (t, n) in enumerate(recipe.get("assets", []))]
    attackers = [[n, None, eps] for (n, eps) in recipe.get("attackers", [])]
    return mini.build_model(lcf, {"assets": assets, "links": links, "attackers": attackers}, name)


def transitive_assocs(spec):
    """indices of the associations one of whose role names occurs under a transitive operator somewhere in spec.
    (On the pinned tree the transitive closure has no visited set - DESIGN defect (c) - so a cycle along such an
    association makes attack-graph generation run for ever; floors that are not about C01 keep those links acyclic.)"""
    names = set()

    def walk(e, under):
        if isinstance(e, dict):
            if e.get("type") == "field" and under:
                names.add(e["name"])
            for v in e.values():
                walk(v, under or e.get("type") == "transitive")
        elif isinstance(e, list):
            for v in e:
                walk(v, under)
    walk(spec["assets"], False)
    return {k for k, a in enumerate(spec["associations"]) if a["leftField"] in names or a["rightField"] in names}


def random_model_recipe(spec, rnd, n_assets, density=0.5, attackers=0, types=None, acyclic=None):
    """acyclic: set of association indices whose links must go from a lower to a higher asset index
    (default: transitive_assocs(spec))"""
    types = types or [a["name"] for a in spec["assets"] if not a["isAbstract"]]
    if acyclic is None:
        acyclic = transitive_assocs(spec)
    assets = [[rnd.choice(types), "a%d" % i] for i in range(n_assets)]
    links = []
    for k, a in enumerate(spec["associations"]):
        for i, (ti, _) in enumerate(assets):
            for j, (tj, _) in enumerate(assets):
                if k in acyclic and not i < j:
                    continue
                if is_sub(spec, ti, a["leftAsset"]) and is_sub(spec, tj, a["rightAsset"]) and rnd.random() < density:
                    links.append([k, i, j])
    atts = []
    for q in range(attackers):
        eps = []
        for i, (ti, _) in enumerate(assets):
            names = [n for n, d in steps_ref(spec, ti).items() if d["type"] in ("or", "and")]
            if names and rnd.random() < 0.6:
                eps.append([i, sorted(rnd.sample(names, min(len(names), rnd.randint(1, 2))))])
        if eps:
            atts.append(["att%d" % q, eps])
    defenses = {}
    for i, (ti, _) in enumerate(assets):
        ds = {n: rnd.choice([0.0, 1.0]) for n, d in steps_ref(spec, ti).items() if d["type"] == "defense" and rnd.random() < 0.5}
        if ds:
            defenses[str(i)] = ds
    return {"assets": assets, "links": links, "attackers": atts, "defenses": defenses}


# ---------------------------------------------------------------------------------------------------
# files

def write_mar(spec, filename):
    """a .mar the way LanguageGraph.from_mar_archive reads it: a zip with a member 'langspec.json'"""
    with zipfile.ZipFile(filename, "w") as z:
        z.writestr("langspec.json", json.dumps(spec))


def _mal_expr(e, top=True):
    k = e["type"]
    if k in ("field", "attackStep"):
        return e["name"]
    if k == "variable":
        return e["name"] + "()"
    if k == "collect":
        return _mal_expr(e["lhs"], False) + "." + _mal_expr(e["rhs"], False)
    if k in ("union", "intersection", "difference"):
        op = {"union": "\\/", "intersection": "/\\", "difference": "-"}[k]
        return "(" + _mal_expr(e["lhs"], False) + " " + op + " " + _mal_expr(e["rhs"], False) + ")"
    if k == "transitive":
        return _mal_expr(e["stepExpression"], False) + "*"
    if k == "subType":
        return _mal_expr(e["stepExpression"], False) + "[" + e["subType"] + "]"
    raise ValueError(k)


def _mal_mult(m):
    lo, hi = m["min"], m["max"]
    if (lo, hi) == (0, None): return "*"
    if (lo, hi) == (1, None): return "1..*"
    if (lo, hi) == (0, 1): return "0..1"
    if (lo, hi) == (1, 1): return "1"
    raise ValueError(m)


def to_mal(spec):
    """MAL source text of a langspec dict (subset: no meta, no risk; ttc None / Enabled / Disabled / one
    distribution call).  Raises ValueError outside the subset."""
    out = ['#id: "%s"' % spec["defines"]["id"], '#version: "%s"' % spec["defines"]["version"]]
    sym = {"or": "|", "and": "&", "defense": "#", "exist": "E", "notExist": "!E"}
    for c in spec["categories"]:
        out.append("category %s {" % c["name"])
        for a in spec["assets"]:
            if a["category"] != c["name"]:
                continue
            if a["meta"]:
                raise ValueError("meta")
            out.append("  %sasset %s%s {" % ("abstract " if a["isAbstract"] else "", a["name"],
                                             (" extends " + a["superAsset"]) if a["superAsset"] else ""))
            for v in a["variables"]:
                out.append("    let %s = %s" % (v["name"], _mal_expr(v["stepExpression"])))
            for s in a["attackSteps"]:
                if s["meta"] or s["risk"]:
                    raise ValueError("meta/risk")
                line = "    %s %s" % (sym[s["type"]], s["name"])
                for t in s["tags"]:
                    line += " @" + t
                if s["ttc"] is not None:
                    t = s["ttc"]
                    if t["type"] != "function":
                        raise ValueError("ttc")
                    line += " [%s(%s)]" % (t["name"], ", ".join(repr(float(x)) for x in t["arguments"]))
                if s["requires"] is not None:
                    line += " <- " + ", ".join(_mal_expr(e) for e in s["requires"]["stepExpressions"])
                if s["reaches"] is not None:
                    line += (" -> " if s["reaches"]["overrides"] else " +> ") + \
                        ", ".join(_mal_expr(e) for e in s["reaches"]["stepExpressions"])
                out.append(line)
            out.append("  }")
        out.append("}")
    out.append("associations {")
    for a in spec["associations"]:
        if a["meta"]:
            raise ValueError("meta")
        out.append("  %s [%s] %s <-- %s --> %s [%s] %s" % (
            a["leftAsset"], a["leftField"], _mal_mult(a["leftMultiplicity"]), a["name"],
            _mal_mult(a["rightMultiplicity"]), a["rightField"], a["rightAsset"]))
    out.append("}")
    return "\n".join(out) + "\n"


# ---------------------------------------------------------------------------------------------------
# small catalogue languages (C16)

def lang_inherit():
    """three-level chain with the shape 'no reaches / +> / +>' on step s, '->' and '+>' on u, a defense, an exist step
    and a sub-typed association end"""
    P = asset("P", abstract=False, steps=[
        attack_step("s", "or"),
        attack_step("u", "and", reaches=[step("s")]),
        attack_step("a", "or", reaches=[path(field("qs"), step("k"))]),
        attack_step("b", "or"),
        attack_step("d", "defense", ttc=mini.TTC_DISABLED, reaches=[step("u")]),
        attack_step("e", "exist", requires=[field("qs")], reaches=[step("a")]),
    ])
    Ch = asset("Ch", sup="P", steps=[
        attack_step("s", "or", reaches=[step("a")], overrides=False),
        attack_step("u", "and", reaches=[step("b"), path(field("qs"), step("k"))], overrides=True),
    ])
    Gc = asset("Gc", sup="Ch", steps=[
        attack_step("s", "or", reaches=[step("b"), path(field("down"), step("s"))], overrides=False),
        attack_step("u", "and", reaches=[path(trans("down"), step("a"))], overrides=False),
    ])
    Q = asset("Q", steps=[
        attack_step("k", "or", ttc=mini.ttc_exp(0.5), reaches=[path(field("ps"), step("s")), path(sub("Gc", field("ps")), step("u"))]),
        attack_step("ne", "notExist", requires=[field("ps")], reaches=[step("k")]),
    ])
    return lang([P, Ch, Gc, Q], [assoc("PQ", "P", "ps", "Q", "qs"), assoc("PP", "P", "up", "P", "down")])


def lang_setops():
    """set operators, a variable, sub-typing, tags"""
    B = asset("B", abstract=True, steps=[attack_step("t", "or", tags=["hidden"]), attack_step("w", "and", reaches=[step("t")])])
    B1 = asset("B1", sup="B", steps=[attack_step("t", "or", reaches=[path(field("src1"), step("z"))], overrides=True)])
    B2 = asset("B2", sup="B", steps=[attack_step("w", "and", reaches=[path(field("src2"), step("z"))], overrides=False)])
    Src = asset("Src", variables=[("both", union(field("f1"), field("f2")))], steps=[
        attack_step("s", "or", reaches=[path(var("both"), step("t")), path(inter(field("f1"), field("g1")), step("w"))]),
        attack_step("z", "or", reaches=[path(diff(field("f1"), field("g1")), step("t")),
                                        path(sub("B1", union(field("g1"), field("f1"))), step("w"))]),
        attack_step("d", "defense", ttc=mini.TTC_ENABLED, reaches=[step("s")]),
    ])
    return lang([B, B1, B2, Src], [assoc("F1", "Src", "src1", "B1", "f1"), assoc("F2", "Src", "src2", "B2", "f2"),
                                 assoc("G1", "Src", "gsrc", "B1", "g1")])


CATALOGUE = {"two": mini.lang_two_types, "inherit": lang_inherit, "setops": lang_setops}


def catalogue_language(name):
    """name: key of CATALOGUE or 'chain:<kinds joined by />[:sib][:rev]', optionally followed by REV_SUFFIX
    (= revise() of the language named before the suffix)"""
    if name.endswith(REV_SUFFIX):
        return revise(catalogue_language(name[:-len(REV_SUFFIX)]))
    if name in CATALOGUE:
        return CATALOGUE[name]()
    if name.startswith("chain:"):
        parts = name.split(":")
        return chain_language(parts[1].split("/"), sib="sib" in parts[2:], reverse="rev" in parts[2:])
    raise KeyError(name)


# ---------------------------------------------------------------------------------------------------
# C15: languages over <= 3 types from a compact recipe

def forests(names):
    """every assignment of a parent (or None) to each name without cycles, as [[name, parent], ...]"""
    import itertools
    out = []
    for parents in itertools.product([None] + list(names), repeat=len(names)):
        ok = True
        for n, p in zip(names, parents):
            seen = {n}
            while p is not None:
                if p in seen:
                    ok = False
                    break
                seen.add(p)
                p = parents[names.index(p)]
            if not ok:
                break
        if ok:
            out.append([[n, p] for n, p in zip(names, parents)])
    return out


def assoc_sets(names):
    """every multiset of <= 2 association ends (left, right) over names (ordered pairs incl. reflexive ones); two
    associations come once with different names (L0, L1) and once with the same name (L); role names l<k>/r<k>"""
    import itertools
    pairs = [(l, r) for l in names for r in names]
    yield []
    for (l, r) in pairs:
        yield [["L0", l, "l0", r, "r0"]]
    for i, (l, r) in enumerate(pairs):
        for (l2, r2) in pairs[i:]:
            yield [["L0", l, "l0", r, "r0"], ["L1", l2, "l1", r2, "r1"]]
            yield [["L", l, "l0", r, "r0"], ["L", l2, "l1", r2, "r1"]]


def expr_pool(spec, tname, ops="all"):
    """ops: "nav" (roles, two hops, transitive, subType), "sets" (nav + union / intersection / difference),
    "all" (sets + subType over a union).
    [(expression, declared type of its value)] : the well-typed navigation expressions (MAL typing: role names
    navigable from tname or an ancestor; set operators need a common ancestor and have the closest one as type;
    e[S] needs S below the type of e; f* needs f navigable from its own target type) over the roles visible from
    tname, up to two hops / one set operator"""
    F = fields_of(spec, tname)
    out = []
    proper = lambda t: [d for d in descendants(spec, t) if d != t]
    for f, (tf, _) in F.items():
        out.append((field(f), tf))
        for g, (tg, _) in fields_of(spec, tf).items():
            out.append((collect(field(f), field(g)), tg))
        if f in fields_of(spec, tf) and fields_of(spec, tf)[f][0] == tf:
            out.append((trans(f), tf))
        for s in proper(tf):
            out.append((sub(s, field(f)), s))
    for f, (tf, _) in F.items():
        for g, (tg, _) in F.items():
            if f == g:
                continue
            l = lca(spec, tf, tg)
            if l is None or ops == "nav":
                continue
            out.append((union(field(f), field(g)), l))
            out.append((inter(field(f), field(g)), l))
            out.append((diff(field(f), field(g)), l))
            if ops == "all":
                for s in proper(l):
                    out.append((sub(s, union(field(f), field(g))), s))
    return out


def shape(e):
    """operator skeleton of an expression (no names)"""
    k = e["type"]
    if k in ("field", "attackStep", "variable"):
        return {"field": "f", "attackStep": "step", "variable": "var"}[k]
    if k in ("collect", "union", "intersection", "difference"):
        return "%s(%s,%s)" % (k, shape(e["lhs"]), shape(e["rhs"]))
    if k in ("transitive", "subType"):
        return "%s(%s)" % (k, shape(e["stepExpression"]))
    return k


def final_step(e):
    while e["type"] == "collect":
        e = e["rhs"]
    return e["name"] if e["type"] == "attackStep" else None


def c15_spec(recipe):
    """langspec dict of a C15 recipe
       {"types": [[name, parent-or-null], ...], "assocs": [[name, left, lrole, right, rrole], ...],
        "mode": "structure" | "full" | "ill", "ops": "nav" | "sets" | "all" (full only), "ill": {...}}
    structure: every root declares step t, every type X declares step o<X> (no reaches clauses).
    full: in addition every type declares one step s<i> per expression of expr_pool (reaching step o<type of the
          expression> on it) and, when it has a role, a variable v = its first role used by step sv.
          with "targets": "owned" also one step per (expression, other step owned by the type of the expression:
          inherited t / o<ancestor>).
    ill:  structure plus ONE dangling reference described by recipe["ill"]:
          {"kind": "super", "type": X, "to": name}            X extends an undeclared asset
          {"kind": "assoc", "k": i, "left": name|null, "right": name|null}   association ends replaced
          {"kind": "step", "type": X, "exprs": [...], "extend_in": Y|null}  step `bad` on X with these reaches
                 expressions (if extend_in: X declares `bad` without reaches and sub-type Y adds them with '+>')"""
    types = recipe["types"]
    assets = []
    for (n, p) in types:
        steps = [attack_step("o" + n, "or")]
        if p is None:
            steps.insert(0, attack_step("t", "or"))
        assets.append(asset(n, sup=p, steps=steps))
    assocs = [assoc(a[0], a[1], a[2], a[3], a[4]) for a in recipe["assocs"]]
    spec = lang(assets, assocs)
    mode = recipe.get("mode", "structure")
    if mode == "full":
        base = copy.deepcopy(spec)
        for a in spec["assets"]:
            pool = expr_pool(base, a["name"], recipe.get("ops", "all"))
            for i, (e, ty) in enumerate(pool):
                a["attackSteps"].append(attack_step("s%s%d" % (a["name"], i), "or", reaches=[collect(e, step("o" + ty))]))
            if pool:
                e, ty = pool[0]
                a["variables"].append({"name": "v" + a["name"], "stepExpression": e})
                a["attackSteps"].append(attack_step("sv" + a["name"], "or", reaches=[collect(var("v" + a["name"]), step("o" + ty))]))
            if recipe.get("targets") == "owned":
                # in addition one step per (expression, step that the type of the expression OWNS, i.e. declares itself
                # or inherits: t of its root, o<ancestor>); the variable likewise
                for i, (e, ty) in enumerate(pool):
                    for j, tn in enumerate(n for n in sorted(steps_ref(base, ty)) if n != "o" + ty):
                        a["attackSteps"].append(attack_step("s%s%d_%d" % (a["name"], i, j), "or", reaches=[collect(e, step(tn))]))
                if pool:
                    for j, tn in enumerate(n for n in sorted(steps_ref(base, pool[0][1])) if n != "o" + pool[0][1]):
                        a["attackSteps"].append(attack_step("sv%s_%d" % (a["name"], j), "or",
                                                            reaches=[collect(var("v" + a["name"]), step(tn))]))
    elif mode == "ill":
        ill = recipe["ill"]
        if ill["kind"] == "super":
            decl(spec, ill["type"])["superAsset"] = ill["to"]
        elif ill["kind"] == "assoc":
            a = spec["associations"][ill["k"]]
            if ill.get("left"):
                a["leftAsset"] = ill["left"]
            if ill.get("right"):
                a["rightAsset"] = ill["right"]
        elif ill["kind"] == "step":
            d = decl(spec, ill["type"])
            if ill.get("extend_in"):
                d["attackSteps"].append(attack_step("bad", "or"))
                decl(spec, ill["extend_in"])["attackSteps"].append(
                    attack_step("bad", "or", reaches=ill["exprs"], overrides=False))
            else:
                d["attackSteps"].append(attack_step("bad", "or", reaches=ill["exprs"]))
        else:
            raise ValueError(ill["kind"])
    return spec


# ---------------------------------------------------------------------------------------------------
# C15: role names shared between associations

def fields_multi(spec, tname):
    """{role name: [(declared type at that end, association index), ...]} navigable from type tname: like fields_of but
    keeping every association that offers the role"""
    out = {}
    for k, a in enumerate(spec["associations"]):
        if is_sub(spec, tname, a["rightAsset"]):
            out.setdefault(a["leftField"], []).append((a["leftAsset"], k))
        if is_sub(spec, tname, a["leftAsset"]):
            out.setdefault(a["rightField"], []).append((a["rightAsset"], k))
    return out


def roles_unambiguous(spec):
    """MAL well-formedness of role names: no type has (itself or through an ancestor) two fields of the same name.
    Under this condition fields_of / static_type are well defined even when associations share role names."""
    return all(len(v) == 1 for a in spec["assets"] for v in fields_multi(spec, a["name"]).values())


ROLE_PATTERNS = [("l0", "r0"), ("r0", "l0"), ("l0", "r1"), ("l1", "r0"), ("r0", "r1"), ("l1", "l0")]


def assoc_sets_shared_roles(names):
    """two associations, every ORDERED pair of ends (left, right), (left2, right2) over names (declaration order counts),
    the first with roles l0 / r0, the second re-using at least one of these role names (ROLE_PATTERNS: both in the same
    or in swapped position, one of them on its left or right end), once with distinct and once with equal association
    names.  Includes ill-formed combinations (a type with two fields of one name): filter with roles_unambiguous."""
    pairs = [(l, r) for l in names for r in names]
    for (l, r) in pairs:
        for (l2, r2) in pairs:
            for (lf, rf) in ROLE_PATTERNS:
                yield [["L0", l, "l0", r, "r0"], ["L1", l2, lf, r2, rf]]
                yield [["L", l, "l0", r, "r0"], ["L", l2, lf, r2, rf]]


# ---------------------------------------------------------------------------------------------------
# C16: several tags per step; revisions of a language under one #id / #version

def lang_tags():
    """steps and a defense carrying 2-5 tags (the serialised `tags` of a node is a list: order is content), tags on an
    inherited step, on a '+>' extension and on an '->' override in a sub-type; a variable"""
    Node = asset("Node", variables=[("peers", union(field("svcs"), path(field("down"), field("svcs"))))], steps=[
        attack_step("reach", "or", tags=["entry", "remote", "logged", "hidden", "noisy"],
                    reaches=[path(var("peers"), step("use")), step("own")]),
        attack_step("own", "and", tags=["review", "optional", "logged"], reaches=[path(field("svcs"), step("idle"))]),
        attack_step("fixed", "defense", ttc=mini.TTC_DISABLED, tags=["suppress", "vendor"], reaches=[step("own")]),
    ])
    Edge = asset("Edge", sup="Node", steps=[
        attack_step("reach", "or", tags=["entry", "dmz"], reaches=[path(field("up"), step("reach"))], overrides=False),
        attack_step("own", "and", tags=["zz", "aa", "mm", "bb"], reaches=[step("reach")], overrides=True),
    ])
    Svc = asset("Svc", steps=[
        attack_step("use", "or", tags=["hidden", "entry", "sandboxed"], reaches=[path(field("host"), step("reach"))]),
        attack_step("idle", "or", tags=["quiet", "hidden"]),
    ])
    return lang([Node, Edge, Svc], [assoc("Runs", "Node", "host", "Svc", "svcs"), assoc("Link", "Node", "up", "Node", "down")])


CATALOGUE["tags"] = lang_tags

REV_SUFFIX = "~rev2"


def _first_role(e):
    """left-most role name (field expression) inside e, or None"""
    if e["type"] == "field":
        return e
    for k in ("lhs", "stepExpression", "rhs"):
        if k in e and isinstance(e[k], dict):
            f = _first_role(e[k])
            if f is not None:
                return f
    return None


def revise(spec):
    """another revision of the same language: SAME #id, #version, asset / association / step / variable names, different
    content -- every variable whose definition is not a plain role name is redefined as the left-most role name of its
    definition (a sub-expression, hence still well-typed wherever a step of the common ancestor is reached through it;
    steps whose target the narrower type does not own are dropped), every variable that is a plain role name r of type T
    becomes r[S] for the first proper sub-type S of T if there is one, every step with several reaches expressions loses
    the last one, every tag list is reversed.  Returns a fresh dict; it differs from spec whenever one of these applies."""
    out = copy.deepcopy(spec)
    for a in out["assets"]:
        for v in a["variables"]:
            e = v["stepExpression"]
            if e["type"] == "field":
                t = static_type(spec, a["name"], e)
                subs = [d for d in descendants(spec, t) if d != t] if t else []
                if subs:
                    v["stepExpression"] = sub(subs[0], copy.deepcopy(e))
            else:
                f = _first_role(e)
                if f is not None:
                    v["stepExpression"] = copy.deepcopy(f)
    for a in out["assets"]:
        for st in a["attackSteps"]:
            st["tags"] = list(reversed(st["tags"]))
            if st["reaches"] and len(st["reaches"]["stepExpressions"]) > 1:
                st["reaches"]["stepExpressions"] = st["reaches"]["stepExpressions"][:-1]
    # drop reaches / requires expressions that the redefinition of a variable has made ill-typed
    for a in out["assets"]:
        for st in a["attackSteps"]:
            for key in ("reaches", "requires"):
                if st[key]:
                    keep = []
                    for e in st[key]["stepExpressions"]:
                        body = e["lhs"] if e["type"] == "collect" and final_step(e) else (None if e["type"] == "attackStep" else e)
                        t = a["name"] if body is None else static_type(out, a["name"], body)
                        if t is not None and (final_step(e) is None or final_step(e) in steps_ref(out, t)):
                            keep.append(e)
                    st[key]["stepExpressions"] = keep
                    if key == "reaches" and not keep:
                        st[key] = None
    return out
