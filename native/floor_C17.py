"""
Bounded stand-in for C17 (malformed MAL source is rejected, never half-compiled).

Real code under test: maltoolbox.language.compiler.MalCompiler.compile.  Oracle: the grammar itself -- the generated
lexer/parser run from the harness with counting error listeners on the mutated file (the compiler under test is not
involved in the classification).  Valid sources come from the C04 printer; mutants are made on token boundaries
delivered by the real lexer.
"""
from __future__ import annotations
import hashlib, io, json, os, random, shutil, sys, tempfile
sys.path.insert(0, os.path.dirname(os.path.abspath(__file__)))
import common
from common import CaseResult
import lib_comp as L

PROPERTY = "C17"
FN = "maltoolbox.language.compiler:MalCompiler.compile"
SCOPE = {
    "quick": "10 valid sources (a hand-written one using every construct, a five-file layout over two sub-directories in "
             "which ONE include string names DIFFERENT files, the resolvable two-category mini language, "
             "6 seeded random specifications; 3 of them split over a root and 1-2 included files in the same "
             "directory) x every single-token deletion, 4 random token insertions (46-token vocabulary incl. reserved "
             "words, brackets, an illegal character, an unterminated string) before every token, truncation after and "
             "inside every token, a reserved word in place of every identifier, every brace / bracket / parenthesis "
             "dropped, doubled or flipped -- in the root file and in every included file; a mutant counts only when "
             "lexer + parser report >= 1 syntax error on the mutated file",
    "thorough": "as quick with 40 random sources, the whole insertion vocabulary at every position of 6 sources and "
                "20000 seeded double mutations",
}
EXHAUSTIVE = {"quick": False, "thorough": False}
RULE = ("case = (files of a valid program with one file mutated, description of the mutation); trivial when the "
        "grammar reports no syntax error on the mutated file and the parser consumed it entirely (the mutant is "
        "still a MAL program); distinct = distinct mutated text")
ASSUMPTIONS = [
    "the grammar's verdict on a file = number of syntaxError callbacks of the generated malLexer/malParser (default "
    "error strategy) on that file, obtained with listeners attached by the harness",
    "a source is malformed when the mutated file is (root or included; the other files are valid printer output)",
    "includes of the random sources name files in the root's directory; the same-include-string layout uses sub-directories "
    "(includes are relative to the including file)",
    "extra clause C17.rejects-unparsed-tail: rule `mal: declaration+ | EOF` has no EOF after the declarations, so the "
    "parser can stop silently before the end of the file without any syntaxError callback; such a text is not a "
    "sentence of the grammar and the result is assembled from the prefix that happened to parse. Kept as a separate "
    "clause because the quantifier names the counting listener only.",
]
BUDGET_S = {"quick": 100, "thorough": 1500}
CHUNK = 100

HANDWRITTEN = '''#id: "org.verif.hand"
#version: "1.0.0"
category System user info: "hi" {
  abstract asset Base developer info: "d" {
    let v = a1.b1 \\/ c1
    | s @hidden {C, A} [Exponential(0.1) * 2 + 3 ^ 2] user info: "u" -> a1.b1.t, (x /\\ y)*[Base].u, v().s
    & q [a1 / b1]
    # d [Disabled]
    E e <- a1, b1.c1 +> q
    !E ne <- a1 - b1 -> q
  }
  asset Host extends Base { | t }
}
associations {
  Base [a1] 1 <-- L1 --> 0..1 [b1] Host developer info: "dd"
  Base [x] * <-- L2 --> 1..* [y] Base
}
'''


# two sub-directories whose files use the SAME include string for DIFFERENT files (includes are relative to the including file)
SAME_STRING = {
    "main.mal": '#id: "org.same"\n#version: "1.0.0"\ninclude "net/main.mal"\ninclude "host/main.mal"\n',
    "net/main.mal": 'include "types.mal"\ncategory Net {\n  asset Router extends NetBase {\n    | route\n      -> forward\n    | forward\n  }\n}\n',
    "net/types.mal": 'category Net {\n  abstract asset NetBase {\n    | reach\n    # shielded\n      -> reach\n  }\n}\n',
    "host/main.mal": 'include "types.mal"\ncategory Compute {\n  asset Server extends Machine {\n    & boot\n      -> run\n    | run\n  }\n}\n',
    "host/types.mal": 'category Compute {\n  abstract asset Machine {\n    | power\n      -> power\n  }\n}\nassociations {\n  Machine [hosts] * <-- Runs --> * [guests] Machine\n}\n',
}


def base_sources(tier, seed):
    """list of (name, {path: text}) -- all valid"""
    out = [("hand", {"main.mal": HANDWRITTEN}), ("same-include-string", dict(SAME_STRING))]
    mini = L.valid_mini()
    decls = L.print_decls(mini, L.Style(0))
    out.append(("mini-1file", L.layout_files(decls, L.make_layout("single", len(decls), 0))))
    out.append(("mini-chain", L.layout_files(decls, L.make_layout("chain", len(decls), 5))))
    rnd = random.Random(seed)
    n = 40 if tier == "thorough" else 6
    for i in range(n):
        spec = L.gen_spec(rnd.randrange(1 << 30), size=rnd.choice((1, 1, 2)), depth=3)
        style = L.Style(rnd.randrange(1, 1000))
        decls = L.print_decls(spec, style)
        kind = ("single", "one", "single", "two", "single", "root-only-includes", "single", "repeat")[i % 8]
        lay = L.make_layout(kind, len(decls), rnd.randrange(1000))
        # plain file names only: includes with a directory part do not resolve on the pinned tree (defect i)
        lay["files"] = [[p.replace("sub/", "s_"), [[it[0], it[1].replace("sub/", "s_")] if it[0] == "inc" else it for it in items]]
                        for p, items in lay["files"]]
        files = L.layout_files(decls, lay, style)
        if sum(len(t) for t in files.values()) > 3000:
            continue
        out.append(("rnd%d-%s" % (i, kind), files))
    return out


def cases(tier, seed):
    rnd = random.Random(seed + 1)
    bases = base_sources(tier, seed)
    for bi, (name, files) in enumerate(bases):
        yield {"base": name, "files": files, "root": "main.mal", "mutated": None, "how": "unmutated"}
        for path in files:
            per_kind = None
            for (how, text) in L.mutants_of(files[path], seed=seed * 1000 + bi, per_kind=per_kind):
                f2 = dict(files); f2[path] = text
                yield {"base": name, "files": f2, "root": "main.mal", "mutated": path, "how": how}
            if tier == "thorough" and bi < 6:
                toks = L.lex(files[path])
                for (ty, tx, a, b) in toks:
                    for ins in L.INSERT_TOKENS:
                        f2 = dict(files); f2[path] = files[path][:a] + " " + ins + " " + files[path][a:]
                        yield {"base": name, "files": f2, "root": "main.mal", "mutated": path, "how": "insert %r before offset %d" % (ins, a)}
    if tier == "thorough":
        for _ in range(20000):
            name, files = rnd.choice(bases)
            path = rnd.choice(sorted(files))
            ms = list(L.mutants_of(files[path], seed=rnd.randrange(1 << 30), per_kind=3))
            if not ms:
                continue
            how1, t1 = rnd.choice(ms)
            ms2 = list(L.mutants_of(t1, seed=rnd.randrange(1 << 30), per_kind=2))
            if not ms2:
                continue
            how2, t2 = rnd.choice(ms2)
            f2 = dict(files); f2[path] = t2
            yield {"base": name, "files": f2, "root": "main.mal", "mutated": path, "how": how1 + " ; then " + how2}


def _kind(how):
    for k in ("delete", "insert", "truncate", "reserved", "unbalanced", "unmutated"):
        if how.startswith(k):
            return k
    return "other"


def run_case(recipe):
    from maltoolbox.language.compiler import MalCompiler
    r = CaseResult()
    files, root, mutated, how = recipe["files"], recipe["root"], recipe["mutated"], recipe["how"]
    d = tempfile.mkdtemp(prefix="c17_")
    try:
        L.write_files(files, d)
        target = os.path.join(d, mutated or root)
        lex_err, parse_err, consumed = L.grammar_verdict(target)
        saved = sys.stderr
        sys.stderr = io.StringIO()           # ANTLR's ConsoleErrorListener prints every error
        try:
            try:
                out = MalCompiler().compile(os.path.join(d, root))
                raised = None
            except RecursionError as e:
                out, raised = None, e
            except Exception as e:           # noqa: BLE001  any exception type counts as rejection
                out, raised = None, e
        finally:
            sys.stderr = saved
    finally:
        shutil.rmtree(d, ignore_errors=True)

    if mutated is None:
        # harness sanity: the base programs are valid; a valid program must compile
        if lex_err or parse_err or not consumed:
            raise AssertionError("base source %s is not valid according to the grammar" % recipe["base"])
        r.check("C17.valid-accepted", raised is None, FN,
                "valid source %s raises %s: %s" % (recipe["base"], type(raised).__name__, str(raised)[:200]), "valid-rejected")
        return r

    where = "root" if mutated == root else "included"
    if lex_err + parse_err > 0:
        cls = "lexer" if parse_err == 0 else ("parser" if lex_err == 0 else "lexer+parser")
        clause = "C17.rejects-lexical-error" if parse_err == 0 else "C17.rejects-%s-file" % where
        n_assets = len(out.get("assets", [])) if isinstance(out, dict) else -1
        r.check(clause, raised is not None, FN,
                "%s in %s (%s file): grammar reports %d lexer + %d parser errors, compile() returned a specification with "
                "%d assets / %d associations" % (how, mutated, where, lex_err, parse_err, n_assets,
                                                 len(out.get("associations", [])) if isinstance(out, dict) else -1),
                cls)
        r.nontrivial_key = hashlib.sha256(files[mutated].encode()).hexdigest()[:14]
    elif not consumed:
        r.check("C17.rejects-unparsed-tail", raised is not None, FN,
                "%s in %s (%s file): the parser stops before the end of the file without reporting an error; compile() "
                "returned a specification built from the prefix" % (how, mutated, where),
                "silent-stop")
        r.nontrivial_key = hashlib.sha256(files[mutated].encode()).hexdigest()[:14]
    return r


if __name__ == "__main__":
    common.main(globals())
