"""
Bounded stand-in for C11 (attackers and nodes always agree on what is compromised).

Real code under test: Attacker.compromise / undo_compromise, AttackGraphNode.compromise / undo_compromise /
is_compromised / is_compromised_by, AttackGraph.add_attacker / remove_attacker / attach_attackers, on real objects.
Reference: a set of (attacker, node) pairs updated as the property statement says (compromise = insert, undo = delete,
remove attacker = delete its pairs, attach = pairs named by the model's entry points that exist in the graph).
"""
from __future__ import annotations
import itertools, random, sys, os
sys.path.insert(0, os.path.dirname(os.path.abspath(__file__)))
import common
from common import CaseResult
import lib_aghist as L

PROPERTY = "C11"
ATT = "maltoolbox.attackgraph.attacker:Attacker."
AGF = "maltoolbox.attackgraph.attackgraph:AttackGraph."
SCOPE = {
    "quick": "histories: 2 attacker slots x 3 nodes, every applicable sequence of <=5 operations from {compromise(a,n), "
             "undo(a,n), remove_attacker(a), add_attacker(a) plain / with 2 reached steps / with a reached step named twice}, each call made from the attacker "
             "side or the node side (two alternating side patterns for <=4 ops, one for 5); "
             "attach: language A{s} -- B{t,u}, model a0--b0, 0..2 model attackers, every subset of 5 candidate entry points "
             "(two non-existent steps, two steps on one asset) per attacker, x {nothing, a named node removed first} x "
             "{attach once, twice}",
    "thorough": "as quick with both side patterns at length 5 and all side patterns for <=4 ops, + 200000 seeded random "
                "histories of 6-14 operations on 3 attacker slots x 5 nodes",
}
EXHAUSTIVE = {"quick": True, "thorough": False}
RULE = ("case = one history (list of operations with the side each call is made from) or one attach scenario; non-trivial when "
        "the reference relation is non-empty at some point or an attacker is removed/added; distinct = distinct sequence of "
        "(operation kind, effective/redundant) plus final relation (histories) / distinct expected entry sets (attach)")
ASSUMPTIONS = ["reference relation = set of pairs, updated per the property statement",
               "expected entry points computed from the model recipe (asset name + ':' + step) intersected with the names of "
               "the nodes present, never from the code's output",
               "membership tested by identity"]
BUDGET_S = {"quick": 100, "thorough": 1500}
CHUNK = 500

CANDS = [[0, "s"], [0, "nosuch"], [1, "t"], [1, "u"], [1, "s"]]       # (asset idx, step); a0:A has s ; b0:B has t,u


def _hist_seqs(maxlen, nslots, nnodes):
    """all applicable sequences (without sides); applicability = slot presence, tracked abstractly"""
    alphabet = ([["c", j, i] for j in range(nslots) for i in range(nnodes)] +
                [["u", j, i] for j in range(nslots) for i in range(nnodes)] +
                [["ra", j] for j in range(nslots)] +
                [["aa", j, s] for j in range(nslots) for s in (0, 1)])
    def rec(prefix, present):
        yield prefix
        if len(prefix) == maxlen:
            return
        for op in alphabet:
            j = op[1]
            if op[0] in ("c", "u", "ra") and not present[j]:
                continue
            if op[0] == "aa" and present[j]:
                continue
            p2 = present
            if op[0] == "ra":
                p2 = present[:j] + (False,) + present[j + 1:]
            elif op[0] == "aa":
                p2 = present[:j] + (True,) + present[j + 1:]
            yield from rec(prefix + [op], p2)
    yield from rec([], (True,) * nslots)


def cases(tier, seed):
    rnd = random.Random(seed)
    # attach scenarios first (few, cheap)
    subsets = [[CANDS[k] for k in range(5) if m >> k & 1] for m in range(32)]
    def eps(sub):
        out = {}
        for (k, st) in sub:
            out.setdefault(k, []).append(st)
        return [[k, v] for k, v in sorted(out.items())]
    models = [[]] + [[["m0", None, eps(s)]] for s in subsets] + \
             [[["m0", None, eps(s)], ["m1", None, eps(t)]] for s in subsets for t in subsets]
    for atk in models:
        for pre in (None, "a0:s", "b0:u"):
            for twice in (False, True):
                yield {"kind": "attach", "attackers": atk, "pre": pre, "twice": twice}
    # histories
    for seq in _hist_seqs(5, 2, 3):
        n = len(seq)
        if n == 0:
            continue
        if tier == "thorough" and n <= 4:
            pats = range(1 << n)
        elif n <= 4 or tier == "thorough":
            pats = (0b01010, 0b10101)
        else:
            pats = (0b01010 if sum(op[1] + op[-1] for op in seq) % 2 else 0b10101,)
        for pat in pats:
            yield {"kind": "hist", "slots": 2, "nodes": 3,
                   "ops": [op + ["N" if pat >> k & 1 else "A"] for k, op in enumerate(seq)]}
    # add_attacker given a reached-steps list that names one node TWICE (the pair must still be recorded once)
    for tail in ([], [["u", 1, 0]], [["u", 1, 2], ["c", 1, 2]], [["c", 0, 0], ["u", 1, 0]], [["ra", 1], ["aa", 1, 2], ["u", 1, 0]]):
        for side in ("A", "N"):
            yield {"kind": "hist", "slots": 2, "nodes": 3,
                   "ops": [op + [side] for op in [["ra", 1], ["aa", 1, 2]] + tail]}
    if tier == "thorough":
        for _ in range(200000):
            ops = []
            present = [True] * 3
            for _k in range(rnd.randint(6, 14)):
                j = rnd.randrange(3)
                if not present[j]:
                    op = ["aa", j, rnd.randrange(3)]; present[j] = True
                else:
                    kind = rnd.choice("cccuura")
                    if kind == "r":
                        op = ["ra", j]; present[j] = False
                    elif kind == "a":
                        continue
                    else:
                        op = [kind, j, rnd.randrange(5)]
                ops.append(op + [rnd.choice("AN")])
            yield {"kind": "hist", "slots": 3, "nodes": 5, "ops": ops}


# ---------------------------------------------------------------------------------------------------

def _agree(r, ever, nodes, where):
    """the two sides list each other equally often, at most once (every attacker ever created, every node)"""
    ok = True
    for a in ever:
        for n in nodes:
            x, y = L.count_is(a.reached_attack_steps, n), L.count_is(n.compromised_by, a)
            if x != y or x > 1:
                ok = False
                r.check("C11.agree", False, ATT + ("compromise" if x > 1 else "undo_compromise"),
                        "%s: attacker %s lists node %s %d times, node lists attacker %d times" % (where, a.name, n.name, x, y),
                        "sides-disagree" if x != y else "duplicate")
        for n in a.reached_attack_steps:
            if not L.has(nodes, n):
                ok = False
                r.check("C11.agree", False, ATT + "compromise", "%s: attacker lists a foreign node" % where, "foreign-node")
    if ok:
        r.check("C11.agree", True, ATT + "compromise")
    return ok


def run_hist(recipe):
    from maltoolbox.attackgraph import Attacker
    r = CaseResult()
    nn, ns = recipe["nodes"], recipe["slots"]
    g, nodes, atts = L.build_hand({"nodes": [["or", True, True]] * nn, "edges": [[i, i + 1] for i in range(nn - 1)],
                                   "attackers": [["a%d" % j, [], []] for j in range(ns)]})
    slots = list(atts)
    ever = list(atts)
    rel = set()                 # reference relation: (slot, node idx)
    created = ns
    trace = []
    nontrivial = False
    for step, op in enumerate(recipe["ops"]):
        kind, j, side = op[0], op[1], op[-1]
        where = "step %d %s" % (step, op)
        a = slots[j]
        before = L.snapshot(g)
        redundant = False
        removed_att = None
        if kind not in ("c", "u", "ra", "aa"):
            raise RuntimeError("harness: unknown op %r" % (op,))
        try:
            if kind == "c":
                i = op[2]
                redundant = (j, i) in rel
                rel.add((j, i))
                fn = ATT + "compromise"
                if side == "A": a.compromise(nodes[i])
                else: nodes[i].compromise(a)
            elif kind == "u":
                i = op[2]
                redundant = (j, i) not in rel
                rel.discard((j, i))
                fn = ATT + "undo_compromise"
                if side == "A": a.undo_compromise(nodes[i])
                else: nodes[i].undo_compromise(a)
            elif kind == "ra":
                rel = {(jj, i) for (jj, i) in rel if jj != j}
                fn = AGF + "remove_attacker"
                removed_att, old_id = a, a.id
                g.remove_attacker(a)
                slots[j] = None
            elif kind == "aa":
                fn = AGF + "add_attacker"
                a = Attacker(name="a%d_%d" % (j, created), entry_points=[], reached_attack_steps=[])
                created += 1
                if op[2] == 0:
                    g.add_attacker(a)
                else:
                    want = [0, nn - 1]
                    given = want + [0] if op[2] == 2 else want          # op[2] == 2: node 0 is named twice
                    g.add_attacker(a, None, [nodes[0].id], [nodes[i].id for i in given])
                    rel |= {(j, i) for i in want}
                slots[j] = a
                ever.append(a)
        except Exception as e:
            r.check("C11.no-crash", False, fn, "%s raised %s: %s" % (where, type(e).__name__, e), kind + ":" + type(e).__name__)
            break
        r.check("C11.no-crash", True, fn)
        if rel or kind in ("ra", "aa"):
            nontrivial = True
        trace.append(kind + ("-" if redundant else "+"))

        ok = _agree(r, ever, nodes, where)
        # relation equals the reference
        good = True
        for jj in range(ns):
            if slots[jj] is None:
                continue
            for i in range(nn):
                has = L.has(slots[jj].reached_attack_steps, nodes[i])
                if has != ((jj, i) in rel):
                    good = False
                    r.check("C11.effect", False, fn, "%s: attacker slot %d / node %d: reached=%s, expected %s" % (
                        where, jj, i, has, (jj, i) in rel), "%s:%s" % (kind, "missing" if not has else "unexpected"))
        if good:
            r.check("C11.effect", True, fn)
        # redundant call changes nothing at all (not even list order)
        if redundant:
            same = L.snapshot(g) == before
            r.check("C11.idempotent", same, fn, "%s: redundant call changed the state" % where, kind + ":redundant-changed-state")
            good = good and same
        # queries
        qok = True
        for i in range(nn):
            comp = any((jj, i) in rel for jj in range(ns))
            if nodes[i].is_compromised() != comp:
                qok = False
                r.check("C11.queries", False, "maltoolbox.attackgraph.node:AttackGraphNode.is_compromised",
                        "%s: node %d is_compromised()=%s expected %s" % (where, i, not comp, comp), "is_compromised")
            for jj in range(ns):
                if slots[jj] is not None and nodes[i].is_compromised_by(slots[jj]) != ((jj, i) in rel):
                    qok = False
                    r.check("C11.queries", False, "maltoolbox.attackgraph.node:AttackGraphNode.is_compromised_by",
                            "%s: node %d is_compromised_by(slot %d) wrong" % (where, i, jj), "is_compromised_by")
        if qok:
            r.check("C11.queries", True, "maltoolbox.attackgraph.node:AttackGraphNode.is_compromised_by")
        # removal leaves no trace
        rok = True
        if removed_att is not None:
            left = [n.name for n in nodes if L.has(n.compromised_by, removed_att)]
            rok = (not left) and not L.has(g.attackers, removed_att) and g.get_attacker_by_id(old_id) is None
            r.check("C11.remove", rok, AGF + "remove_attacker",
                    "%s: after remove_attacker nodes %s still list the attacker; in attackers=%s; lookup by id=%s" % (
                        where, left, L.has(g.attackers, removed_att), g.get_attacker_by_id(old_id) is not None),
                    "removed-attacker-still-listed-by-node" if left else "removed-attacker-still-registered")
        if not (ok and good and qok and rok):
            break
    if nontrivial:
        r.nontrivial_key = "h|" + "".join(trace) + "|" + ",".join("%d%d" % p for p in sorted(rel))
    return r


def run_attach(recipe):
    r = CaseResult()
    fn = AGF + "attach_attackers"
    mrec = {"assets": [["A", "a0", None], ["B", "b0", None]], "links": [[[0], [1]]], "attackers": recipe["attackers"]}
    g, lg, m = L.build_generated({"lang": "two", "model": mrec})
    if recipe["pre"]:
        nd = next(n for n in g.nodes if n.full_name == recipe["pre"])
        g.remove_node(nd)
    present = {n.full_name for n in g.nodes}
    expected = [(name, names & present) for (name, names) in L.expected_entry_names(mrec)]
    rounds = 2 if recipe["twice"] else 1
    all_new = []
    for k in range(rounds):
        old = list(g.attackers)
        old_state = [(a, list(a.entry_points), list(a.reached_attack_steps)) for a in old]
        try:
            g.attach_attackers()
        except Exception as e:
            r.check("C11.no-crash", False, fn, "attach_attackers raised %s: %s" % (type(e).__name__, e), "attach:" + type(e).__name__)
            return r
        r.check("C11.no-crash", True, fn)
        new = [a for a in g.attackers if not L.has(old, a)]
        all_new += new
        ok = len(new) == len(expected) and [a.name for a in new] == [nm for (nm, _) in expected] and \
            len({id(a) for a in new}) == len(new) and all(L.has(g.attackers, a) for a in old)
        r.check("C11.attach.count", ok, fn, "round %d: %d new attackers named %s for %d model attackers" % (
            k, len(new), [a.name for a in new], len(expected)), "attach-count")
        if not ok:
            return r
        good = True
        for a, (nm, names) in zip(new, expected):
            for (lst, what) in ((a.entry_points, "entry_points"), (a.reached_attack_steps, "reached_attack_steps")):
                got = [n.full_name for n in lst]
                inside = all(L.has(g.nodes, n) for n in lst)
                if not (inside and len(got) == len(set(got)) and set(got) == names):
                    good = False
                    sig = "attach:%s:%s" % (what, "foreign" if not inside else "duplicate" if len(got) != len(set(got))
                                            else "missing" if names - set(got) else "unexpected")
                    r.check("C11.attach.entry", False, fn, "round %d: attacker %s %s = %s, expected %s" % (
                        k, nm, what, sorted(got), sorted(names)), sig)
        if good:
            r.check("C11.attach.entry", True, fn)
        # attackers that existed before are untouched
        same = all(len(e) == len(a.entry_points) and all(x is y for x, y in zip(e, a.entry_points)) and
                   len(rs) == len(a.reached_attack_steps) and all(x is y for x, y in zip(rs, a.reached_attack_steps))
                   for (a, e, rs) in old_state)
        r.check("C11.attach.frame", same, fn, "round %d: attach changed an attacker that existed before" % k, "attach-frame")
        ok2 = _agree(r, list(g.attackers), list(g.nodes), "after attach round %d" % k)
        ids = [a.id for a in g.attackers]
        r.check("C11.attach.ids", all(L.isint(i) for i in ids) and len(set(ids)) == len(ids) and
                all(g.get_attacker_by_id(a.id) is a for a in g.attackers), fn, "attacker ids %s" % ids, "attach-ids")
        if not (good and same and ok2):
            return r
    if any(names for (_, names) in expected):
        r.nontrivial_key = "a|%s|%s|%s" % (recipe["pre"], recipe["twice"], [sorted(n) for (_, n) in expected])
    return r


def run_case(recipe):
    if recipe["kind"] == "hist":
        return run_hist(recipe)
    return run_attach(recipe)


if __name__ == "__main__":
    common.main(globals())
