"""
Bounded stand-in for C14 (a deep copy of an attack graph is equal and fully independent).

Real code under test: copy.deepcopy(graph) -> AttackGraph.__deepcopy__, AttackGraphNode.__deepcopy__,
Attacker.__deepcopy__, on real graphs (generated from a tiny language + model, or hand-built) carrying attackers and
analysis state; afterwards one mutation of every kind is applied through the library API / the attribute writes its
users perform, to the original or to the copy.

Reference (from the statement): equality = same abstract view (lib_agser.view, read from attributes), same
_to_dict(), same counters, index lookups that answer with the copy's own objects; independence = object identity
(`is`) of nodes, attackers and every mutable container named in the statement; closure = every reference held inside
the copy is an object of the copy; invisibility = the serialised form + view of the untouched side is the same string
before and after the mutation of the other side.
"""
from __future__ import annotations
import itertools, random, sys, os, json, copy
sys.path.insert(0, os.path.dirname(os.path.abspath(__file__)))
import common
from common import CaseResult
import lib_agser as L

PROPERTY = "C14"
SCOPE = {
    "quick": "graphs of <=3 nodes: 9 generated (2 tiny languages, <=2 assets) x 7 pre-copy histories (attached model "
             "attackers, two attackers with one name, explicit attacker ids, compromises, False flags, analysis, extras, a "
             "removed node) and hand-built graphs (all 1-2 node graphs over 8 node variants x all edge sets incl. self "
             "loops, seeded random 3-node graphs) x 4 histories; each x {mutate original, mutate copy} x every one of 24 "
             "mutations (add / remove node, compromise / undo, add / remove attacker, set label, set status, append tag, "
             "replace tags, write into the ttc dict and into its argument list, write into extras and into a container "
             "nested in extras, set mitre info)",
    "thorough": "same, all 1-3 node hand-built graphs over 8 variants without self loops + 6000 random 3-node graphs",
}
EXHAUSTIVE = {"quick": False, "thorough": False}
RULE = ("case = (graph recipe with pre-copy history, side, mutation); the graph must be well formed before copying "
        "(mirrored edges, reached <-> compromised_by, references inside the graph, indexes exact) otherwise the case is "
        "skipped as trivial; non-trivial when the mutation changed the serialised form of the side it was applied to; "
        "distinct = (abstract view of the graph, side, mutation)")
ASSUMPTIONS = [
    "reference = attribute-level reading (lib_agser.view) and python object identity",
    "pre-copy graphs are well formed (checked by the harness; ill-formed ones, e.g. produced through other known "
    "defects of remove_node / remove_attacker, are not counted)",
    "node.attributes (a reference into the language specification) and the pjs literal held in defense_status are not "
    "among the per-node mutable data named by the statement and may be shared",
    "a mutation the library refuses (raises) still must leave the other side untouched",
]
BUDGET_S = {"quick": 100, "thorough": 1500}
CHUNK = 100

FN_G = "maltoolbox.attackgraph.attackgraph:AttackGraph.__deepcopy__"
FN_N = "maltoolbox.attackgraph.node:AttackGraphNode.__deepcopy__"
FN_A = "maltoolbox.attackgraph.attacker:Attacker.__deepcopy__"

NEWNODE = {"type": "or", "name": "fresh", "tags": ["nt"], "ttc": "exp"}

MUTATIONS = [
    ["add_node", NEWNODE, [], []],
    ["add_node", NEWNODE, [0], [0]],
    ["remove", 0], ["remove", 1], ["remove", 2],
    ["compromise", 0, 0], ["compromise", 1, 1], ["compromise", 0, 2],
    ["undo", 0, 0], ["undo", 1, 1],
    ["attacker", "x", None, [0], [0]],
    ["attacker", "new", 9, [], []],
    ["rm_attacker", 0], ["rm_attacker", 1],
    ["flag", 0, "is_viable", False], ["flag", 1, "is_necessary", False], ["flag", 0, "is_viable", True],
    ["status", 0, "defense_status", 0.75],
    ["tag_append", 0, "appended"], ["tag_append", 1, "appended"],
    ["tags", 0, ["replaced"]],
    ["ttc_set", 0, "note", "w"], ["ttc_deep", 0, 99], ["ttc_set", 1, "note", "w"],
    ["extras_set", 0, "k", [1]], ["extras_deep", 0, "deep"], ["extras_set", 1, "k", 2],
    ["mitre", 0, "T9"],
]

GEN_BASES = [
    ("L0", {"assets": [["A", "a0", None, {"d": 1.0}]]}),
    ("L0", {"assets": [["A", "a0", None]]}),
    ("L0", {"assets": [["B", "b0", None]]}),
    ("L1", {"assets": [["C", "c0", None], ["C", "c1", None]], "links": [["CC", "cs", [0], "cs2", [1]]]}),
    ("L1", {"assets": [["C", "c0", None]]}),
    ("L1", {"assets": [["A", "a0", None], ["C", "c0", None]]}),
    ("L1", {"assets": [["B", "b0", None, {"d": 0.0}], ["C", "c0", None]]}),
    ("L1", {"assets": [["C", "c0", 4], ["C", "c1", 2]]}),
    ("L1", {"assets": [["B", "b 0", None]]}),
]
FIRST = {"A": "s", "B": "t", "C": "c"}

EXTRA = {"reward": 1.5, "lst": [1, [2]], "d": {"k": "v"}}

PRE = [   # pre-copy histories (kept well formed)
    [],
    [["attach"]],
    [["attach"], ["compromise", 0, 1], ["flag", 0, "is_viable", False], ["extras", 0, EXTRA]],
    [["attacker", "x", None, [0], [0]], ["attacker", "x", None, [1], [0, 1]], ["extras", 1, EXTRA]],
    [["attacker", "b", 3, [0], [0, 1]], ["attacker", "a", None, [], []], ["flag", 1, "is_necessary", False]],
    [["analyze"], ["attacker", "y", None, [0], [0]], ["extras", 0, {"lst": []}]],
    [["remove", 1], ["attacker", "y", None, [0], [0]], ["extras", 0, EXTRA]],
]

VARIANTS = [
    {"type": "or", "ttc": "exp", "tags": ["tg"]},
    {"type": "and", "ttc": "sum", "viable": False, "extras": EXTRA},
    {"type": "or", "necessary": False, "mitre": "T1"},
    {"type": "defense", "ds": 1.0, "ttc": "dis", "tags": ["suppress"], "viable": False},
    {"type": "defense", "ds": 0.0, "ttc": "en", "extras": {"lst": []}},
    {"type": "exist", "es": True, "necessary": False},
    {"type": "notExist", "es": False, "tags": ["a", "b"], "ttc": "exp"},
    {"type": "and"},
]
HAND_PRE = [PRE[0], PRE[3], PRE[4], PRE[6]]


def _graphs(tier, rnd):
    for (lang, m) in GEN_BASES:
        a = m["assets"]
        mm = dict(m, attackers=[["att", None, [[0, [FIRST[a[0][0]]]]]], ["att", None, [[len(a) - 1, [FIRST[a[-1][0]]]]]]])
        for h in PRE:
            yield {"kind": "gen", "lang": lang, "model": mm, "ops": h}
    cnt = 0
    sizes = (1, 2) if tier == "quick" else (1, 2, 3)
    for n in sizes:
        pairs = [(i, j) for i in range(n) for j in range(n) if n < 3 or i != j]
        for vs in itertools.product(range(len(VARIANTS)), repeat=n):
            for mask in range(1 << len(pairs)):
                edges = [list(pairs[k]) for k in range(len(pairs)) if mask >> k & 1]
                cnt += 1
                if n == 3 and cnt % 7:
                    continue
                nodes = [dict(VARIANTS[v], name="n%d" % i) for i, v in enumerate(vs)]
                yield {"kind": "hand", "nodes": nodes, "edges": edges, "ops": HAND_PRE[cnt % len(HAND_PRE)]}
    for _ in range(150 if tier == "quick" else 6000):
        vs = [rnd.randrange(len(VARIANTS)) for _ in range(3)]
        dens = rnd.choice((0.2, 0.4, 0.7))
        edges = [[i, j] for i in range(3) for j in range(3) if rnd.random() < dens]
        nodes = [dict(VARIANTS[v], name="n%d" % i) for i, v in enumerate(vs)]
        yield {"kind": "hand", "nodes": nodes, "edges": edges, "ops": rnd.choice(HAND_PRE + [PRE[5]])}


def cases(tier, seed):
    rnd = random.Random(seed)
    for g in _graphs(tier, rnd):
        hand_small = g["kind"] == "hand" and len(g["nodes"]) < 3
        for mi, mut in enumerate(MUTATIONS):
            if hand_small and len(g["nodes"]) == 2 and tier == "quick" and (mi + len(g["edges"])) % 3:
                continue                    # the 2-node hand-built family is large: every third mutation, rotating
            for side in ("orig", "copy"):
                yield {"graph": g, "side": side, "mutation": mut}


# ---------------------------------------------------------------------------------------------------

def _in(x, xs):
    return any(x is y for y in xs)


def well_formed(g):
    """harness-side precondition (identity based)"""
    ids = [n.id for n in g.nodes]
    if len(set(ids)) != len(ids) or any(type(i) is not int for i in ids): return False
    aids = [a.id for a in g.attackers]
    if len(set(aids)) != len(aids) or any(type(i) is not int for i in aids): return False
    for n in g.nodes:
        for c in n.children:
            if not _in(c, g.nodes) or not _in(n, c.parents): return False
        for p in n.parents:
            if not _in(p, g.nodes) or not _in(n, p.children): return False
        for a in n.compromised_by:
            if not _in(a, g.attackers) or not _in(n, a.reached_attack_steps): return False
    for a in g.attackers:
        for n in a.reached_attack_steps:
            if not _in(n, g.nodes) or not _in(a, n.compromised_by): return False
        for n in a.entry_points:
            if not _in(n, g.nodes): return False
    if sorted(g._id_to_node) != sorted(ids) or any(g._id_to_node[n.id] is not n for n in g.nodes): return False
    if sorted(g._id_to_attacker) != sorted(aids) or any(g._id_to_attacker[a.id] is not a for a in g.attackers): return False
    names = [n.full_name for n in g.nodes]
    if len(set(names)) != len(names) or sorted(g._full_name_to_node) != sorted(names): return False
    if any(g._full_name_to_node[n.full_name] is not n for n in g.nodes): return False
    return True


def _containers(g):
    """label -> ids of the mutable containers the statement names, for one graph"""
    out = {}
    def add(label, obj, deep=False):
        s = out.setdefault(label, set())
        if deep: L.mutable_ids(obj, s)
        elif obj is not None: s.add(id(obj))
    add("graph.nodes", g.nodes); add("graph.attackers", g.attackers)
    add("graph._id_to_node", g._id_to_node); add("graph._full_name_to_node", g._full_name_to_node)
    add("graph._id_to_attacker", g._id_to_attacker)
    for n in g.nodes:
        add("node.children", n.children); add("node.parents", n.parents); add("node.compromised_by", n.compromised_by)
        add("node.tags", n.tags, deep=True); add("node.extras", n.extras, deep=True); add("node.ttc", n.ttc, deep=True)
    for a in g.attackers:
        add("attacker.entry_points", a.entry_points); add("attacker.reached_attack_steps", a.reached_attack_steps)
    return out


def check_copy(r, g, c):
    # ---- equal
    vg, vc = L.view(g), L.view(c)
    wg = dict(vg); wc = dict(vc); wg.pop("order"); wc.pop("order")
    r.check("C14.equal.view", L.view_json(wg) == L.view_json(wc), FN_G, "abstract views differ: %s vs %s" % (L.view_json(wg)[:200], L.view_json(wc)[:200]),
            "view")
    try:
        dg = json.dumps(g._to_dict(), sort_keys=True, default=str); dc = json.dumps(c._to_dict(), sort_keys=True, default=str)
        r.check("C14.equal.view", dg == dc, FN_G, "_to_dict() differs", "to_dict")
    except Exception as e:
        r.check("C14.equal.view", False, FN_G, "_to_dict raised %s" % type(e).__name__, "to_dict-raises")
    r.check("C14.equal.counters", (c.next_node_id, c.next_attacker_id) == (g.next_node_id, g.next_attacker_id), FN_G,
            "counters %s vs %s" % ((g.next_node_id, g.next_attacker_id), (c.next_node_id, c.next_attacker_id)), "counters")
    lk = (sorted(c._id_to_node) == sorted(g._id_to_node) and sorted(c._full_name_to_node) == sorted(g._full_name_to_node)
          and sorted(c._id_to_attacker) == sorted(g._id_to_attacker))
    for n in c.nodes:
        lk = lk and c.get_node_by_id(n.id) is n and c.get_node_by_full_name(n.full_name) is n
    for a in c.attackers:
        lk = lk and c.get_attacker_by_id(a.id) is a
    r.check("C14.equal.lookups", lk, FN_G, "index maps of the copy do not answer with the copy's own objects / keys differ", "lookups")
    # ---- shares model and language, assets
    sh = c.model is g.model and c.lang_graph is g.lang_graph
    gn = {n.id: n for n in g.nodes}
    for n in c.nodes:
        o = gn.get(n.id)
        sh = sh and o is not None and n.asset is o.asset
    r.check("C14.shares-model-lang", sh, FN_G, "model / lang_graph / node.asset not shared with the original", "model")
    # ---- fresh objects
    r.check("C14.fresh.nodes", not any(_in(n, g.nodes) for n in c.nodes) and c is not g, FN_N, "a node object is shared", "node")
    r.check("C14.fresh.attackers", not any(_in(a, g.attackers) for a in c.attackers), FN_A, "an attacker object is shared", "attacker")
    cg, cc = _containers(g), _containers(c)
    all_g = {}
    for label, s in cg.items():
        for i in s: all_g.setdefault(i, label)
    for label, s in cc.items():
        shared = [i for i in s if i in all_g]
        fn = FN_N if label.startswith("node.") else FN_A if label.startswith("attacker.") else FN_G
        r.check("C14.fresh.containers", not shared, fn,
                "%s of the copy is (or contains) the same mutable object as %s of the original" % (label, all_g[shared[0]] if shared else ""),
                "shared:" + label)
    # ---- closure
    bad = []
    for n in c.nodes:
        if not all(_in(x, c.nodes) for x in n.children): bad.append("children")
        if not all(_in(x, c.nodes) for x in n.parents): bad.append("parents")
        if not all(_in(x, c.attackers) for x in n.compromised_by): bad.append("compromised_by")
    for a in c.attackers:
        if not all(_in(x, c.nodes) for x in a.entry_points): bad.append("entry_points")
        if not all(_in(x, c.nodes) for x in a.reached_attack_steps): bad.append("reached_attack_steps")
    if not all(_in(x, c.nodes) for x in c._id_to_node.values()): bad.append("_id_to_node")
    if not all(_in(x, c.nodes) for x in c._full_name_to_node.values()): bad.append("_full_name_to_node")
    if not all(_in(x, c.attackers) for x in c._id_to_attacker.values()): bad.append("_id_to_attacker")
    r.check("C14.closed", not bad, FN_G, "references leaving the copy through: %s" % sorted(set(bad)), "escape:" + ",".join(sorted(set(bad))))


def run_case(recipe):
    r = CaseResult()
    b = L.build_graph(dict(recipe["graph"], fresh_lang=True))
    g = b.graph
    if not well_formed(g):
        return r                                  # precondition of the property's contract not met: not counted
    try:
        c = copy.deepcopy(g)
    except RecursionError:
        r.check("C14.no-crash", False, FN_G, "RecursionError in deepcopy", "RecursionError"); return r
    except Exception as e:
        r.check("C14.no-crash", False, FN_G, "%s in deepcopy: %s" % (type(e).__name__, str(e)[:200]), type(e).__name__); return r
    r.check("C14.no-crash", True, FN_G)
    check_copy(r, g, c)
    side, mut = recipe["side"], recipe["mutation"]
    target, other = (g, c) if side == "orig" else (c, g)
    before_other = L.ser_snapshot(other)
    before_target = L.ser_snapshot(target)
    status = L.apply_op(target, mut)
    after_other = L.ser_snapshot(other)
    fn = FN_N if mut[0] in ("ttc_set", "ttc_deep", "tag_append", "extras_set", "extras_deep") else FN_G
    r.check("C14.independent", before_other == after_other, fn,
            "mutation %s on the %s changed the serialised form of the %s" % (mut, side, "copy" if side == "orig" else "original"),
            "leak:%s:%s" % (mut[0], "orig->copy" if side == "orig" else "copy->orig"))
    if status != "skip" and L.ser_snapshot(target) != before_target:
        r.nontrivial_key = "%s|%s|%s" % (L.view_hash(L.view(other)), side, json.dumps(mut))
    return r


if __name__ == "__main__":
    common.main(globals())
