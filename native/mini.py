"""
Small helpers shared by the native floors: build MAL language specifications (the dict format of
langspec.json inside a .mar), language graphs / class factories, and instance models from JSON recipes.

Nothing here re-implements repository behaviour: these helpers only *construct inputs* and call the real
constructors of /repo.  Never print/repr python_jsonschema_objects instances (their repr recurses).
"""
from __future__ import annotations
import copy, logging

logging.disable(logging.CRITICAL)

# ---------------------------------------------------------------------------------------------------
# step expressions (langspec dict form)

def field(name):            return {"type": "field", "name": name}
def step(name):             return {"type": "attackStep", "name": name}
def var(name):              return {"type": "variable", "name": name}
def collect(l, r):          return {"type": "collect", "lhs": l, "rhs": r}
def union(l, r):            return {"type": "union", "lhs": l, "rhs": r}
def inter(l, r):            return {"type": "intersection", "lhs": l, "rhs": r}
def diff(l, r):             return {"type": "difference", "lhs": l, "rhs": r}
def trans(f):               return {"type": "transitive", "stepExpression": field(f) if isinstance(f, str) else f}
def sub(t, e):              return {"type": "subType", "subType": t, "stepExpression": e}

def path(*parts):
    """collect(...) chain, left-nested the way the compiler produces it: a.b.c -> collect(collect(a,b),c)"""
    e = parts[0]
    for p in parts[1:]:
        e = collect(e, p)
    return e

TTC_ENABLED = {"type": "function", "name": "Enabled", "arguments": []}
TTC_DISABLED = {"type": "function", "name": "Disabled", "arguments": []}
def ttc_exp(x=0.1):         return {"type": "function", "name": "Exponential", "arguments": [x]}


def attack_step(name, type="or", reaches=None, overrides=True, ttc=None, requires=None, tags=None, meta=None,
                risk=None):
    """reaches: None (no reaches clause) or list of step expressions; requires: None or list of expressions."""
    return {
        "name": name, "meta": dict(meta or {}), "type": type, "tags": list(tags or []), "risk": risk, "ttc": ttc,
        "requires": None if requires is None else {"overrides": True, "stepExpressions": list(requires)},
        "reaches": None if reaches is None else {"overrides": bool(overrides), "stepExpressions": list(reaches)},
    }


def asset(name, sup=None, steps=(), variables=(), abstract=False, category="Cat", meta=None):
    """variables: iterable of (name, expression)"""
    return {
        "name": name, "meta": dict(meta or {}), "category": category, "isAbstract": bool(abstract), "superAsset": sup,
        "variables": [{"name": n, "stepExpression": e} for (n, e) in variables],
        "attackSteps": list(steps),
    }


def assoc(name, left, lfield, right, rfield, lmult=(0, None), rmult=(0, None), meta=None):
    """NOTE the langspec convention: leftField is the role name of the *left* asset as seen from the right one, i.e.
    the attribute `lfield` of the generated association class holds assets of type `left`."""
    return {
        "name": name, "meta": dict(meta or {}),
        "leftAsset": left, "leftField": lfield, "leftMultiplicity": {"min": lmult[0], "max": lmult[1]},
        "rightAsset": right, "rightField": rfield, "rightMultiplicity": {"min": rmult[0], "max": rmult[1]},
    }


def lang(assets, associations=(), lid="org.verif.mini", version="0.0.1", categories=None):
    cats = categories if categories is not None else sorted({a["category"] for a in assets})
    return {
        "formatVersion": "1.0.0",
        "defines": {"id": lid, "version": version},
        "categories": [{"name": c, "meta": {}} for c in cats],
        "assets": list(assets),
        "associations": list(associations),
    }


# ---------------------------------------------------------------------------------------------------
# real objects

def make_lang(spec, copy_spec=True):
    """(LanguageGraph, LanguageClassesFactory) from a langspec dict, through the repository's real constructors."""
    from maltoolbox.language import LanguageGraph, LanguageClassesFactory
    lg = LanguageGraph(copy.deepcopy(spec) if copy_spec else spec)
    return lg, LanguageClassesFactory(lg)


def new_model(lcf, name="m"):
    from maltoolbox.model import Model
    return Model(name, lcf)


def new_asset(lcf, type_name, name=None, **defenses):
    cls = getattr(lcf.ns, type_name)
    a = cls(name=name) if name is not None else cls()
    for k, v in defenses.items():
        setattr(a, k, v)
    return a


def assoc_class_name(lcf, name, left, right):
    """generated class name for association `name` between declared asset types left/right"""
    return lcf.get_association_by_signature(name, left, right)


def new_assoc(lcf, class_name, **fields):
    """fields: fieldname=[asset objects]"""
    a = getattr(lcf.ns, class_name)()
    for k, v in fields.items():
        setattr(a, k, list(v))
    return a


def build_model(lcf, recipe, name="m"):
    """recipe = {"assets": [[type, name, id-or-null, {defense: value}?], ...],
                 "links":  [[assoc_class_name, leftfield, [asset idx...], rightfield, [asset idx...]], ...],
                 "attackers": [[name, id-or-null, [[asset idx, [steps...]], ...]], ...]}
    asset idx = position in recipe["assets"].  Returns (model, [asset objects in recipe order])."""
    from maltoolbox.model import AttackerAttachment
    m = new_model(lcf, name)
    objs = []
    for ent in recipe.get("assets", []):
        t, n, i = ent[0], ent[1], ent[2] if len(ent) > 2 else None
        d = ent[3] if len(ent) > 3 and ent[3] else {}
        a = new_asset(lcf, t, n, **d)
        m.add_asset(a, asset_id=i)
        objs.append(a)
    for (cls, lf, li, rf, ri) in recipe.get("links", []):
        s = new_assoc(lcf, cls, **{lf: [objs[k] for k in li], rf: [objs[k] for k in ri]})
        m.add_association(s)
    for ent in recipe.get("attackers", []):
        n, i, eps = ent[0], ent[1], ent[2]
        at = AttackerAttachment(name=n)
        at.entry_points = []
        for (k, steps) in eps:
            for s in steps:
                at.add_entry_point(objs[k], s)
        m.add_attacker(at, attacker_id=i)
    return m, objs


# ---------------------------------------------------------------------------------------------------
# a few ready-made small languages (used by several floors)

def lang_two_types():
    """A --(AB: as / bs)-- B, reflexive link on A (AA: up / down); steps with every operator."""
    A = asset("A", steps=[
        attack_step("s", "or", reaches=[path(field("bs"), step("t"))]),
        attack_step("u", "and", reaches=[path(trans("down"), step("s"))]),
        attack_step("d", "defense", ttc=TTC_DISABLED, reaches=[step("u")]),
        attack_step("e", "exist", requires=[field("bs")], reaches=[step("u")]),
    ])
    B = asset("B", steps=[
        attack_step("t", "or", reaches=[path(field("as"), step("s"))]),
        attack_step("ne", "notExist", requires=[field("as")], reaches=[step("t")]),
    ])
    return lang([A, B], [assoc("AB", "A", "as", "B", "bs"), assoc("AA", "A", "up", "A", "down")])
