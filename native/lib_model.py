"""
Helpers shared by floor_C05 / floor_C06 / floor_C07 (agent `model`).

* LANGS / UNIVERSES : tiny languages and, per universe, the candidate assets, candidate link shapes and attackers
                      the histories are made of.
* Session           : executes one JSON-encoded operation on the REAL Model / AttackerAttachment objects and reads the
                      model's observable state back as plain data (never repr's a library object).
* Ref               : the abstract reference model of C05, written from the property statement (ids, names, links,
                      attackers as plain dicts of ints/strings) - it never looks at the implementation.
* full_view         : observable content of a model for C07 (by asset id; defenses, extras, attackers).

Operations (JSON lists), c = candidate asset index, k = link-shape index, t = attacker index:
  ["add_asset", c, id|None, allow_duplicate_names]      ["remove_asset", c]
  ["add_assoc", k]   (a NEW association object of shape k) ["remove_assoc", k]   ["remove_from_assoc", c, k]
  ["add_attacker", t, id|None]  ["remove_attacker", t]  ["add_ep", t, c, step]  ["remove_ep", t, c, step]
`remove_assoc k` / `remove_from_assoc c k` address the newest association object of shape k that is in the model
(per the reference), else the newest one created, else a fresh object that was never added.
"""
from __future__ import annotations
import copy, json
import mini
from mini import asset, attack_step, assoc, lang, TTC_ENABLED, TTC_DISABLED

# ---------------------------------------------------------------------------------------------------------------
# languages

def lang_L0():
    return mini.lang_two_types()


def lang_L1():
    """inheritance (B extends A, so a B may sit in any A field), two association classes that share the name L"""
    A = asset("A", steps=[attack_step("s", "or"), attack_step("d", "defense", ttc=TTC_DISABLED),
                          attack_step("dE", "defense", ttc=TTC_ENABLED)])
    B = asset("B", sup="A", steps=[attack_step("e", "defense", ttc=None), attack_step("sb", "or")])
    C = asset("C", steps=[attack_step("t", "or"), attack_step("dc", "defense", ttc=TTC_ENABLED)])
    return lang([A, B, C], [assoc("L", "A", "la", "C", "lc"), assoc("L", "B", "lb", "C", "lcb"),
                            assoc("rel", "A", "up", "A", "down")])


LANGS = {"L0": lang_L0, "L1": lang_L1}
_LANG_CACHE = {}


def get_lang(name):
    """(LanguageGraph, LanguageClassesFactory), cached per process (the factory is immutable for our purposes:
    instances are created from its classes, nothing is written into it)."""
    if name not in _LANG_CACHE:
        _LANG_CACHE[name] = mini.make_lang(LANGS[name]())
    return _LANG_CACHE[name]


# cands: (type, name|None, {defense: value})   - two candidates never agree on (type, name, defenses), so the
#        library's structural == coincides with identity (assumption PJS-EQ of DESIGN 2.11)
# links: (class, field1, [cands], field2, [cands])
UNIVERSES = {
    "U0": {"lang": "L0", "fields": {"AB": ("as", "bs"), "AA": ("up", "down")},
           "cands": [("A", "a", {}), ("A", "a", {"d": 0.5}), ("B", "a:2", {})],
           "links": [("AB", "as", [0], "bs", [2]), ("AB", "as", [0, 1], "bs", [2]), ("AA", "up", [0], "down", [1]),
                     ("AA", "up", [0], "down", [0]), ("AA", "up", [0, 1], "down", [0]),
                     ("AA", "up", [0, 0], "down", [1]), ("AA", "up", [1], "down", [0, 1])],
           "steps": {0: ["s", "u"], 1: ["s"], 2: ["t"]}, "attackers": [None, "att"]},
    "U1": {"lang": "L0", "fields": {"AB": ("as", "bs"), "AA": ("up", "down")},
           "cands": [("A", None, {"d": 0.25}), ("A", "A:1", {}), ("B", "b", {})],
           "links": [("AB", "as", [0], "bs", [2]), ("AB", "as", [1, 0], "bs", [2]), ("AA", "up", [0], "down", [1]),
                     ("AA", "up", [1], "down", [1]), ("AA", "up", [0, 1], "down", [1]),
                     ("AA", "up", [1], "down", [0, 0]), ("AA", "up", [1, 0], "down", [0, 1])],
           "steps": {0: ["s", "u"], 1: ["u"], 2: ["t"]}, "attackers": ["x", None]},
    "U2": {"lang": "L1", "fields": {"L_A_C": ("la", "lc"), "L_B_C": ("lb", "lcb"), "rel": ("up", "down")},
           "cands": [("A", "n", {}), ("B", "n", {"e": 1.0}), ("C", None, {})],
           "links": [("L_A_C", "la", [0], "lc", [2]), ("L_A_C", "la", [0, 1], "lc", [2]),
                     ("L_B_C", "lb", [1], "lcb", [2]), ("rel", "up", [0], "down", [1]), ("rel", "up", [1], "down", [1]),
                     ("rel", "up", [0, 1], "down", [1, 0]), ("rel", "up", [1, 1], "down", [0])],
           "steps": {0: ["s"], 1: ["s", "sb"], 2: ["t"]}, "attackers": [None, "att"]},
    # every candidate constructed WITHOUT a name (add_asset names it): the library then compares `associations`
    # before `name`, which is where its structural == stops terminating (finding, see floor_C05)
    "U3": {"lang": "L0", "fields": {"AB": ("as", "bs"), "AA": ("up", "down")},
           "cands": [("A", None, {}), ("A", None, {"d": 0.5}), ("B", None, {})],
           "links": [("AB", "as", [0], "bs", [2]), ("AB", "as", [1], "bs", [2]), ("AA", "up", [0], "down", [1]),
                     ("AA", "up", [1], "down", [1]), ("AA", "up", [0, 1], "down", [0]),
                     ("AA", "up", [1], "down", [0]), ("AB", "as", [0, 1], "bs", [2])],
           "steps": {0: ["s", "u"], 1: ["s"], 2: ["t"]}, "attackers": [None, "att"]},
}

FN = {
    "add_asset": "maltoolbox.model:Model.add_asset", "remove_asset": "maltoolbox.model:Model.remove_asset",
    "add_assoc": "maltoolbox.model:Model.add_association", "remove_assoc": "maltoolbox.model:Model.remove_association",
    "remove_from_assoc": "maltoolbox.model:Model.remove_asset_from_association",
    "add_attacker": "maltoolbox.model:Model.add_attacker", "remove_attacker": "maltoolbox.model:Model.remove_attacker",
    "add_ep": "maltoolbox.model:AttackerAttachment.add_entry_point",
    "remove_ep": "maltoolbox.model:AttackerAttachment.remove_entry_point",
}
CRASH = (AttributeError, TypeError, KeyError, IndexError, RecursionError, AssertionError, UnboundLocalError)


# ---------------------------------------------------------------------------------------------------------------
# abstract reference model (from the statement of C05; plain data only)

class Ref:
    def __init__(self, fields):
        self.fields = fields      # class -> (field1, field2)
        self.assets = {}          # cand -> (id, name)                 live assets
        self.links = {}           # handle -> (class, {field: [cand]})  live links, in order of insertion
        self.attackers = {}       # t -> (id, name)                    attackers in the model
        self.eps = {}             # t -> {cand: [step]}                every attachment, in the model or not

    def ids(self):   return {i for (i, _) in self.assets.values()}
    def names(self): return {n for (_, n) in self.assets.values()}

    # each `why_*` returns None when the operation must succeed, else the reason why it must raise
    def why_add_asset(self, c, name, want_id, allow):
        if want_id is not None and want_id in self.ids(): return "id-in-use"
        if name is not None and name in self.names() and not allow: return "duplicate-name"
        return None

    def add_asset(self, c, aid, name):
        self.assets[c] = (aid, name)

    def _drop(self, c, handles):
        for h in handles:
            cls, fs = self.links[h]
            for f in fs: fs[f] = [x for x in fs[f] if x != c]
            if any(not v for v in fs.values()): del self.links[h]

    def why_remove_asset(self, c):
        return None if c in self.assets else "asset-not-in-model"

    def remove_asset(self, c):
        self._drop(c, list(self.links))
        for t in self.attackers: self.eps.get(t, {}).pop(c, None)
        del self.assets[c]

    def why_remove_from_assoc(self, c, h):
        if c not in self.assets: return "asset-not-in-model"
        if h not in self.links: return "association-not-in-model"
        if not any(c in v for v in self.links[h][1].values()): return "asset-not-in-association"
        return None

    def remove_from_assoc(self, c, h):
        self._drop(c, [h])

    def why_add_assoc(self, cls, members):
        f1, f2 = self.fields[cls]
        if any(x not in self.assets for f in (f1, f2) for x in members[f]): return "asset-not-in-model"
        if any(len(set(members[f])) < len(members[f]) for f in (f1, f2)): return "repeated-asset-in-field"
        for (c2, fs) in self.links.values():
            if c2 == cls and any(l in fs[f1] and r in fs[f2] for l in members[f1] for r in members[f2]):
                return "duplicate-link"
        return None

    def add_assoc(self, h, cls, members):
        self.links[h] = (cls, {f: list(v) for f, v in members.items()})

    def why_remove_assoc(self, h):
        return None if h in self.links else "association-not-in-model"

    def remove_assoc(self, h):
        del self.links[h]

    def why_add_attacker(self, t, want_id):      # (the statement does not ask for unique attacker ids)
        if any(c not in self.assets for c in self.eps.get(t, {})): return "asset-not-in-model"
        return None

    def add_attacker(self, t, tid, name):
        self.attackers[t] = (tid, name)

    def why_remove_attacker(self, t):
        return None if t in self.attackers else "attacker-not-in-model"

    def remove_attacker(self, t):
        del self.attackers[t]

    def add_ep(self, t, c, step):
        steps = self.eps.setdefault(t, {}).setdefault(c, [])
        if step not in steps: steps.append(step)

    def remove_ep(self, t, c, step):
        steps = self.eps.get(t, {}).get(c)
        if steps is not None:
            if step in steps: steps.remove(step)
            if not steps: del self.eps[t][c]

    def neighbours(self, c, f):
        """assets linked to c through field f: every association once, both orientations"""
        out = []
        for (cls, fs) in self.links.values():
            f1, f2 = self.fields[cls]
            if c in fs[f1] and f2 == f: out += fs[f2]
            if c in fs[f2] and f1 == f: out += fs[f1]
        return out

    def view(self, all_fields):
        live = sorted(self.assets)
        return {
            "assets": sorted([c, self.assets[c][0], self.assets[c][1]] for c in live),
            "ids": sorted(self.ids()), "names": sorted(self.names()),
            "links": sorted([h, cls, sorted([f, sorted(v)] for f, v in fs.items())] for h, (cls, fs) in self.links.items()),
            "backrefs": {c: sorted(h for h, (_, fs) in self.links.items() if any(c in v for v in fs.values())) for c in live},
            "nbrs": {"%d.%s" % (c, f): sorted(self.neighbours(c, f)) for c in live for f in all_fields},
            "attackers": sorted([t, i, n, sorted([c, sorted(s)] for c, s in self.eps.get(t, {}).items())]
                                for t, (i, n) in self.attackers.items()),
        }


# ---------------------------------------------------------------------------------------------------------------
# the real objects

class BadOp(BaseException):
    pass


class Session:
    def __init__(self, uname, model_name="m"):
        from maltoolbox.model import Model, AttackerAttachment
        self.U = U = UNIVERSES[uname] if isinstance(uname, str) else uname
        self.lg, self.lcf = get_lang(U["lang"])
        self.model = Model(model_name, self.lcf)
        self.cands = [mini.new_asset(self.lcf, e[0], e[1], **e[2]) for e in U["cands"]]
        self.atts = [AttackerAttachment(name=n) for n in U["attackers"]]
        for a in self.atts: a.entry_points = []
        self.id_events = []                     # observed add_attacker calls that ASK for an id clash: (cause, attacker id)
        self.links = []                         # every association object created, handle = position
        self.by_shape = {}                      # k -> [handles]
        self.all_fields = sorted({f for fs in U["fields"].values() for f in fs})

    def given_name(self, c):
        a = self.cands[c]
        return str(a.name) if hasattr(a, "name") else None

    def new_link(self, k):
        cls, f1, m1, f2, m2 = self.U["links"][k]
        s = mini.new_assoc(self.lcf, cls, **{f1: [self.cands[i] for i in m1], f2: [self.cands[i] for i in m2]})
        self.links.append(s)
        self.by_shape.setdefault(k, []).append(len(self.links) - 1)
        return len(self.links) - 1

    def handle_for(self, k, ref_links):
        hs = self.by_shape.get(k, [])
        live = [h for h in hs if h in ref_links]
        return live[-1] if live else (hs[-1] if hs else self.new_link(k))

    # ----- observation (plain data) -----
    def _c(self, o):
        for i, x in enumerate(self.cands):
            if x is o: return i
        return -1

    def _h(self, o):
        for i, x in enumerate(self.links):
            if x is o: return i
        return -1

    def _t(self, o):
        for i, x in enumerate(self.atts):
            if x is o: return i
        return -1

    def _fields(self, s):
        names = self.U["fields"].get(type(s).__name__) or tuple(str(k) for k in s._properties.keys())
        return [[f, sorted(self._c(x) for x in getattr(s, f))] for f in names]

    def observe(self):
        m = self.model
        live = list(m.assets)
        v = {
            "assets": sorted([self._c(a), int(a.id), str(a.name)] for a in live),
            "ids": sorted(int(i) for i in m.asset_ids), "names": sorted(str(n) for n in m.asset_names),
            "links": sorted([self._h(s), type(s).__name__, sorted(self._fields(s))] for s in m.associations),
            "backrefs": {self._c(a): sorted({self._h(s) for s in a.associations}) for a in live},
            "nbrs": {"%d.%s" % (self._c(a), f): sorted(self._c(x) for x in m.get_associated_assets_by_field_name(a, f))
                     for a in live for f in self.all_fields},
            "attackers": sorted([self._t(t), t.id, str(t.name),
                                 sorted([self._c(a), sorted(str(x) for x in steps)] for (a, steps) in t.entry_points)]
                                for t in m.attackers),
        }
        extra = {
            "next_id": int(m.next_id),
            "type_index": sorted([k, sorted(self._h(s) for s in ss)] for k, ss in m._type_to_association.items()),
        }
        return v, extra

    # ----- execution of one operation on the real objects; returns None or the exception -----
    def execute(self, op, handle=None):
        m, kind = self.model, op[0]
        try:
            if kind == "add_asset":
                kw = {}
                if op[2] is not None: kw["asset_id"] = op[2]
                if op[3] is not True: kw["allow_duplicate_names"] = op[3]
                m.add_asset(self.cands[op[1]], **kw)
            elif kind == "remove_asset":       m.remove_asset(self.cands[op[1]])
            elif kind == "add_assoc":          m.add_association(self.links[handle])
            elif kind == "remove_assoc":       m.remove_association(self.links[handle])
            elif kind == "remove_from_assoc":  m.remove_asset_from_association(self.cands[op[1]], self.links[handle])
            elif kind == "add_attacker":
                t = self.atts[op[1]]
                twice = any(x is t for x in m.attackers)
                if not twice and op[2] is not None and any(x.id == op[2] for x in m.attackers):
                    self.id_events.append(("explicit-id-already-in-use", op[2]))
                if op[2] is None: m.add_attacker(t)
                else: m.add_attacker(t, attacker_id=op[2])
                if twice:
                    self.id_events.append(("same-attachment-added-twice", t.id))
            elif kind == "remove_attacker":    m.remove_attacker(self.atts[op[1]])
            elif kind == "add_ep":             self.atts[op[1]].add_entry_point(self.cands[op[2]], op[3])
            elif kind == "remove_ep":          self.atts[op[1]].remove_entry_point(self.cands[op[2]], op[3])
            else: raise BadOp("unknown op %r" % (op,))
        except BadOp:
            raise
        except Exception as e:      # (incl. RecursionError) the property decides whether raising was right
            return e
        return None


    # ----- C07: build a model from a history, leaving out calls whose meaning the properties do not fix -----
    def live(self, c):
        return any(x is self.cands[c] for x in self.model.assets)

    def build(self, ops):
        """run the operations; a call that raises is simply a call that had no effect (C05 judges those)"""
        m = self.model
        for op in ops:
            k, handle = op[0], None
            if k == "add_asset" and self.live(op[1]): continue
            if k == "add_assoc":
                _, _, m1, _, m2 = self.U["links"][op[1]]
                if not all(self.live(c) for c in m1 + m2): continue
                handle = self.new_link(op[1])
            if k in ("remove_assoc", "remove_from_assoc"):
                inmodel = {h for h, s in enumerate(self.links) if any(x is s for x in m.associations)}
                handle = self.handle_for(op[-1], inmodel)
            if k == "add_attacker":
                t = self.atts[op[1]]
                if any(x is t for x in m.attackers): continue
                if not all(any(a is x for x in m.assets) for (a, _) in t.entry_points): continue
            if k == "add_ep" and not self.live(op[2]): continue
            self.execute(op, handle)
        return self


def exc_name(e):
    return type(e).__name__


# ---------------------------------------------------------------------------------------------------------------
# C07: full observable content of a model, by id (independent of candidate identity)

def literal(v):
    """plain python value of a library literal / wrapper (never repr)"""
    if hasattr(v, "_value"): v = v._value
    if hasattr(v, "for_json") and not isinstance(v, (dict, list, str, int, float)): v = v.for_json()
    if isinstance(v, dict): return {str(k): literal(x) for k, x in v.items()}
    if isinstance(v, (list, tuple)): return [literal(x) for x in v]
    return v


def spec_defenses(spec, type_name):
    """{defense: default} a type defines or inherits, computed from the language specification: 1 when the defense is
    declared Enabled, else 0 (statement of C06); a redeclaration in a sub-type replaces the inherited one"""
    by_name = {a["name"]: a for a in spec["assets"]}
    chain, t = [], type_name
    while t:
        chain.append(by_name[t]); t = by_name[t]["superAsset"]
    out = {}
    for a in reversed(chain):
        for st in a["attackSteps"]:
            if st["type"] == "defense":
                out[st["name"]] = 1.0 if (st["ttc"] and st["ttc"].get("name") == "Enabled") else 0.0
            else:
                out.pop(st["name"], None)
    return out


_SPEC_CACHE = {}


def lang_spec(name):
    if name not in _SPEC_CACHE: _SPEC_CACHE[name] = LANGS[name]()
    return _SPEC_CACHE[name]


def full_view(model, lang_name):
    spec = lang_spec(lang_name)
    assets = {}
    for a in model.assets:
        t = str(a.type)
        assets[int(a.id)] = {"name": str(a.name), "type": t, "class": type(a).__name__,
                             "defenses": {d: float(getattr(a, d)) for d in sorted(spec_defenses(spec, t))},
                             "extras": literal(a.extras) if hasattr(a, "extras") else {}}
    links = []
    for s in model.associations:
        fs = sorted([str(f), [int(x.id) if x is not None else None for x in getattr(s, f)]] for f in s._properties.keys())
        links.append([type(s).__name__, fs, literal(s.extras) if hasattr(s, "extras") else {}])
    attackers = sorted([t.id, str(t.name), sorted([int(a.id) if a is not None else None, list(steps)] for (a, steps) in t.entry_points)]
                       for t in model.attackers)
    return {"name": model.name, "assets": assets, "n_assets": len(model.assets),
            "links": sorted(links, key=lambda x: json.dumps(x, sort_keys=True, default=str)), "attackers": attackers}
