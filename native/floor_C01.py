"""
Bounded stand-in for C01 (attack-graph edges are exactly the MAL meaning of the step expressions).

Real code under test: maltoolbox.attackgraph.attackgraph._process_step_expression (called directly) and
AttackGraph(lang_graph, model) (generation + linking) on real LanguageGraph / Model objects; through them
Model.get_associated_assets_by_field_name, LanguageGraph._get_variable_for_asset_type_by_name,
LanguageGraph._get_attacks_for_asset_type and LanguageGraphAsset.is_subasset_of.
Reference: lib_gen.ModelView.sem (MAL set semantics over an abstract link list, written from the property statement;
for `transitive` only closure+(X) <= result <= X u closure+(X)) and lib_gen.Lang.steps (inheritance fold).
"""
from __future__ import annotations
import sys, os, json, random, itertools, collections
sys.path.insert(0, os.path.dirname(os.path.abspath(__file__)))
import common
from common import CaseResult
import lib_gen as G

PROPERTY = "C01"
FN_EVAL = "maltoolbox.attackgraph.attackgraph:_process_step_expression"
FN_NAV = "maltoolbox.model:Model.get_associated_assets_by_field_name"
FN_VAR = "maltoolbox.language.languagegraph:LanguageGraph._get_variable_for_asset_type_by_name"
FN_GEN = "maltoolbox.attackgraph.attackgraph:AttackGraph._generate_graph"
FN_FOLD = "maltoolbox.language.languagegraph:LanguageGraph._get_attacks_for_asset_type"

SCOPE = {
    "quick": "4 language structures over <=3 asset types (A<-B + C; chain A<-B<-C; one type with two reflexive "
             "associations; field name shared by two associations), variables on every level; expressions: every "
             "well-typed set expression of height <=2 from every type + 150 seeded random of height 3 per structure "
             "+ a curated list, each followed by an attack step; models: every model on <=2 assets (all type vectors, "
             "every sub-relation of every association incl. self-links and 2-cycles, 4 link decompositions: "
             "one link per pair / per left asset / per right asset / many-to-many) and seeded random models on 3 "
             "assets; (a) direct evaluator calls from every well-typed start set, (b) graph generation with the "
             "expressions as reaches of steps (languages of 1 step, of 2 steps with closures, of 8 steps without; one "
             "step with two reaches expressions) and 40 inheritance shapes (absent / '->' / '+>' / no-reaches per "
             "level); 2 expressions whose subtype filter is only well-typed under least-common-ancestor typing of "
             "set operators; the one-expression cases run on the models with <=1 linked pair or one 2-cycle, the "
             "batches on seeded fractions of the (model x batch) product (S1 80%, S3 20%, S2 3.5%, S4 100%, random "
             "models 12%; batches with closures a further 2-20%)",
    "thorough": "same structures; + 2500 random expressions of height <=4 per structure; models: all on <=2 assets, "
                "3000 random on 3 assets and 1500 on 4 assets per structure; seeded fractions of the (model x "
                "expression batch) product (S3 40%, S2 10%, S1/S4 100%, random models 4%, transitive batches x0.3)",
}
EXHAUSTIVE = {"quick": False, "thorough": False}
RULE = ("case = (language recipe, model recipe, kind): kind 'eval' calls the real evaluator on each listed expression "
        "from every subset of the assets whose type fits the expression's source type (once an expression did not "
        "terminate from a start set, its supersets and, within the same case, the other expressions with a closure "
        "over the same field are skipped); kind 'graph' generates the attack graph of a language whose steps carry the "
        "expressions (expressions with a closure are kept in languages of their own) and compares every node's "
        "child set, and the parent lists as multisets. A divergence is attributed to the innermost sub-expression "
        "on which the real evaluator, called directly on the reference input, leaves the reference result. A case "
        "is non-trivial when the reference reaches at least one asset; distinct = distinct (kind, language, model) "
        "recipes among the non-trivial ones")
ASSUMPTIONS = [
    "reference Sem: field navigation over the recipe's link list, set operators on the operand results from the same "
    "start set, subtype filter with the reflexive-transitive subtype relation, variable = nearest declaration up the "
    "chain, transitive only bounded (interval arithmetic propagates the bounds through later operators)",
    "termination guard: recursion limit = current depth + 150 frames; at most B calls of "
    "Model.get_associated_assets_by_field_name per evaluation or generation (counted by a delegating wrapper on the "
    "model instance), B = max(200 / 600 / 2000 / 4000 for models of 1 / 2 / 3 / 4 assets, 4 x the reference's bound "
    "on the navigations of a list-based evaluator that never removes duplicates and whose closures meet no cycle); "
    "evaluations with B > 200000 are not run; 30 s wall alarm; exceeding a limit is reported under C01.terminates. "
    "Generated expressions hold at most 2 subtype filters (variables expanded)",
    "the generated asset / association classes (LanguageClassesFactory) are cached per worker process, keyed by the "
    "asset types, associations and defenses of the language; LanguageGraph, Model and AttackGraph are built afresh "
    "for every case",
    "generated languages are well-typed by a typer stricter than the library's (least common ancestor for set "
    "operators, source type <= target type for transitive); LanguageGraph() accepting them is relied on",
]
BUDGET_S = {"quick": 100, "thorough": 1500}
CHUNK = 150
# calls of Model.get_associated_assets_by_field_name allowed per evaluation / generation, by number of assets
# (largest count observed on terminating evaluations of the pinned tree: 6 / 76 / 36 for 1 / 2 / 3 assets)
NAV_BUDGET = {1: 200, 2: 600, 3: 2000, 4: 4000}

CURATED = {
    "S1": [("A", e) for e in (
        ["u", ["d", ["f", "down"], ["f", "down"]], ["f", "up"]],
        ["d", ["u", ["f", "up"], ["f", "down"]], ["f", "down"]],
        ["c", ["t", "down"], ["u", ["f", "up"], ["f", "down"]]],
        ["s", "B", ["u", ["f", "down"], ["f", "up"]]],
        ["i", ["t", "down"], ["t", "up"]],
        ["d", ["t", "down"], ["f", "down"]],
        ["c", ["c", ["f", "down"], ["f", "down"]], ["t", "up"]],
        ["c", ["s", "B", ["f", "down"]], ["v", "v3"]],
        ["c", ["c", ["f", "cs"], ["f", "bs"]], ["v", "v1"]],
        ["u", ["c", ["f", "cs"], ["f", "as"]], ["s", "B", ["f", "up"]]],
    )],
    "S2": [("A", ["s", "C", ["s", "B", ["f", "down"]]]), ("B", ["c", ["v", "v2"], ["v", "v1"]]),
           ("C", ["u", ["v", "v3"], ["f", "kb"]]), ("C", ["d", ["v", "v1"], ["v", "v3"]]),
           ("B", ["c", ["t", "pa"], ["s", "C", ["f", "kb"]]])],
    "S3": [("A", e) for e in (
        ["u", ["i", ["f", "down"], ["f", "q"]], ["d", ["f", "up"], ["f", "p"]]],
        ["c", ["v", "v2"], ["v", "v1"]],
        ["d", ["c", ["f", "down"], ["f", "down"]], ["t", "down"]],
        ["i", ["u", ["f", "down"], ["f", "q"]], ["u", ["f", "up"], ["f", "p"]]],
        ["c", ["t", "q"], ["t", "down"]],
    )],
    "S4": [("A", ["c", ["v", "v1"], ["f", "bar"]]), ("C", ["c", ["c", ["f", "foo"], ["f", "foo"]], ["f", "baz"]])],
}


# set operators whose operands have different static types: malc types the result by the least common ancestor, so a
# subtype filter to a type below that ancestor (but not below the left operand) is well-formed MAL
TYPING = {"S2": [("A", ["s", "B", ["u", ["s", "C", ["f", "down"]], ["f", "up"]]]),
                 ("C", ["s", "B", ["i", ["s", "C", ["t", "up"]], ["v", "v1"]]])]}


def base_steps(L):
    return [[t, "t", "or", {}] for (t, s) in L.rec["types"] if s is None]


def full(e):
    return ["c", e, ["a", "t"]]


def family(sname, tier, seed):
    """[(source type, set expression)]: (height<=2 exhaustive, then random/curated deeper)"""
    L = G.Lang(G.with_steps(G.STRUCTS[sname], []))
    small, deep = [], []
    for T in L.order:
        for (e, _ty) in G.enum_exprs(L, T, 2):
            small.append((T, e))
    deep.extend(CURATED.get(sname, []))
    for (T, e) in deep:
        assert L.type_of(e, T) is not None, ("curated expression is ill-typed", sname, T, e)
    rnd = random.Random("%s/%s/%s" % (seed, sname, tier))
    count, dmax = (150, 3) if tier == "quick" else (2500, 4)
    seen = {json.dumps(x) for x in small + deep}
    tries = 0
    while count > 0 and tries < 100000:
        tries += 1
        T = rnd.choice(L.order)
        e, _ty = G.rand_expr(L, T, rnd.choice(range(3, dmax + 1)), rnd)
        if e is None or G.height(e) < 3: continue
        if G.count_subtypes(L, e) > 2: continue     # the evaluator's lists grow quadratically per subtype filter
        k = json.dumps((T, e))
        if k in seen: continue
        seen.add(k); deep.append((T, e)); count -= 1
    return L, small, deep


FOLD_EXPRS = {"S1": {"A": ["f", "down"], "B": ["f", "up"]},
              "S2": {"A": ["f", "down"], "B": ["f", "up"], "C": ["f", "kb"]}}


def fold_languages(sname):
    """inheritance shapes of one step 'h' along the chain: root declares it with / without reaches; every lower
    level: absent / '->' / '+>' / redeclared without reaches"""
    L = G.Lang(G.with_steps(G.STRUCTS[sname], []))
    ex = FOLD_EXPRS[sname]
    chain = [t for t in L.order if t in ex]
    for root_has in (True, False):
        for variants in itertools.product(("absent", "over", "ext", "nor"), repeat=len(chain) - 1):
            steps = base_steps(L)
            steps.append([chain[0], "h", "or", {"r": [full(ex[chain[0]])] if root_has else None}])
            for T, v in zip(chain[1:], variants):
                if v == "absent": continue
                steps.append([T, "h", "or", {"r": None if v == "nor" else [full(ex[T])], "o": v == "over"}])
            yield G.with_steps(G.STRUCTS[sname], steps)


def graph_lang(sname, L, batch):
    steps = base_steps(L)
    for k, (T, e) in enumerate(batch):
        steps.append([T, "s%d" % k, "or" if k % 2 == 0 else "and", {"r": [full(e)]}])
    if len(batch) >= 2:                          # one step with two reaches expressions (the 'some expression' part)
        (T0, e0), (T1, e1) = batch[0], batch[1]
        if L.is_sub(T0, T1) or L.is_sub(T1, T0):
            low = T0 if L.is_sub(T0, T1) else T1
            steps.append([low, "m", "or", {"r": [full(e0), full(e1)]}])
    return G.with_steps(G.STRUCTS[sname], steps)


# fraction of the (model x expression batch) product that is run per structure in the quick tier
QUICK_FRACTION = {"S3": 0.2, "S1": 0.8, "S2": 0.035, "S4": 1.0}
SINGLES_FRACTION = {"S3": 1.0, "S1": 1.0, "S2": 0.15, "S4": 1.0}
T_FRACTION = {"S3": 0.02, "S1": 0.1, "S2": 0.04, "S4": 0.2}      # further factor for the transitive batches
THOROUGH_FRACTION = {"S3": 0.4, "S1": 1.0, "S2": 0.10, "S4": 1.0}
T_FRACTION_THOROUGH = 0.3


def _is_tiny(L, links):
    """<=1 linked pair, or a 2-cycle inside one association: the shapes the smallest failing recipes come from"""
    if len(links) <= 1: return True
    if len(links) == 2 and links[0][0] == links[1][0]:
        (_c, _lf, l0, _rf, r0), (_c2, _lf2, l1, _rf2, r1) = links
        return l0 == r1 and r0 == l1 and l0 != r0
    return False


def cases(tier, seed):
    """the four structures' case streams, interleaved in blocks (a run cut short by the budget still covers all)"""
    gens = [_cases_of(sname, tier, seed) for sname in ("S3", "S1", "S2", "S4")]
    while gens:
        for g in list(gens):
            block = list(itertools.islice(g, CHUNK))
            if not block:
                gens.remove(g)
            yield from block


def _cases_of(sname, tier, seed):
    rnd = random.Random("%s/%s/cases" % (seed, sname))
    quick = tier == "quick"
    L, small, deep = family(sname, tier, seed)
    eval_lang = G.with_steps(G.STRUCTS[sname], base_steps(L))
    m12 = [m for n in (1, 2) for m in G.models_exhaustive(L, n)]
    if quick:
        big = list(G.models_random(L, 3, 300, rnd))
    else:
        big = list(G.models_random(L, 3, 3000, rnd)) + list(G.models_random(L, 4, 1500, rnd))

    fits = lambda T, types: any(L.is_sub(t, T) for t in types)
    # (1) one expression per case on the tiny models (smallest recipes)
    p1 = SINGLES_FRACTION[sname] if quick else 1.0
    for (types, links, mode) in m12:
        if mode != "pairs" or not _is_tiny(L, links): continue
        mrec = G.model_recipe(types, links)
        for (T, e) in small:
            if not fits(T, types) or (p1 < 1.0 and rnd.random() >= p1): continue
            if quick and G.trans_fields(L, e) and rnd.random() < 0.65: continue
            yield {"k": "eval", "lang": eval_lang, "src": T, "exprs": [full(e)], "model": mrec}
            yield {"k": "graph", "lang": graph_lang(sname, L, [(T, e)]), "model": mrec}
    for (T, e) in TYPING.get(sname, []):
        assert L.type_of(e, T) is not None
        for (types, links, mode) in m12:
            if mode != "pairs" or not fits(T, types) or (quick and rnd.random() >= 0.3): continue
            mrec = G.model_recipe(types, links)
            yield {"k": "eval", "lang": eval_lang, "src": T, "exprs": [full(e)], "model": mrec}
            yield {"k": "graph", "lang": graph_lang(sname, L, [(T, e)]), "model": mrec}
    # (2) inheritance shapes
    if sname in FOLD_EXPRS:
        fl = list(fold_languages(sname))
        for (types, links, mode) in m12 + big[:150]:
            if mode not in ("pairs", "rnd"): continue
            if quick and sname == "S2" and mode == "pairs" and rnd.random() >= 0.25: continue
            mrec = G.model_recipe(types, links)
            for lrec in fl:
                yield {"k": "graph", "lang": lrec, "model": mrec}
    # (3) batches of expressions x (every <=2-asset model in every decomposition, random larger models);
    #     expressions with a transitive operator are kept in batches / languages of their own, so that a
    #     non-terminating closure cannot hide what the other operators do
    allx = small + deep
    p2 = QUICK_FRACTION[sname] if quick else THOROUGH_FRACTION[sname]
    for has_t in (False, True):
        part = [(T, e) for (T, e) in allx if bool(G.trans_fields(L, e)) == has_t]
        ne, ng = (25, 8) if not has_t else (6, 2)
        by_src = {}
        for (T, e) in part: by_src.setdefault(T, []).append(e)
        ebatches = [(T, [full(e) for e in es[k:k + ne]]) for T, es in sorted(by_src.items())
                    for k in range(0, len(es), ne)]
        mixed = list(part); random.Random("%s/mix/%s" % (seed, sname)).shuffle(mixed)
        glangs = [graph_lang(sname, L, mixed[k:k + ng]) for k in range(0, len(mixed), ng)]
        for (types, links, mode) in m12 + big:
            mrec = G.model_recipe(types, links)
            p = p2 if mode != "rnd" else (0.12 if quick else 0.04)
            if has_t: p *= T_FRACTION[sname] if quick else T_FRACTION_THOROUGH
            for (T, es) in ebatches:
                if fits(T, types) and (p >= 1.0 or rnd.random() < p):
                    yield {"k": "eval", "lang": eval_lang, "src": T, "exprs": es, "model": mrec}
            for gl in glangs:
                if p >= 1.0 or rnd.random() < p:
                    yield {"k": "graph", "lang": gl, "model": mrec}


# -----------------------------------------------------------------------------------------------------

def _fn_of(op):
    return FN_NAV if op == "f" else FN_VAR if op == "v" else FN_EVAL


def _report(r, seen, clause, fn, msg, sig):
    if (clause, sig) in seen:
        r.clauses[clause] = False
        return
    seen.add((clause, sig))
    r.check(clause, False, fn, msg, sig)


def _clause_of_blame(b):
    if b["kind"] == "term": return "C01.terminates"
    if b["kind"] == "exc": return "C01.no-crash"
    if b["kind"] == "name": return "C01.eval.stepname"
    return "C01.eval." + G.OPNAME[b["op"]]


def run_case(recipe):
    L = G.Lang(recipe["lang"])
    mv = G.ModelView(L, recipe["model"])
    real = G.Real(L, recipe["model"], nav_budget=NAV_BUDGET[min(4, max(1, len(recipe["model"]["assets"])))], mv=mv)
    r = CaseResult()
    seen = set()
    if real.build_error is not None:
        sens = L.lhs_typing_sensitive() if real._stage.endswith("LanguageGraph.__init__") else []
        r.check("C01.no-crash", False, real._stage, "building the language / a valid model raised %r%s" % (
            real.build_error, "; a reaches expression is only well-typed if the type of %s is the least common "
            "ancestor of the operands" % "/".join(sens) if sens else ""),
                # a language that is only well-typed under closest-common-ancestor typing is identified by that cause: how the
                # rejection surfaces (LanguageGraphStepExpressionError, or AttributeError on the (None, None, None) error value
                # when the ill-typed part is nested) is incidental
                "build:%s:%s" % (real._stage.split(".")[-1], ("rejected:lca-typing:" + sens[0]) if sens else type(real.build_error).__name__))
        r.nontrivial_key = common.recipe_hash(recipe)
        return r
    r.check("C01.no-crash", True, FN_EVAL)
    if recipe["k"] == "eval":
        _run_eval(recipe, L, mv, real, r, seen)
    else:
        _run_graph(recipe, L, mv, real, r, seen)
    return r


def _run_eval(recipe, L, mv, real, r, seen):
    src = recipe["src"]
    pool = [k for k in range(mv.n) if L.is_sub(mv.types[k], src)]
    subsets = [frozenset(c) for n in range(len(pool) + 1) for c in itertools.combinations(pool, n)]
    nontrivial = False
    dead_fields = set()
    for e in recipe["exprs"]:
        inner = e[1] if e[0] == "c" and e[2][0] == "a" else e
        top = "C01.eval." + G.OPNAME[inner[0]]
        tf = G.trans_fields(L, e)
        okc = {"C01.eval.stepname" if op == "a" else "C01.eval." + G.OPNAME[op] for op in G.ops_of(e)}
        if tf: okc.add("C01.terminates")
        if tf & dead_fields:
            continue          # closure over this field already failed to terminate in this case
        dead = []
        for X in subsets:
            if any(d <= X for d in dead): continue
            lo, hi = mv.sem(e, X)
            if hi: nontrivial = True
            st, got, name, _n, _raw = real.eval(e, X)
            if st == "skip": continue            # guard would have to allow > CAP navigations: not run
            ok = st == "ok" and lo <= got <= hi and name == G.step_name(e)
            if ok:
                for c in okc: r.check(c, True, FN_EVAL)
                continue
            if st not in ("ok", "exc"):
                dead.append(X)
                b = G.nonterm_blame(real, mv, e, X, st, got)
                if b is not None and b["kind"] == "term": dead_fields |= tf
            else:
                b = G.blame(real, mv, e, sorted(X))
            if b is None:
                b = dict(op=inner[0], kind="term" if st not in ("ok", "exc") else "exc" if st == "exc" else "value",
                         sig="unlocalised:" + G.OPNAME[inner[0]] + ":" + (st if st != "ok" else "value"),
                         msg="%s from %s: real %s / step %r, reference [%s, %s] / step %r; no sub-expression "
                             "diverges on its reference input" % (G.show(e), sorted(X), G.describe(st, got) if st != "ok"
                                                                  else sorted(got), name, sorted(lo), sorted(hi),
                                                                  G.step_name(e)))
            _report(r, seen, _clause_of_blame(b), _fn_of(b["op"]), b["msg"], b["sig"])
    if nontrivial:
        r.nontrivial_key = common.recipe_hash(recipe)


def _run_graph(recipe, L, mv, real, r, seen):
    steps_of = {T: L.steps(T) for T in set(mv.types)}
    expected = [(x, s) for x in range(mv.n) for s in steps_of[mv.types[x]]]

    def culprit(pairs):
        for (x, s) in pairs:
            for e in steps_of[mv.types[x]][s]["exprs"] or []:
                b = G.blame(real, mv, e, [x])
                if b: return b
        return None

    st, g = real.generate([(e, [x]) for (x, s) in expected for e in steps_of[mv.types[x]][s]["exprs"] or []])
    if st == "skip":
        return
    if st != "ok":
        b = None
        if st != "exc":
            for reachable_only in (True, False):
                for (x, s) in expected:
                    for e in steps_of[mv.types[x]][s]["exprs"] or []:
                        if G.cyclic_trans(mv, e, [x]) if reachable_only else G.trans_fields(L, e):
                            b = G.nonterm_blame(real, mv, e, [x], st, g)
                            if b and b["kind"] != "term": b = None
                        if b: break
                    if b: break
                if b: break
        if b is None:
            b = culprit(expected)
        if st == "exc":
            sig = "generate:" + G.describe(st, g) + (":" + b["sig"] if b else "")
            r.check("C01.no-crash", False, FN_GEN, "AttackGraph(lang, model) raised %r%s" % (
                g, "; " + b["msg"] if b else ""), sig)
        else:
            sig = "generate:" + (b["sig"] if b else G.describe(st, g))
            r.check("C01.terminates", False, _fn_of(b["op"]) if b else FN_GEN,
                    "AttackGraph(lang, model) did not terminate within the guard (%s)%s" % (
                        G.describe(st, g), "; " + b["msg"] if b else ""), sig)
        r.nontrivial_key = common.recipe_hash(recipe)
        return
    r.check("C01.terminates", True, FN_GEN)
    nodes = {}
    foreign = 0
    for nd in g.nodes:
        try:
            x = real.index(nd.asset)
        except Exception:
            foreign += 1; continue
        nodes.setdefault((x, nd.name), nd)
    name_of = lambda x: str(real.objs[x].name)
    nontrivial = False
    for (x, s) in expected:
        nd = nodes.get((x, s))
        if nd is None:
            _report(r, seen, "C01.children.missing", FN_GEN, "no node for %s:%s" % (name_of(x), s), "no-node")
            continue
        exprs = steps_of[mv.types[x]][s]["exprs"] or []
        lower, upper = set(), set()
        for e in exprs:
            lo, hi = mv.sem(e, frozenset([x]))
            t = G.step_name(e)
            lower |= {(y, t) for y in lo}; upper |= {(y, t) for y in hi}
        if upper: nontrivial = True
        got = set()
        stray = False
        for c in nd.children:
            try:
                got.add((real.index(c.asset), c.name))
            except Exception:
                stray = True
        missing, extra = lower - got, got - upper
        sig = None
        if missing or extra or stray:
            used = nd.attributes["reaches"]["stepExpressions"] if isinstance(nd.attributes, dict) and \
                nd.attributes.get("reaches") else []
            if used != [G.to_spec(e) for e in exprs]:
                sig, fn = "resolved-reaches-differ", FN_FOLD
                why = "the generator used %d reaches expressions, the inheritance fold gives %d" % (len(used), len(exprs))
            else:
                b = culprit([(x, s)])
                sig, fn = (b["sig"], _fn_of(b["op"])) if b else ("linking", FN_GEN)
                why = b["msg"] if b else "the evaluator agrees with the reference on every sub-expression"
        fmt = lambda S: sorted("%s:%s" % (name_of(y), t) for (y, t) in S)
        if missing:
            _report(r, seen, "C01.children.missing", fn, "node %s:%s lacks children %s (has %s); %s" % (
                name_of(x), s, fmt(missing), fmt(got), why), sig)
        else:
            r.check("C01.children.missing", True, FN_GEN)
        if extra or stray:
            _report(r, seen, "C01.children.extra", fn, "node %s:%s has children %s outside the reference %s; %s" % (
                name_of(x), s, fmt(extra), fmt(upper), why), sig)
        else:
            r.check("C01.children.extra", True, FN_GEN)
    # parents are exactly the converse, as multisets, and stay inside the graph
    ch = collections.Counter(); pa = collections.Counter()
    inside = {id(nd) for nd in g.nodes}
    closed = True
    for nd in g.nodes:
        for c in nd.children:
            ch[(id(nd), id(c))] += 1; closed &= id(c) in inside
        for p in nd.parents:
            pa[(id(p), id(nd))] += 1; closed &= id(p) in inside
    r.check("C01.parents.converse", ch == pa and closed, FN_GEN,
            "children and parents are not mirror images: %d child entries, %d parent entries, %d differing pairs" % (
                sum(ch.values()), sum(pa.values()), len((ch - pa) + (pa - ch))), "not-mirrored")
    if nontrivial:
        r.nontrivial_key = common.recipe_hash(recipe)


if __name__ == "__main__":
    common.main(globals())
