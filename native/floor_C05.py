"""
Bounded stand-in for C05 (the instance model stays coherent under any history of edits).

Real code under test: maltoolbox.model.Model / AttackerAttachment, driven through their public methods on real
generated asset / association objects.  After every step of a history the model's observable state is compared
with lib_model.Ref, an abstract reference model written from the property statement.  Things the statement leaves
open are taken from the implementation and only checked for the stated constraint: the id given to an asset added
without explicit id (must be unused), the name given to a renamed duplicate or to a nameless asset (must be unused),
the id/name of an attacker added without them.
"""
from __future__ import annotations
import hashlib, itertools, json, random, sys, os
sys.path.insert(0, os.path.dirname(os.path.abspath(__file__)))
import common
from common import CaseResult
import lib_model as L

PROPERTY = "C05"
SCOPE = {
    "quick": "universe U0 (language A,B with AB and reflexive AA; 3 candidate assets, two of them with the same name, one "
             "named 'a:2'; 7 link shapes incl. self-link, asset on both sides, repeated asset; 2 attackers): ALL histories of "
             "<=3 operations over a 47-operation alphabet (valid and invalid arguments), and ALL histories of <=3 operations "
             "(35 operations: the alphabet without add_asset) after the three candidates have been added; universes U1 "
             "(nameless asset + asset named 'A:1') and U2 (inheritance, duplicate-named association classes): the same "
             "with <=2; U3 (all candidates constructed without a name): all histories of <=3 link/removal operations after "
             "the three candidates have been added; + 9000 seeded random histories of 4..12 operations (83-operation "
             "alphabet) over the four universes",
    "thorough": "as quick with <=4 operations from the empty model over U0 (4.9e6 histories), <=3 everywhere else, and "
                "150000 random histories of 4..14 operations",
}
EXHAUSTIVE = {"quick": False, "thorough": False}
RULE = ("case = (universe, list of operations, foreign flag); operations address candidate assets / link shapes / "
        "attackers by index; with foreign=false an add_association / add_attacker that mentions an asset which is not in "
        "the model is skipped, with foreign=true the reference demands that it raises; add_entry_point on an asset that is "
        "not in the model and re-adding an object that is already in the model are always skipped (the statement does not "
        "say what they mean). The history stops at the first step whose primary state (assets, links, back-references, "
        "neighbours, attackers) differs from the reference. non-trivial = at least one operation changed the reference "
        "state; distinct = distinct (outcome vector, final reference state)")
ASSUMPTIONS = [
    "reference model lib_model.Ref written from the property statement; ids of assets added without id, names chosen on "
    "renaming and attacker ids/names are read from the implementation and only checked to be unused",
    "PJS-EQ: candidates differ in (type, name, defenses), so the library's structural == on assets coincides with identity",
    "objects are identified by identity (`is`) when the state is read back; no library object is ever repr'd",
    "next_id and _type_to_association are read directly (anchors of the property: derived indexes)",
    "attacker ids need not be unique (the repository's own test adds two attackers with one id): the reference accepts "
    "them and get_attacker_by_id / _to_dict()['attackers'] are then not compared (C07 reports the loss on saving)",
    "an exception of an expected rejection may be of any type; AttributeError / TypeError / KeyError / RecursionError ... "
    "from a VALID call or while the state is read back fail C05.no-crash. RecursionError always gets the signature "
    "'structural-eq:RecursionError' (the library's == on assets/associations does not terminate on some cyclic models)",
]
BUDGET_S = {"quick": 100, "thorough": 1500}
CHUNK = 400

IDS = (None, 0, -1)


def alphabet(uname, full=False):
    U = L.UNIVERSES[uname]
    ops = []
    for c in range(3):
        for i in IDS: ops.append(["add_asset", c, i, True])
        ops.append(["add_asset", c, None, False])
        if full: ops += [["add_asset", c, 5, True], ["add_asset", c, 0, False], ["add_asset", c, 1, True]]
    for c in range(3): ops.append(["remove_asset", c])
    nl = len(U["links"])
    for k in range(nl): ops.append(["add_assoc", k])
    for k in ((1, 2, 3, 4) if not full else range(nl)): ops.append(["remove_assoc", k])
    rfa = [(0, 1), (1, 1), (2, 1), (0, 2), (0, 3), (0, 4), (1, 4), (0, 6)] if not full else \
        [(c, k) for c in range(3) for k in range(nl)]
    for (c, k) in rfa: ops.append(["remove_from_assoc", c, k])
    for t in (0, 1):
        for i in (None, 0): ops.append(["add_attacker", t, i])
        ops.append(["remove_attacker", t])
    if full: ops += [["add_attacker", 0, -3], ["add_attacker", 1, 7]]
    eps = [(0, 0, 0), (0, 0, 1), (0, 2, 0), (1, 0, 0)] if not full else \
        [(t, c, s) for t in (0, 1) for c in range(3) for s in range(len(U["steps"][c]))]
    def st(c, s): return U["steps"][c][s] if s < len(U["steps"][c]) else "nostep"
    for (t, c, s) in eps: ops.append(["add_ep", t, c, st(c, s)])
    for (t, c, s) in (eps[:3] if not full else eps): ops.append(["remove_ep", t, c, st(c, s)])
    return ops


class _Sim:
    """generator-side guess of what a history does (only used to bias random histories towards calls that are
    accepted; the verdicts never depend on it)"""
    def __init__(self, uname):
        self.U = L.UNIVERSES[uname]; self.ref = L.Ref(self.U["fields"])
        self.names = [n for (_, n, _) in self.U["cands"]]; self.nh = 0; self.by_shape = {}; self.nid = 0

    def step(self, op):
        """True when the reference accepts the call (and applies it)"""
        ref, k = self.ref, op[0]
        if k == "add_asset":
            c, want, allow = op[1], op[2], op[3]
            if c in ref.assets or ref.why_add_asset(c, self.names[c], want, allow): return False
            i = want if want is not None else self.nid
            n = self.names[c] if self.names[c] is not None and self.names[c] not in ref.names() else "%s:%d" % (self.names[c] or "X", i)
            self.names[c] = n; self.nid = max(self.nid, i + 1); ref.add_asset(c, i, n); return True
        if k == "remove_asset":
            if ref.why_remove_asset(op[1]): return False
            ref.remove_asset(op[1]); return True
        if k == "add_assoc":
            cls, f1, m1, f2, m2 = self.U["links"][op[1]]
            if ref.why_add_assoc(cls, {f1: m1, f2: m2}): return False
            ref.add_assoc(self.nh, cls, {f1: m1, f2: m2}); self.by_shape.setdefault(op[1], []).append(self.nh); self.nh += 1
            return True
        if k in ("remove_assoc", "remove_from_assoc"):
            live = [h for h in self.by_shape.get(op[-1], []) if h in ref.links]
            if not live: return False
            if k == "remove_assoc": ref.remove_assoc(live[-1]); return True
            if ref.why_remove_from_assoc(op[1], live[-1]): return False
            ref.remove_from_assoc(op[1], live[-1]); return True
        if k == "add_attacker":
            if op[1] in ref.attackers or ref.why_add_attacker(op[1], op[2]): return False
            i = op[2] if op[2] is not None else self.nid
            self.nid = max(self.nid, i + 1); ref.add_attacker(op[1], i, "x"); return True
        if k == "remove_attacker":
            if ref.why_remove_attacker(op[1]): return False
            ref.remove_attacker(op[1]); return True
        if k == "add_ep":
            if op[2] not in ref.assets or op[3] in ref.eps.get(op[1], {}).get(op[2], []): return False
            ref.add_ep(op[1], op[2], op[3]); return True
        if k == "remove_ep":
            if op[3] not in ref.eps.get(op[1], {}).get(op[2], []): return False
            ref.remove_ep(op[1], op[2], op[3]); return True
        return False


def cases(tier, seed):
    rnd = random.Random(seed)
    yield {"u": "U0", "ops": [], "foreign": True}
    plan = [("U0", 3), ("U1", 2), ("U2", 2)] if tier == "quick" else [("U0", 4), ("U1", 3), ("U2", 3)]
    for (u, n) in plan:
        al = alphabet(u)
        for k in range(1, n + 1):
            for h in itertools.product(al, repeat=k):
                yield {"u": u, "ops": list(h), "foreign": True}
    # the three candidates present, then every continuation (removals need something to remove)
    pre = [["add_asset", 0, None, True], ["add_asset", 1, None, True], ["add_asset", 2, None, True]]
    for (u, n) in ([("U0", 3), ("U1", 2), ("U2", 2)] if tier == "quick" else [("U0", 3), ("U1", 3), ("U2", 3)]):
        al = [o for o in alphabet(u) if o[0] != "add_asset" or tier != "quick"]
        for k in range(1, n + 1):
            for h in itertools.product(al, repeat=k):
                yield {"u": u, "ops": pre + list(h), "foreign": True}
    al = [o for o in alphabet("U3") if o[0] in ("add_assoc", "remove_asset", "remove_assoc", "remove_from_assoc")]
    for k in range(1, 4):
        for h in itertools.product(al, repeat=k):
            yield {"u": "U3", "ops": pre + list(h), "foreign": True}
    count, hi = (9000, 12) if tier == "quick" else (150000, 14)
    full = {u: alphabet(u, True) for u in L.UNIVERSES}
    for i in range(count):
        u = ("U0", "U1", "U2", "U0", "U1", "U2", "U3")[i % 7]
        al, sim = full[u], _Sim(u)
        n = rnd.randint(4, hi)
        p_valid = rnd.choice((0.6, 0.8, 0.95))
        ops = []
        for _ in range(n):
            op = rnd.choice(al)
            if rnd.random() < p_valid:
                for _try in range(8):
                    if sim.step(op): break
                    op = rnd.choice(al)
            else:
                sim.step(op)
            ops.append(op)
        yield {"u": u, "ops": ops, "foreign": rnd.random() < 0.15}


# -----------------------------------------------------------------------------------------------------------------

def _idclass(i):
    return "none" if i is None else ("0" if i == 0 else ("neg" if i < 0 else "pos"))


def run_case(recipe):
    sys.setrecursionlimit(1000)      # python's default; a non-terminating comparison is reported sooner
    r = CaseResult()
    S = L.Session(recipe["u"])
    ref = L.Ref(S.U["fields"])
    foreign = recipe.get("foreign", True)
    outcomes = []
    changed = False
    seen_ids, seen_names = {0, 1, -1, 7}, {"a", "nope"}
    gap = {"ids": ([], []), "names": ([], [])}

    def fail(clause, fn, msg, sig):
        r.check("C05." + clause, False, fn, msg, sig)

    try:
        before, before_x = S.observe()
    except Exception as e:          # empty model
        fail("no-crash", "maltoolbox.model:Model", "reading the empty model: %s" % L.exc_name(e), "observe:" + L.exc_name(e))
        return r

    for step_no, op in enumerate(recipe["ops"]):
        kind = op[0]; fn = L.FN[kind]
        where = "step %d %s" % (step_no, json.dumps(op))
        handle = None
        # ---- what the reference says about this call ----
        if kind == "add_asset":
            c, want, allow = op[1], op[2], op[3]
            if c in ref.assets: outcomes.append("skip"); continue                 # object already in the model
            given = S.given_name(c)
            why = ref.why_add_asset(c, given, want, allow)
        elif kind == "remove_asset":
            why = ref.why_remove_asset(op[1])
        elif kind == "add_assoc":
            cls, f1, m1, f2, m2 = S.U["links"][op[1]]
            members = {f1: m1, f2: m2}
            why = ref.why_add_assoc(cls, members)
            if why == "asset-not-in-model" and not foreign: outcomes.append("skip"); continue
            handle = S.new_link(op[1])
        elif kind == "remove_assoc":
            handle = S.handle_for(op[1], ref.links); why = ref.why_remove_assoc(handle)
        elif kind == "remove_from_assoc":
            handle = S.handle_for(op[2], ref.links); why = ref.why_remove_from_assoc(op[1], handle)
        elif kind == "add_attacker":
            if op[1] in ref.attackers: outcomes.append("skip"); continue          # object already in the model
            why = ref.why_add_attacker(op[1], op[2])
            if why == "asset-not-in-model" and not foreign: outcomes.append("skip"); continue
        elif kind == "remove_attacker":
            why = ref.why_remove_attacker(op[1])
        elif kind == "add_ep":
            if op[2] not in ref.assets: outcomes.append("skip"); continue         # unspecified
            why = None
        elif kind == "remove_ep":
            if op[2] not in ref.assets and op[2] not in ref.eps.get(op[1], {}): outcomes.append("skip"); continue   # unspecified
            why = None
        else:
            raise RuntimeError("bad op")

        # ---- the real call ----
        prev_ref, prev_eps = ref.view(S.all_fields), json.dumps(ref.eps, sort_keys=True)
        exc = S.execute(op, handle)
        try:
            after, after_x = S.observe()
        except Exception as e:
            fail("no-crash", fn, "%s: reading the state back raised %s" % (where, L.exc_name(e)),
                 "structural-eq:RecursionError" if isinstance(e, RecursionError) else "%s:observe:%s" % (kind, L.exc_name(e)))
            outcomes.append("crash"); break

        if exc is not None:
            outcomes.append("raise")
            ok_atomic = True
            if isinstance(exc, RecursionError) or (why is None and isinstance(exc, L.CRASH)):
                fail("no-crash", fn, "%s raised %s: %s" % (where, L.exc_name(exc), str(exc)[:120]),
                     "structural-eq:RecursionError" if isinstance(exc, RecursionError) else
                     "%s:%s:%s" % (kind, why or "valid", L.exc_name(exc)))
            if why is None:
                det = ""
                if kind == "add_asset":      # is the refusal explained by a reservation that no live asset holds?
                    if given is not None and given in gap["names"][0]: det = ":name-held-by-no-live-asset"
                    elif want is not None and want in gap["ids"][0]: det = ":id-held-by-no-live-asset"
                fail("outcome", fn, "%s is valid per the reference but raised %s: %s" % (where, L.exc_name(exc), str(exc)[:120]),
                     "structural-eq:RecursionError" if isinstance(exc, RecursionError) else
                     "%s:valid-call-raised:%s%s" % (kind, L.exc_name(exc), det))
            diff = [k for k in before if before[k] != after[k]]
            diffx = [k for k in before_x if before_x[k] != after_x[k]]
            if diff or diffx:
                ok_atomic = False
                fail("atomic", fn, "%s raised %s but changed %s" % (where, L.exc_name(exc), ",".join(diff + diffx)),
                     "structural-eq:RecursionError" if isinstance(exc, RecursionError) else
                     "%s:%s:changed:%s" % (kind, why or "valid", "+".join(diff + diffx)))
            before, before_x = after, after_x
            if why is None or diff:      # primary state no longer that of the reference
                break
            continue

        # normal return
        if why is not None:
            outcomes.append("accepted-invalid")
            fail("outcome", fn, "%s must be rejected (%s) but returned normally" % (where, why),
                 "%s:%s%s:accepted" % (kind, why, ("-" + _idclass(op[2])) if why in ("id-in-use", "attacker-id-in-use") else ""))
            break
        outcomes.append("ok")
        hard = False
        # ---- apply to the reference ----
        if kind == "add_asset":
            a = S.cands[c]
            got_id, got_name = int(a.id), str(a.name)
            if want is not None and got_id != want:
                fail("assets", fn, "%s: explicit id %d not honoured, asset got id %d" % (where, want, got_id),
                     "add_asset:explicit-id-%s-not-honoured" % _idclass(want))
            if got_id in ref.ids():
                fail("assets", fn, "%s: id %d given to the asset is already used by a live asset" % (where, got_id),
                     "add_asset:id-%s-collides" % _idclass(want)); hard = True
            if got_name in ref.names():
                fail("assets", fn, "%s: name %r given to the asset is already used by a live asset" % (where, got_name),
                     "add_asset:name-collides:%s" % ("nameless" if given is None else "renamed")); hard = True
            elif given is not None and given not in ref.names() and got_name != given:
                fail("assets", fn, "%s: name %r is free but the asset was renamed to %r" % (where, given, got_name),
                     "add_asset:free-name-renamed" + (":name-held-by-no-live-asset" if given in gap["names"][0] else ""))
            ref.add_asset(c, got_id, got_name)
            seen_ids.add(got_id); seen_names.add(got_name)
        elif kind == "remove_asset":      ref.remove_asset(op[1])
        elif kind == "add_assoc":         ref.add_assoc(handle, cls, members)
        elif kind == "remove_assoc":      ref.remove_assoc(handle)
        elif kind == "remove_from_assoc": ref.remove_from_assoc(op[1], handle)
        elif kind == "add_attacker":
            t = S.atts[op[1]]
            if op[2] is not None and t.id != op[2]:
                fail("attackers", fn, "%s: explicit attacker id %r not honoured (got %r)" % (where, op[2], t.id),
                     "add_attacker:explicit-id-%s-not-honoured" % _idclass(op[2]))
            if op[2] is None and t.id in {i for (i, _) in ref.attackers.values()}:
                fail("attackers", fn, "%s: generated attacker id %r already used" % (where, t.id), "add_attacker:id-collides")
            ref.add_attacker(op[1], t.id, str(t.name))
        elif kind == "remove_attacker":   ref.remove_attacker(op[1])
        elif kind == "add_ep":            ref.add_ep(op[1], op[2], op[3])
        elif kind == "remove_ep":         ref.remove_ep(op[1], op[2], op[3])

        want_v = ref.view(S.all_fields)
        if want_v != prev_ref or (kind in ("add_ep", "remove_ep") and json.dumps(ref.eps, sort_keys=True) != prev_eps):
            changed = True
        # ---- compare ----
        selflinked = {c2 for (_, fs) in ref.links.values() for c2 in set.intersection(*[set(v) for v in fs.values()])}
        for sec, clause in (("assets", "assets"), ("links", "links"), ("backrefs", "backrefs"), ("nbrs", "neighbours"),
                            ("attackers", "attackers")):
            if after[sec] != want_v[sec]:
                if sec != "nbrs": hard = True
                if sec == "nbrs":
                    bad = sorted(k for k in set(after[sec]) | set(want_v[sec]) if after[sec].get(k) != want_v[sec].get(k))
                    k0 = bad[0]; c0 = int(k0.split(".")[0])
                    g, w = after[sec].get(k0), want_v[sec].get(k0)
                    shape = "self-link" if c0 in selflinked else ("stale" if (g and not w) else "wrong")
                    if g is not None and w is not None and sorted(set(g)) == w: shape += "-duplicated"
                    # a wrong answer for an asset that sits on both sides of a link is the query's fault, the state
                    # is intact: keep going.  Anything else means the back-references are off: stop.
                    if not shape.startswith("self"): hard = True
                    fail(clause, "maltoolbox.model:Model.get_associated_assets_by_field_name" if shape.startswith("self") else fn,
                         "%s: neighbours of candidate %s are %s, reference says %s" % (where, k0, g, w),
                         shape if shape.startswith("self") else "%s:%s" % (kind, shape))
                elif sec == "backrefs":
                    bad = sorted(k for k in set(after[sec]) | set(want_v[sec]) if after[sec].get(k) != want_v[sec].get(k))
                    g, w = after[sec].get(bad[0]), want_v[sec].get(bad[0])
                    shape = "stale" if (g is not None and w is not None and set(g) > set(w)) else "differs"
                    fail(clause, fn, "%s: candidate %s lists associations %s, reference says %s" % (where, bad[0], g, w),
                         "%s:%s" % (kind, shape))
                else:
                    fail(clause, fn, "%s: %s are %s, reference says %s" % (where, sec, after[sec], want_v[sec]),
                         "%s:%s-differ" % (kind, sec))
            else:
                r.check("C05." + clause, True, fn)
        # reservations: report at the step where asset_ids / asset_names start to disagree with the live assets
        for sec in ("ids", "names"):
            extra = sorted(set(after[sec]) - set(want_v[sec]), key=str); missing = sorted(set(want_v[sec]) - set(after[sec]), key=str)
            if (extra, missing) != gap[sec] and (extra or missing):
                shape = "stale" if extra and not missing else ("missing" if missing and not extra else "differs")
                fail("reservations", fn, "%s: asset_%s is %s, live %s are %s" % (where, sec, after[sec], sec, want_v[sec]),
                     "%s:%s-%s" % (kind, sec, shape))
            else:
                r.check("C05.reservations", True, fn)
            gap[sec] = (extra, missing)
        want_index = {}
        for h, (cls2, _) in ref.links.items(): want_index.setdefault(cls2, []).append(h)
        if after_x["type_index"] != sorted([k, sorted(v)] for k, v in want_index.items()):
            fail("links", fn, "%s: _type_to_association is %s, reference %s" % (where, after_x["type_index"], want_index),
                 "%s:type-index" % kind)
        if not hard:
            hard = not lookups_and_dict(r, S, ref, kind, fn, where, seen_ids, seen_names)
        before, before_x = after, after_x
        if hard:
            break

    for cl in ("assets", "reservations", "links", "backrefs", "neighbours", "attackers", "lookups", "to-dict", "outcome",
               "atomic", "no-crash"):
        r.clauses.setdefault("C05." + cl, True)
    if changed:
        fin = json.dumps([outcomes, ref.view(S.all_fields)], sort_keys=True, default=str)
        r.nontrivial_key = recipe["u"] + ":" + hashlib.sha256(fin.encode()).hexdigest()[:16]
    return r


def lookups_and_dict(r, S, ref, kind, fn, where, seen_ids, seen_names):
    m = S.model
    ok = True
    by_id = {i: c for c, (i, _) in ref.assets.items()}
    by_name = {n: c for c, (_, n) in ref.assets.items()}
    for i in sorted(seen_ids):
        try:
            got = m.get_asset_by_id(i)
            g = None if got is None else S._c(got)
        except Exception as e:
            g = "raised " + L.exc_name(e)
        if g != by_id.get(i):
            ok = False
            r.check("C05.lookups", False, "maltoolbox.model:Model.get_asset_by_id",
                    "%s: get_asset_by_id(%d) gives candidate %s, reference %s" % (where, i, g, by_id.get(i)), "%s:by-id" % kind)
    for n in sorted(seen_names):
        try:
            got = m.get_asset_by_name(n)
            g = None if got is None else S._c(got)
        except Exception as e:
            g = "raised " + L.exc_name(e)
        if g != by_name.get(n):
            ok = False
            r.check("C05.lookups", False, "maltoolbox.model:Model.get_asset_by_name",
                    "%s: get_asset_by_name(%r) gives candidate %s, reference %s" % (where, n, g, by_name.get(n)), "%s:by-name" % kind)
    att_by_id = {i: t for t, (i, _) in ref.attackers.items()}
    for i in sorted(set(att_by_id) | {0, 1, 7}):
        got = m.get_attacker_by_id(i)
        g = None if got is None else S._t(got)
        if g != att_by_id.get(i) and len([1 for (j, _) in ref.attackers.values() if j == i]) <= 1:
            ok = False
            r.check("C05.lookups", False, "maltoolbox.model:Model.get_attacker_by_id",
                    "%s: get_attacker_by_id(%r) gives attacker %s, reference %s" % (where, i, g, att_by_id.get(i)), "%s:attacker-by-id" % kind)
    # _to_dict
    try:
        d = m._to_dict()
        got = {
            "assets": {int(k): [v["name"], v["type"]] for k, v in d["assets"].items()},
            "links": sorted(json.dumps({k: v for k, v in e.items() if k != "extras"}, sort_keys=True) for e in d["associations"]),
            "attackers": {k: [v["name"], {int(a): sorted(x["attack_steps"]) for a, x in v["entry_points"].items()}]
                          for k, v in d["attackers"].items()},     # (two attackers with one id: C07's business)
        }
    except Exception as e:
        r.check("C05.no-crash", False, "maltoolbox.model:Model._to_dict", "%s: _to_dict raised %s" % (where, L.exc_name(e)),
                "%s:_to_dict:%s" % (kind, L.exc_name(e)))
        return False
    types = [t for (t, _, _) in S.U["cands"]]
    idof = {c: i for c, (i, _) in ref.assets.items()}
    want = {
        "assets": {i: [n, types[c]] for c, (i, n) in ref.assets.items()},
        "links": sorted(json.dumps({cls: {f: [idof[x] for x in v] for f, v in fs.items()}}, sort_keys=True)
                        for (cls, fs) in ref.links.values()),
        "attackers": {i: [n, {idof[c]: sorted(s) for c, s in ref.eps.get(t, {}).items()}] for t, (i, n) in ref.attackers.items()},
    }
    # member order inside a field is not fixed by the statement: compare sorted
    def norm(js):
        e = json.loads(js); return json.dumps({k: {f: sorted(v) for f, v in fs.items()} for k, fs in e.items()}, sort_keys=True)
    got["links"] = sorted(norm(x) for x in got["links"]); want["links"] = sorted(norm(x) for x in want["links"])
    dup_att = len({i for (i, _) in ref.attackers.values()}) < len(ref.attackers)
    for sec in ("assets", "links", "attackers"):
        if got[sec] != want[sec] and not (sec == "attackers" and dup_att):
            ok = False
            r.check("C05.to-dict", False, "maltoolbox.model:Model._to_dict",
                    "%s: _to_dict()[%s] is %s, reference %s" % (where, sec, got[sec], want[sec]), "%s:%s" % (kind, sec))
    return ok


if __name__ == "__main__":
    common.main(globals())
