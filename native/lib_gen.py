"""
Shared helpers of the floors C01 / C02 (attack-graph generation).

Contents
* compact step expressions (JSON lists) and their translation to the langspec dict form;
* `Lang`      - reference view of a language recipe: sup / Anc* / Sub*, Var(T, v) (nearest declaration up the
                inheritance chain), Steps(T) (the C03 fold: '->' replaces, '+>' appends, no reaches leaves untouched),
                static typing of expressions (only used to *generate* well-typed inputs);
* `ModelView` - abstract model (asset types + link list) with nav / closure+ and the reference evaluator `sem`
                (MAL set semantics written from the statement of C01; for `transitive` only the two bounds
                closure+(X) <= result <= X u closure+(X) are known, so `sem` works on intervals [lo, hi]);
* `Real`      - builds the REAL LanguageGraph / classes / Model from the same recipes and runs the REAL evaluator /
                generator under termination guards (recursion limit, navigation budget, wall-clock alarm);
* enumerators of languages structures, expressions and models.

The reference side never calls repository code; the real side never looks at the reference.

Compact expressions:  ["f",field] ["v",variable] ["t",field] (transitive) ["s",Type,e] (subtype filter)
                      ["c",l,r] (collect)  ["u",l,r] ["i",l,r] ["d",l,r]  ["a",step]
Language recipe:  {"types": [[name, super|None]...], "assocs": [[name,left,lfield,right,rfield]...],
                   "vars": [[type, name, expr]...],
                   "steps": [[type, name, kind, {"r": [expr..]|None, "o": bool, "q": [expr..]|None,
                                                 "ttc": "en"|"dis"|"exp"|None, "tags": [...], "mitre": str|None}]...]}
   (`lfield` holds assets of type `left`: it is the field of `right` assets that leads to `left` assets.)
Model recipe   :  the format of mini.build_model.
"""
from __future__ import annotations
import sys, os, json, signal, itertools, random, copy

sys.path.insert(0, os.path.dirname(os.path.abspath(__file__)))
import mini

# =====================================================================================================
# compact expressions

def to_spec(e):
    op = e[0]
    if op == "a": return mini.step(e[1])
    if op == "f": return mini.field(e[1])
    if op == "v": return mini.var(e[1])
    if op == "t": return mini.trans(e[1])
    if op == "s": return mini.sub(e[1], to_spec(e[2]))
    if op == "c": return mini.collect(to_spec(e[1]), to_spec(e[2]))
    if op == "u": return mini.union(to_spec(e[1]), to_spec(e[2]))
    if op == "i": return mini.inter(to_spec(e[1]), to_spec(e[2]))
    if op == "d": return mini.diff(to_spec(e[1]), to_spec(e[2]))
    raise ValueError("bad compact expression %r" % (e,))


def show(e):
    op = e[0]
    if op in "af": return e[1]
    if op == "v": return e[1] + "()"
    if op == "t": return e[1] + "*"
    if op == "s": return "%s[%s]" % (show(e[2]), e[1])
    if op == "c": return "%s.%s" % (show(e[1]), show(e[2]))
    return "(%s %s %s)" % (show(e[1]), {"u": "\\/", "i": "/\\", "d": "-"}[op], show(e[2]))


OPNAME = {"a": "attackStep", "f": "field", "v": "variable", "t": "transitive", "s": "subtype", "c": "collect",
          "u": "union", "i": "intersection", "d": "difference"}


def height(e):
    op = e[0]
    if op in "afvt": return 1
    if op == "s": return 1 + height(e[2])
    return 1 + max(height(e[1]), height(e[2]))


def ops_of(e, acc=None):
    acc = set() if acc is None else acc
    acc.add(e[0])
    for x in e[1:]:
        if isinstance(x, list):
            ops_of(x, acc)
    return acc


def count_subtypes(L, e):
    """number of subtype filters in e, variables expanded"""
    n = 1 if e[0] == "s" else 0
    if e[0] == "v":
        n += max([count_subtypes(L, body) for (U, v), body in L.vars.items() if v == e[1]] or [0])
    return n + sum(count_subtypes(L, x) for x in e[1:] if isinstance(x, list))


def step_name(e):
    """the attack step an expression names: the right-most leaf of the collect spine"""
    if e[0] == "a": return e[1]
    if e[0] == "c": return step_name(e[2])
    return None


TTC = {"en": mini.TTC_ENABLED, "dis": mini.TTC_DISABLED, "exp": mini.ttc_exp(0.1), None: None}


# =====================================================================================================
# reference view of a language

class Lang:
    def __init__(self, rec):
        self.rec = rec
        self.sup = {n: s for (n, s) in rec["types"]}
        self.order = [n for (n, _s) in rec["types"]]
        self.assocs = [tuple(a) for a in rec["assocs"]]
        self.vars = {(t, n): e for (t, n, e) in rec.get("vars", [])}
        self.decl = {n: [] for n in self.order}
        for (t, n, kind, o) in rec.get("steps", []):
            self.decl[t].append((n, kind, o))

    # ---- inheritance
    def anc(self, T):
        out = []
        while T is not None:
            out.append(T); T = self.sup[T]
        return out

    def is_sub(self, U, T):            # reflexive-transitive:  U in Sub*(T)
        return T in self.anc(U)

    def subs(self, T, strict=False):
        return [U for U in self.order if self.is_sub(U, T) and not (strict and U == T)]

    def lca(self, T1, T2):
        a2 = self.anc(T2)
        for U in self.anc(T1):
            if U in a2: return U
        return None

    # ---- variables: nearest declaration up the chain
    def var(self, T, v):
        for U in self.anc(T):
            if (U, v) in self.vars:
                return self.vars[(U, v)], U
        return None, None

    def visible_vars(self, T):
        return sorted({v for (U, v) in self.vars if U in self.anc(T)})

    # ---- steps: the C03 fold, root first
    def steps(self, T):
        chain = list(reversed(self.anc(T)))
        res = {}
        for U in chain:
            for (n, kind, o) in self.decl[U]:
                d = {"kind": kind, "ttc": o.get("ttc"), "tags": list(o.get("tags") or []), "mitre": o.get("mitre"),
                     "exprs": None if o.get("r") is None else list(o["r"]),
                     "requires": None if o.get("q") is None else list(o["q"]), "from": U}
                if n not in res:
                    res[n] = d
                elif o.get("r") is None:
                    continue                                   # no reaches clause: inherited definition untouched
                elif o.get("o", True):
                    res[n] = d                                 # '->' replaces
                else:
                    cur = dict(res[n])                         # '+>' keeps the inherited one and appends
                    cur["exprs"] = list(cur["exprs"] or []) + list(o["r"])
                    res[n] = cur
        return res

    # ---- static typing (used only to generate well-typed inputs)
    def fields(self, T):
        out = {}
        for (_n, left, lf, right, rf) in self.assocs:
            if self.is_sub(T, right): out[lf] = left
            if self.is_sub(T, left): out[rf] = right
        return out

    def type_of(self, e, T, lhs_ops=""):
        """static type of e from T; set operators are typed by the least common ancestor of their operands (malc),
        except those listed in lhs_ops, which take the type of the left operand (only used to classify a rejection
        of a language by the library)"""
        if T is None: return None
        op = e[0]
        if op == "a": return T
        if op == "f": return self.fields(T).get(e[1])
        if op == "t":
            S = self.fields(T).get(e[1])
            return S if S is not None and self.is_sub(T, S) else None
        if op == "v":
            body, U = self.var(T, e[1])
            return None if body is None else self.type_of(body, U, lhs_ops)
        if op == "s":
            S = self.type_of(e[2], T, lhs_ops)
            return e[1] if S is not None and self.is_sub(e[1], S) else None
        if op == "c":
            return self.type_of(e[2], self.type_of(e[1], T, lhs_ops), lhs_ops)
        a, b = self.type_of(e[1], T, lhs_ops), self.type_of(e[2], T, lhs_ops)
        if a is None or b is None: return None
        c = self.lca(a, b)
        return a if (c is not None and op in lhs_ops) else c

    def lhs_typing_sensitive(self):
        """names of the set operators for which some reaches expression of the language is well-typed with
        least-common-ancestor typing but not when that operator takes the type of its left operand"""
        out = []
        for op in "uid":
            for T in self.order:
                for s, d in self.steps(T).items():
                    for e in d["exprs"] or []:
                        if self.type_of(e, T) is not None and self.type_of(e, T, op) is None and OPNAME[op] not in out:
                            out.append(OPNAME[op])
        return out

    # ---- langspec dict
    def spec(self):
        assets = []
        for (n, s) in self.rec["types"]:
            steps = []
            for (sn, kind, o) in self.decl[n]:
                meta = {"mitre": o["mitre"]} if o.get("mitre") is not None else {}
                steps.append(mini.attack_step(
                    sn, kind, reaches=None if o.get("r") is None else [to_spec(x) for x in o["r"]],
                    overrides=o.get("o", True), ttc=copy.deepcopy(TTC[o.get("ttc")]),
                    requires=None if o.get("q") is None else [to_spec(x) for x in o["q"]],
                    tags=o.get("tags") or [], meta=meta))
            vs = [(v, to_spec(e)) for (t, v, e) in self.rec.get("vars", []) if t == n]
            assets.append(mini.asset(n, sup=s, steps=steps, variables=vs))
        return mini.lang(assets, [mini.assoc(*a) for a in self.assocs])


# =====================================================================================================
# reference model view and evaluator

class ModelView:
    def __init__(self, lang, mrec):
        self.lang = lang
        self.types = [a[0] for a in mrec["assets"]]
        self.n = len(self.types)
        # every link: (lfield, set(left idx), rfield, set(right idx))
        self.links = [(lf, frozenset(li), rf, frozenset(ri)) for (_c, lf, li, rf, ri) in mrec.get("links", [])]

    def nav(self, f, S):
        """assets in field f of some link that lists a member of S in the opposite field"""
        out = set()
        for (lf, L, rf, R) in self.links:
            if f == rf and (S & L): out |= R
            if f == lf and (S & R): out |= L
        return frozenset(out)

    def clplus(self, f, S):
        acc = set(); front = self.nav(f, S)
        while not front <= acc:
            acc |= front
            front = self.nav(f, frozenset(acc))
        return frozenset(acc)

    def has_self_link(self):
        return any(L & R for (_lf, L, _rf, R) in self.links)

    def cyclic_from(self, f, S):
        """does the f-successor relation contain a cycle reachable from S"""
        reach = set(S) | set(self.clplus(f, frozenset(S)))
        return any(x in self.clplus(f, frozenset([x])) for x in reach)

    def fanout(self):
        """upper bound on the length of the list one navigation returns (a link that lists the asset on both sides
        may be visited once per side)"""
        tot = {}
        for (lf, L, rf, R) in self.links:
            tot[lf] = tot.get(lf, 0) + 2 * len(L)
            tot[rf] = tot.get(rf, 0) + 2 * len(R)
        return max([1] + list(tot.values()))

    def est(self, e, k, S=None):
        """(length of the result list, number of navigations) that a list-based evaluator which never removes
        duplicates can need for e from a list of k assets drawn from the set S (default: all assets).  A closure
        whose input reaches a cycle of its field is costed as one breadth-first closure per list element (any
        terminating implementation must cut the cycle); otherwise as the walk along all paths.  Only used to size
        the termination guard, never to judge a result."""
        if S is None: S = frozenset(range(self.n))
        D = self.fanout()
        op = e[0]
        if op == "a": return k, 0
        if op == "f": return k * D, k
        if op == "t":
            if self.cyclic_from(e[1], S):
                return k * self.n, k * (self.n + 1)
            g = sum(D ** i for i in range(1, max(2, self.n)))
            return k * g, k * (1 + g)
        if op == "c":
            s1, n1 = self.est(e[1], k, S); s2, n2 = self.est(e[2], s1, self.sem(e[1], S)[1])
            return s2, n1 + n2
        if op == "s":
            s1, n1 = self.est(e[2], k, S)
            return k * s1, k * n1
        if op == "v":
            cands = [self.est(body, k, S) for (U, v), body in self.lang.vars.items() if v == e[1]]
            return max(c[0] for c in cands), max(c[1] for c in cands)
        (s1, n1), (s2, n2) = self.est(e[1], k, S), self.est(e[2], k, S)
        return {"u": s1 + s2, "i": s2, "d": s1}[op], n1 + n2

    def sem(self, e, lo, hi=None):
        """interval [lo', hi'] containing the meaning of e from any X with lo <= X <= hi"""
        if hi is None: hi = lo
        op = e[0]
        if op == "a":
            return lo, hi
        if op == "f":
            return self.nav(e[1], lo), self.nav(e[1], hi)
        if op == "t":
            return self.clplus(e[1], lo), hi | self.clplus(e[1], hi)
        if op == "c":
            l = self.sem(e[1], lo, hi)
            return self.sem(e[2], l[0], l[1])
        if op == "s":
            l = self.sem(e[2], lo, hi)
            keep = lambda S: frozenset(y for y in S if self.lang.is_sub(self.types[y], e[1]))
            return keep(l[0]), keep(l[1])
        if op == "v":
            groups = {}
            for x in hi:
                body, _U = self.lang.var(self.types[x], e[1])
                g = groups.setdefault(json.dumps(body), [body, set(), set()])
                g[2].add(x)
                if x in lo: g[1].add(x)
            rl, rh = frozenset(), frozenset()
            for (body, glo, ghi) in groups.values():
                if body is None:
                    raise ValueError("ill-typed input: variable %s not visible" % e[1])
                a, b = self.sem(body, frozenset(glo), frozenset(ghi))
                rl |= a; rh |= b
            return rl, rh
        a = self.sem(e[1], lo, hi); b = self.sem(e[2], lo, hi)
        if op == "u": return a[0] | b[0], a[1] | b[1]
        if op == "i": return a[0] & b[0], a[1] & b[1]
        if op == "d": return a[0] - b[1], a[1] - b[0]
        raise ValueError(op)


# =====================================================================================================
# the real side

class _Budget(BaseException):
    pass


class _Timeout(BaseException):
    pass


def _depth():
    f = sys._getframe(); n = 0
    while f is not None:
        n += 1; f = f.f_back
    return n


def _alarm(_sig, _frm):
    raise _Timeout()


def guarded(model, fn, nav_budget, rec_extra=150, wall=30.0):
    """run fn() with: recursion limit = current depth + rec_extra; at most nav_budget calls of
    model.get_associated_assets_by_field_name (counted by a delegating wrapper on the instance); wall alarm.
    Returns (status, value): ok / rec / budget / timeout / mem / exc"""
    cnt = [0]
    orig = None
    if model is not None:
        orig = model.get_associated_assets_by_field_name
        def counting(asset, field_name, _o=orig):
            cnt[0] += 1
            if cnt[0] > nav_budget:
                raise _Budget()
            return _o(asset, field_name)
        model.get_associated_assets_by_field_name = counting
    old_lim = sys.getrecursionlimit()
    old_h = signal.signal(signal.SIGALRM, _alarm)
    signal.setitimer(signal.ITIMER_REAL, wall)
    try:
        sys.setrecursionlimit(_depth() + rec_extra)
        try:
            return "ok", fn()
        except RecursionError:
            return "rec", None
        except _Budget:
            return "budget", None
        except _Timeout:
            return "timeout", None
        except MemoryError:
            return "mem", None
        except Exception as ex:          # noqa: the property allows no exception on well-formed input
            return "exc", ex
    finally:
        signal.setitimer(signal.ITIMER_REAL, 0)
        signal.signal(signal.SIGALRM, old_h)
        sys.setrecursionlimit(old_lim)
        if model is not None:
            model.__dict__.pop("get_associated_assets_by_field_name", None)


_LCF_CACHE = {}


def _class_key(lang):
    """the part of a language the generated asset / association classes depend on"""
    r = lang.rec
    return json.dumps([r["types"], r["assocs"],
                       [[t, n, o.get("ttc")] for (t, n, k, o) in r.get("steps", []) if k == "defense"]])


class Real:
    """real objects built from (language recipe, model recipe).  The LanguageGraph is built afresh for every case;
    the generated classes (LanguageClassesFactory, ~10 ms) are cached per process, keyed by the asset types,
    associations and defenses of the language (they are a function of nothing else)."""

    def __init__(self, lang, mrec, nav_budget=2000, mv=None):
        from maltoolbox.language import LanguageGraph, LanguageClassesFactory
        self.lang = lang
        self.nav_budget = nav_budget
        self.mv = mv            # reference view: only consulted to decide whether a second, larger budget is due
        self.build_error = None
        self.model = None
        self.objs = []
        self._memo = {}
        self._stage = "maltoolbox.language.languagegraph:LanguageGraph.__init__"
        try:                              # a library exception on a well-formed input is a finding, not a harness error
            self.lg = LanguageGraph(lang.spec())
            key = _class_key(lang)
            self.lcf = _LCF_CACHE.get(key)
            if self.lcf is None:
                self._stage = "maltoolbox.language.classes_factory:LanguageClassesFactory.__init__"
                self.lcf = _LCF_CACHE[key] = LanguageClassesFactory(LanguageGraph(lang.spec()))
            self._build(mrec)
        except Exception as ex:
            self.build_error = ex

    def _build(self, mrec):
        m = mini.new_model(self.lcf, "m")
        self.model = m
        for ent in mrec.get("assets", []):
            t, n, i = ent[0], ent[1], ent[2] if len(ent) > 2 else None
            d = ent[3] if len(ent) > 3 and ent[3] else {}
            a = mini.new_asset(self.lcf, t, n, **d)
            self._stage = "maltoolbox.model:Model.add_asset"
            m.add_asset(a, asset_id=i)
            self.objs.append(a)
        for (cls, lf, li, rf, ri) in mrec.get("links", []):
            s = mini.new_assoc(self.lcf, cls, **{lf: [self.objs[k] for k in li], rf: [self.objs[k] for k in ri]})
            self._stage = "maltoolbox.model:Model.add_association"
            m.add_association(s)
        self._ix = {id(a): k for k, a in enumerate(self.objs)}

    def index(self, obj):
        k = self._ix.get(id(obj))
        if k is None:
            for j, a in enumerate(self.objs):
                if a is obj: return j
            for j, a in enumerate(self.objs):
                if int(a.id) == int(obj.id): return j
            raise LookupError("object returned by the library is not an asset of the model")
        return k

    def eval(self, e, X, budget=None):
        """real evaluator on compact expression e from the assets X (a set of indexes -> sorted list, or an explicit
        list, possibly with duplicates).  -> (status, frozenset idx | exception | None, step name,
        length of the returned list, returned list as indexes); memoised per case"""
        from maltoolbox.attackgraph.attackgraph import _process_step_expression
        xs = list(X) if isinstance(X, (list, tuple)) else sorted(X)
        key = (json.dumps(e), tuple(xs), budget)
        if key in self._memo:
            return self._memo[key]
        spec = to_spec(e)
        targets = [self.objs[k] for k in xs]
        run = lambda: _process_step_expression(self.lg, self.model, list(targets), spec)
        allowed = budget or self.budget_for([(e, xs)])
        if allowed is None:
            out = self._memo[key] = ("skip", None, None, 0, ())
            return out
        st, val = guarded(self.model, run, allowed)
        if st != "ok":
            out = (st, val, None, 0, ())
        else:
            res, name = val
            raw = tuple(self.index(o) for o in res)
            out = ("ok", frozenset(raw), name, len(raw), raw)
        self._memo[key] = out
        return out

    def budget_for(self, work):
        """navigation budget for a list of (expression, start list of asset indexes): the base budget, or 4 x the
        reference's bound for a duplicate-keeping evaluator if that is larger; None = too expensive to run (> CAP)"""
        if self.mv is None:
            return self.nav_budget
        need = 4 * sum(self.mv.est(e, len(xs), frozenset(xs))[1] for (e, xs) in work)
        if need > CAP:
            return None
        return max(self.nav_budget, need)

    def generate(self, work=()):
        """AttackGraph(lang, model) under the guard; work = the (expression, [asset]) pairs the generation evaluates"""
        from maltoolbox.attackgraph import AttackGraph
        allowed = self.budget_for(list(work))
        if allowed is None:
            return "skip", None
        return guarded(self.model, lambda: AttackGraph(self.lg, self.model), allowed)


# =====================================================================================================
# localisation of a divergence to one operator (uses direct calls of the real evaluator on reference inputs)

def describe(st, val):
    if st == "exc":
        return "exc:" + type(val).__name__
    return {"rec": "RecursionError", "budget": "navigation-budget-exceeded", "timeout": "wall-timeout",
            "mem": "MemoryError"}.get(st, st)


def trans_fields(L, e, acc=None):
    """fields under a transitive operator in e, variables expanded"""
    acc = set() if acc is None else acc
    if e[0] == "t": acc.add(e[1])
    if e[0] == "v":
        for (U, v), body in L.vars.items():
            if v == e[1]: trans_fields(L, body, acc)
    for x in e[1:]:
        if isinstance(x, list): trans_fields(L, x, acc)
    return acc


def cyclic_trans(mv, e, X):
    """first transitive sub-expression whose reference input set reaches a cycle of its field: (field, input) or None"""
    X = frozenset(X)
    op = e[0]
    if op == "t":
        return (e[1], X) if mv.cyclic_from(e[1], X) else None
    if op in "af": return None
    if op == "s": return cyclic_trans(mv, e[2], X)
    if op == "c":
        return cyclic_trans(mv, e[1], X) or cyclic_trans(mv, e[2], mv.sem(e[1], X)[1])
    if op == "v":
        for x in X:
            body, _U = mv.lang.var(mv.types[x], e[1])
            c = cyclic_trans(mv, body, X)
            if c: return c
        return None
    return cyclic_trans(mv, e[1], X) or cyclic_trans(mv, e[2], X)


def closure_over_cycle_possible(mv, e):
    """some transitive operator of e (variables expanded) works on a field whose links contain a cycle"""
    everything = frozenset(range(mv.n))
    return any(mv.cyclic_from(f, everything) for f in trans_fields(mv.lang, e))


CAP = 200000      # evaluations whose guard would have to allow more navigations than this are not run at all


def nonterm_blame(real, mv, e, X, st, val):
    """attribution of a non-terminating evaluation: a transitive closure over a field whose links contain a cycle
    (reachable from the reference input, or - when an upstream operator handed the closure another input than the
    reference - anywhere in the model); else the generic localisation"""
    how = describe(st, val)
    c = cyclic_trans(mv, e, X)
    if c is not None:
        return dict(op="t", kind="term", sig="transitive:cyclic",
                    msg="%s from assets %s did not terminate within the guard (%s); %s* is applied to %s, from where "
                        "the links of %s contain a cycle" % (show(e), sorted(X), how, c[0], sorted(c[1]), c[0]))
    everything = frozenset(range(mv.n))
    for f in sorted(trans_fields(mv.lang, e)):
        if mv.cyclic_from(f, everything):
            return dict(op="t", kind="term", sig="transitive:cyclic",
                        msg="%s from assets %s did not terminate within the guard (%s); the links of %s contain a "
                            "cycle (not reachable on the reference inputs: an earlier operator diverged)" % (
                                show(e), sorted(X), how, f))
    return blame(real, mv, e, sorted(X))


def blame(real, mv, e, X):
    """innermost sub-expression of e on which the real evaluator, started from (a list representing) the reference
    input set, leaves the reference interval.  X: list of asset indexes (duplicates and order as the real code
    produced them upstream, so that a divergence that only shows on such lists is still attributed to the operator
    that diverges).  -> None or dict(op=, kind= 'term'|'value'|'exc'|'name', sig=, msg=)"""
    op = e[0]
    X = list(X)
    XS = frozenset(X)
    if op in "uid":
        for sub in (e[1], e[2]):
            b = blame(real, mv, sub, X)
            if b: return b
    elif op == "c":
        b = blame(real, mv, e[1], X)
        if b: return b
        st_l = real.eval(e[1], X)
        mid = list(st_l[4]) if st_l[0] == "ok" else sorted(mv.sem(e[1], XS)[0])
        b = blame(real, mv, e[2], mid)
        if b: return b
    elif op == "s":
        b = blame(real, mv, e[2], X)
        if b: return b
    elif op == "v":
        groups = {}
        for x in X:
            body, _U = mv.lang.var(mv.types[x], e[1])
            groups.setdefault(json.dumps(body), [body, []])[1].append(x)
        for (body, g) in groups.values():
            b = blame(real, mv, body, g)
            if b: return b
    elif op == "t":
        for y in sorted(XS | mv.clplus(e[1], XS)):
            b = blame(real, mv, ["f", e[1]], [y])
            if b: return b
    st, got, name, _n, _raw = real.eval(e, X)
    where = "%s from assets %s" % (show(e), X)
    if st == "skip":
        return None
    if st != "ok":
        if st == "exc":
            return dict(op=op, kind="exc", sig="%s:%s" % (OPNAME[op], describe(st, got)),
                        msg="%s raised %r" % (where, got))
        cyc = ""
        if op == "t":
            cyc = ":cyclic" if mv.cyclic_from(e[1], XS) else ":acyclic"
        return dict(op=op, kind="term", sig="%s%s:%s" % (OPNAME[op], cyc, describe(st, got)),
                    msg="%s did not terminate within the guard (%s)" % (where, describe(st, got)))
    lo, hi = mv.sem(e, XS)
    if not (lo <= got <= hi):
        q = ""
        if op == "u":
            l = real.eval(e[1], X)
            q = ":lhs-empty" if l[0] == "ok" and not l[1] else ":lhs-nonempty"
        elif op == "f":
            q = ":self-link" if mv.has_self_link() else ":plain"
        elif op == "t":
            q = ":missing" if not lo <= got else ":extra"
        return dict(op=op, kind="value", sig=OPNAME[op] + q,
                    msg="%s: real %s, reference %s" % (where, sorted(got), sorted(lo) if lo == hi else
                                                       "between %s and %s" % (sorted(lo), sorted(hi))))
    if name != step_name(e):
        return dict(op=op, kind="name", sig="stepname:" + OPNAME[op],
                    msg="%s names step %r, reference %r" % (where, name, step_name(e)))
    return None


# =====================================================================================================
# language structures (no steps): the floors add steps

S1 = {"types": [["A", None], ["B", "A"], ["C", None]],
      "assocs": [["AA", "A", "up", "A", "down"], ["AC", "A", "as", "C", "cs"], ["BC", "B", "bs", "C", "bcs"]],
      "vars": [["A", "v1", ["f", "down"]], ["A", "v2", ["u", ["f", "up"], ["f", "down"]]],
               ["B", "v3", ["c", ["f", "bcs"], ["f", "as"]]], ["C", "w", ["f", "as"]]]}
S2 = {"types": [["A", None], ["B", "A"], ["C", "B"]],
      "assocs": [["AA", "A", "up", "A", "down"], ["AB", "A", "pa", "B", "kb"]],
      "vars": [["A", "v1", ["f", "down"]], ["B", "v2", ["d", ["f", "pa"], ["f", "down"]]],
               ["C", "v3", ["s", "C", ["f", "down"]]]]}
S3 = {"types": [["A", None]],
      "assocs": [["AA", "A", "up", "A", "down"], ["PQ", "A", "p", "A", "q"]],
      "vars": [["A", "v1", ["i", ["f", "down"], ["f", "q"]]], ["A", "v2", ["t", "down"]]]}
# field names re-used by two associations on different types (A.foo : C through Y, C.foo : A through X)
S4 = {"types": [["A", None], ["C", None]],
      "assocs": [["X", "A", "foo", "C", "bar"], ["Y", "A", "baz", "C", "foo"], ["AA", "A", "up", "A", "down"]],
      "vars": [["A", "v1", ["c", ["f", "foo"], ["f", "foo"]]]]}
STRUCTS = {"S1": S1, "S2": S2, "S3": S3, "S4": S4}


def with_steps(struct, steps):
    r = dict(struct)
    r["steps"] = steps
    return r


# =====================================================================================================
# expression enumeration (well-typed by construction)

def atoms(L, T):
    out = []
    fs = L.fields(T)
    for f in sorted(fs):
        out.append((["f", f], fs[f]))
    for v in L.visible_vars(T):
        ty = L.type_of(["v", v], T)
        if ty is not None: out.append((["v", v], ty))
    for f in sorted(fs):
        if L.is_sub(T, fs[f]): out.append((["t", f], fs[f]))
    return out


def enum_exprs(L, T, d, _memo=None):
    """all well-typed set expressions of height <= d from static type T, with their static type"""
    _memo = {} if _memo is None else _memo
    key = (T, d)
    if key in _memo: return _memo[key]
    if d <= 1:
        res = atoms(L, T)
    else:
        prev = enum_exprs(L, T, d - 1, _memo)
        res = list(prev)
        seen = {json.dumps(e) for (e, _t) in prev}
        def add(e, t):
            k = json.dumps(e)
            if k not in seen:
                seen.add(k); res.append((e, t))
        for (e, ty) in prev:
            # sub-type filters: every proper sub-type, and the static type itself when it has sub-types two or more levels
            # below it (a filter that must keep instances of indirect sub-types; `e[T]` with T the type of e is legal MAL)
            deep = any(L.is_sub(V, U_) and V != U_ for U_ in L.subs(ty, strict=True) for V in L.subs(U_, strict=True))
            for U in L.subs(ty, strict=not deep):
                add(["s", U, e], U)
        for (l, tl) in prev:
            for (r, tr) in enum_exprs(L, tl, d - 1, _memo):
                add(["c", l, r], tr)
        for (l, tl) in prev:
            for (r, tr) in prev:
                c = L.lca(tl, tr)
                if c is not None:
                    for op in "uid":
                        add([op, l, r], c)
    _memo[key] = res
    return res


def rand_expr(L, T, d, rnd):
    """random well-typed set expression of height <= d from T -> (e, type)"""
    at = atoms(L, T)
    if d <= 1 or not at or rnd.random() < 0.12:
        return rnd.choice(at) if at else (None, None)
    for _try in range(8):
        op = rnd.choice("ccuuiidds")
        if op == "c":
            l, tl = rand_expr(L, T, d - 1, rnd)
            if l is None: continue
            r, tr = rand_expr(L, tl, d - 1, rnd)
            if r is None: continue
            return ["c", l, r], tr
        if op == "s":
            e, ty = rand_expr(L, T, d - 1, rnd)
            if e is None: continue
            subs = (L.subs(ty, strict=True) + ([ty] if rnd.random() < 0.25 else [])) or [ty]
            U = rnd.choice(subs)
            return ["s", U, e], U
        l, tl = rand_expr(L, T, d - 1, rnd)
        r, tr = rand_expr(L, T, d - 1, rnd)
        if l is None or r is None: continue
        c = L.lca(tl, tr)
        if c is None: continue
        return [op, l, r], c
    return rnd.choice(at)


# =====================================================================================================
# model enumeration

def type_vectors(L, n):
    return [list(c) for c in itertools.combinations_with_replacement(L.order, n)]


def candidate_pairs(L, types):
    """per association the possible (left idx, right idx) pairs"""
    out = []
    for (name, left, lf, right, rf) in L.assocs:
        ps = [(l, r) for l in range(len(types)) if L.is_sub(types[l], left)
              for r in range(len(types)) if L.is_sub(types[r], right)]
        out.append((name, lf, rf, ps))
    return out


def decompose(name, lf, rf, rel, mode):
    """links (bicliques) whose union is the relation rel (set of (l, r)); every pair in exactly one link"""
    rel = sorted(rel)
    if mode == "pairs":
        return [[name, lf, [l], rf, [r]] for (l, r) in rel]
    if mode == "rows":
        ls = sorted({l for (l, _r) in rel})
        return [[name, lf, [l], rf, sorted(r for (l2, r) in rel if l2 == l)] for l in ls]
    if mode == "cols":
        rs = sorted({r for (_l, r) in rel})
        return [[name, lf, sorted(l for (l, r2) in rel if r2 == r), rf, [r]] for r in rs]
    if mode == "max":                       # group left assets with the same right set: many-to-many links
        by = {}
        for l in sorted({l for (l, _r) in rel}):
            by.setdefault(tuple(sorted(r for (l2, r) in rel if l2 == l)), []).append(l)
        return [[name, lf, ls, rf, list(rs)] for rs, ls in sorted(by.items(), key=lambda kv: kv[1])]
    raise ValueError(mode)


MODES = ("pairs", "rows", "cols", "max")


def model_recipe(types, links, names=None):
    names = names or ["%s%d" % (t.lower(), k) for k, t in enumerate(types)]
    return {"assets": [[t, names[k], None] for k, t in enumerate(types)], "links": links}


def all_relations(cands):
    """every choice of a sub-relation per association"""
    per = []
    for (name, lf, rf, ps) in cands:
        per.append([(name, lf, rf, [ps[k] for k in range(len(ps)) if mask >> k & 1]) for mask in range(1 << len(ps))])
    return itertools.product(*per)


def links_of(rels, mode):
    links = []
    for (name, lf, rf, rel) in rels:
        if rel: links.extend(decompose(name, lf, rf, rel, mode))
    return links


def models_exhaustive(L, n, modes=MODES):
    """all models on n assets (every type vector, every relation per association), in the given decompositions;
    yields (types, links, mode); identical link lists are produced once"""
    for types in type_vectors(L, n):
        cands = candidate_pairs(L, types)
        for rels in all_relations(cands):
            seen = set()
            for mode in modes:
                links = links_of(rels, mode)
                k = json.dumps(links)
                if k in seen: continue
                seen.add(k)
                yield types, links, mode


def models_random(L, n, count, rnd, modes=MODES):
    tvs = type_vectors(L, n)
    for _ in range(count):
        types = rnd.choice(tvs)
        cands = candidate_pairs(L, types)
        dens = rnd.choice((0.15, 0.3, 0.5, 0.7))
        rels = [(name, lf, rf, [p for p in ps if rnd.random() < dens]) for (name, lf, rf, ps) in cands]
        yield types, links_of(rels, rnd.choice(modes)), "rnd"
