"""
Bounded stand-in for C07 (saving and loading a model preserves it, JSON and YAML).

Real code under test: Model.save_to_file / Model.load_from_file (-> _to_dict, asset_to_dict, association_to_dict,
attacker_to_dict, _from_dict, file_utils.save_dict_to_file / load_dict_from_*), on real files in a temp dir.

kind "api" : a model is built through the public API from a small history (ids with gaps, explicit / zero / negative
             ids, renamed duplicates, non-default defenses, YAML-significant and unicode names, extras on assets and
             associations, two attackers, duplicate-named association classes), its observable content is read
             (lib_model.full_view), the model is saved, loaded with the same language and read again: the two contents
             must be equal; saving the loaded model must give a file with the same content.
kind "hand": a file is written by the harness (json / yaml modules) from a description: assets listed in any order,
             id 0, type-only shorthand; the loaded model must be the model the description denotes (computed here from
             the description and the language specification, not from the code under test).
"""
from __future__ import annotations
import itertools, json, os, random, shutil, sys, tempfile
sys.path.insert(0, os.path.dirname(os.path.abspath(__file__)))
import common
from common import CaseResult
import lib_model as L

PROPERTY = "C07"
SCOPE = {
    "quick": "api: 2 languages (A,B / inheritance + two association classes named L + one named 'rel') x 14 build histories (auto ids, explicit "
             "ids 5/0/-2, gaps after removals, re-added assets, self-link, two attackers with several entry points, equal "
             "attacker ids) x 9 name sets (plain, duplicates, 'yes' '1' 'a: b', 'null' '~', unicode, quotes, newline, empty) x "
             "4 defense settings x 3 extras settings x {json, yml, yaml}, a seeded half of that product + 600 random "
             "histories; hand: 3 id sets x 6 orders of the asset entries x 4 spellings (full / shorthand / defenses+extras) "
             "x 3 formats",
    "thorough": "the full product, 6000 random histories, hand-written files with 4 id sets",
}
EXHAUSTIVE = {"quick": False, "thorough": False}
RULE = ("api case = (language, history, names, defenses, extras, format); the history is run leaving out calls the "
        "properties do not fix (asset not in the model, object already in the model) and ignoring calls that raise; "
        "non-trivial = the model has at least one asset; distinct = distinct content of the built model x format. "
        "hand case = (description, order of the asset entries, format); distinct = distinct file content")
ASSUMPTIONS = [
    "contents are read from live objects by lib_model.full_view: int(id), str(name), str(type), float(defense) for the "
    "defenses the language specification gives the type, the plain value of extras",
    "hand-written files are produced with json.dump / yaml.safe_dump(sort_keys=False) and re-save comparison parses files "
    "with json.load / yaml.safe_load (JSON/YAML libraries trusted)",
    "asset names chosen for type-only shorthand entries are not fixed by the statement: only checked to be non-empty and unique",
]
BUDGET_S = {"quick": 100, "thorough": 1500}
CHUNK = 100
FN_SAVE = "maltoolbox.model:Model.save_to_file"
FN_LOAD = "maltoolbox.model:Model._from_dict"

LANG_U = {
    "L0": {"lang": "L0", "fields": {"AB": ("as", "bs"), "AA": ("up", "down")}, "types": ["A", "A", "B"], "defense": "d",
           "links": [("AB", "as", [0], "bs", [2]), ("AB", "as", [0, 1], "bs", [2]), ("AA", "up", [0], "down", [1]),
                     ("AA", "up", [1], "down", [1]), ("AA", "up", [0, 1], "down", [0])],
           "steps": {0: ["s", "u"], 1: ["s"], 2: ["t", "ne"]}},
    "L1": {"lang": "L1", "fields": {"L_A_C": ("la", "lc"), "L_B_C": ("lb", "lcb"), "rel": ("up", "down")},
           "types": ["A", "B", "C"], "defense": "dE",
           "links": [("L_A_C", "la", [0], "lc", [2]), ("L_B_C", "lb", [1], "lcb", [2]), ("rel", "up", [0], "down", [1]),
                     ("rel", "up", [1], "down", [1]), ("L_A_C", "la", [0, 1], "lc", [2])],
           "steps": {0: ["s"], 1: ["s", "sb"], 2: ["t"]}},
}
A3 = [["add_asset", 0, None, True], ["add_asset", 1, None, True], ["add_asset", 2, None, True]]
ATT = [["add_ep", 0, 0, 0], ["add_ep", 0, 2, 0], ["add_ep", 0, 2, 1], ["add_attacker", 0, None]]     # step given by index
HISTORIES = [
    A3,
    A3 + [["add_assoc", 0], ["add_assoc", 2]] + ATT,
    [["add_asset", 0, 5, True], ["add_asset", 1, 0, True], ["add_asset", 2, -2, True], ["add_assoc", 1], ["add_assoc", 2]] + ATT,
    A3 + [["add_assoc", 1], ["add_assoc", 2], ["remove_asset", 0]] + [["add_ep", 1, 1, 0], ["add_attacker", 1, None]],
    A3 + [["add_assoc", 0], ["remove_asset", 1], ["add_asset", 1, None, True], ["add_assoc", 2]],
    A3 + [["add_assoc", 3], ["add_assoc", 0]],
    A3 + [["add_assoc", 4], ["add_assoc", 0], ["remove_from_assoc", 0, 4]],
    A3 + [["add_ep", 0, 0, 0], ["add_attacker", 0, 0], ["add_ep", 1, 2, 0], ["add_ep", 1, 1, 0], ["add_attacker", 1, 7]],
    A3 + [["add_ep", 0, 0, 0], ["add_attacker", 0, 3], ["add_ep", 1, 2, 0], ["add_attacker", 1, 3]],
    [["add_asset", 2, -1, True], ["add_asset", 0, 0, True], ["add_assoc", 0], ["add_attacker", 0, -4]],
    [["add_asset", 0, None, True], ["remove_asset", 0], ["add_asset", 1, None, True], ["add_asset", 0, 0, True], ["add_assoc", 2]],
    A3 + [["add_assoc", 0], ["add_assoc", 2], ["remove_assoc", 0], ["add_assoc", 1]] + ATT + [["remove_ep", 0, 2, 0]],
    [["add_asset", 1, 2, True], ["add_asset", 0, 1, True], ["add_asset", 2, 0, True], ["add_assoc", 1], ["add_assoc", 3]] + ATT,
    [["add_attacker", 0, None], ["add_asset", 0, None, True], ["add_attacker", 1, None], ["add_asset", 2, None, True], ["add_assoc", 0]],
]
NAMES = [("a", "b", "c"), ("a", "a", "a:1"), ("yes", "1", "a: b"), ("null", "~", "no"), ("ö✓", "日本", "\U0001F600"),
         ("'q'", '"dq"', "back\\slash"), ("x\ny", "  lead", "#c"), ("", "-", "{a: 1}"), ("1e3", "0x1F", "1.5")]
DEFS = [{}, {0: 0.5}, {0: 1.0, 1: 0.0, 2: 1}, {0: 1e-07, 1: 0.1}]
EXTRAS = [({}, {}), ({0: {"k": "v", "n": 1, "nested": {"x": [1, 2]}}, 2: {"pos": {"x": 1.5, "y": -2}}}, {}),
          ({1: {"yes": "no"}}, {0: {"color": "red"}, 2: {"w": 3}, 3: {"note": "self"}})]
FMTS = ("json", "yml", "yaml")


def cases(tier, seed):
    rnd = random.Random(seed)
    p = 0.5 if tier == "quick" else 1.0
    for lang in ("L0", "L1"):
        for hi, ni, di, ei, fmt in itertools.product(range(len(HISTORIES)), range(len(NAMES)), range(len(DEFS)),
                                                     range(len(EXTRAS)), FMTS):
            if rnd.random() < p:
                yield {"kind": "api", "lang": lang, "ops": HISTORIES[hi], "names": list(NAMES[ni]),
                       "defs": {str(k): v for k, v in DEFS[di].items()},
                       "aextras": {str(k): v for k, v in EXTRAS[ei][0].items()},
                       "lextras": {str(k): v for k, v in EXTRAS[ei][1].items()}, "fmt": fmt}
    n = 600 if tier == "quick" else 6000
    for i in range(n):
        lang = ("L0", "L1")[i % 2]
        U = LANG_U[lang]
        ops = []
        for _ in range(rnd.randint(4, 12)):
            k = rnd.random()
            if k < 0.3: ops.append(["add_asset", rnd.randrange(3), rnd.choice((None, None, 0, -1, 4)), True])
            elif k < 0.5: ops.append(["add_assoc", rnd.randrange(len(U["links"]))])
            elif k < 0.6: ops.append(["remove_asset", rnd.randrange(3)])
            elif k < 0.65: ops.append(["remove_from_assoc", rnd.randrange(3), rnd.randrange(len(U["links"]))])
            elif k < 0.7: ops.append(["remove_assoc", rnd.randrange(len(U["links"]))])
            elif k < 0.85: ops.append(["add_ep", rnd.randrange(2), rnd.randrange(3), rnd.randrange(2)])
            elif k < 0.95: ops.append(["add_attacker", rnd.randrange(2), rnd.choice((None, None, 0, 2))])
            else: ops.append(["remove_attacker", rnd.randrange(2)])
        di, ei = rnd.randrange(len(DEFS)), rnd.randrange(len(EXTRAS))
        yield {"kind": "api", "lang": lang, "ops": ops, "names": list(rnd.choice(NAMES)),
               "defs": {str(k): v for k, v in DEFS[di].items()},
               "aextras": {str(k): v for k, v in EXTRAS[ei][0].items()},
               "lextras": {str(k): v for k, v in EXTRAS[ei][1].items()}, "fmt": rnd.choice(FMTS)}
    # hand-written files
    idsets = [(0, 1, 2), (0, 3, 7), (-1, 0, 5)] + ([(2, 0, 1)] if tier == "thorough" else [])
    for lang in ("L0", "L1"):
        U = LANG_U[lang]
        for ids in idsets:
            for order in itertools.permutations(range(3)):
                for spelling in ("full", "shorthand", "mixed", "rich"):
                    for fmt in FMTS:
                        ents = []
                        for k in order:
                            t = U["types"][k]
                            if spelling == "shorthand" or (spelling == "mixed" and k == 1):
                                ents.append([ids[k], t])
                            else:
                                e = {"name": "n%d" % k, "type": t}
                                if spelling == "rich" and k == 0:
                                    e["defenses"] = {U["defense"]: 0.25}; e["extras"] = {"k": "v"}
                                ents.append([ids[k], e])
                        cls, f1, m1, f2, m2 = U["links"][0]
                        cls2, g1, n1, g2, n2 = U["links"][2]
                        yield {"kind": "hand", "lang": lang, "fmt": fmt, "name": "hand", "assets": ents,
                               "associations": [[cls, {f1: [ids[i] for i in m1], f2: [ids[i] for i in m2]}],
                                                [cls2, {g1: [ids[i] for i in n1], g2: [ids[i] for i in n2]}]],
                               "attackers": [[3 if 3 not in ids else 11, "att", [[ids[0], [U["steps"][0][0]]], [ids[2], [U["steps"][2][0]]]]]]}


# -----------------------------------------------------------------------------------------------------------------

def first_diff(a, b, path=""):
    """short description of where two plain values differ"""
    if type(a) != type(b) and not (isinstance(a, (int, float)) and isinstance(b, (int, float))):
        return "%s: %r vs %r" % (path, a, b)
    if isinstance(a, dict):
        for k in sorted(set(a) | set(b), key=str):
            if k not in a: return "%s.%s: missing vs %r" % (path, k, b[k])
            if k not in b: return "%s.%s: %r vs missing" % (path, k, a[k])
            d = first_diff(a[k], b[k], "%s.%s" % (path, k))
            if d: return d
        return None
    if isinstance(a, list):
        if len(a) != len(b): return "%s: %d entries vs %d (%r vs %r)" % (path, len(a), len(b), a, b)
        for i, (x, y) in enumerate(zip(a, b)):
            d = first_diff(x, y, "%s[%d]" % (path, i))
            if d: return d
        return None
    return None if a == b else "%s: %r vs %r" % (path, a, b)


def parse_file(path):
    import yaml
    with open(path, encoding="utf-8") as f:
        d = json.load(f) if path.endswith(".json") else yaml.safe_load(f)
    def norm(x):
        if isinstance(x, dict): return {str(k): norm(v) for k, v in x.items()}
        if isinstance(x, list): return [norm(v) for v in x]
        return x
    return norm(d)


def compare_views(r, v0, v1, ctx):
    """clauses name / assets / associations / attackers: v1 (loaded) against v0 (before saving / described)"""
    ok = True
    r.check("C07.name", v0["name"] == v1["name"], FN_LOAD, "model name %r became %r" % (v0["name"], v1["name"]), "name")
    a0, a1 = v0["assets"], v1["assets"]
    if set(a0) != set(a1) or v0["n_assets"] != v1["n_assets"]:
        ok = False
        lost0 = 0 in a0 and 0 not in a1
        r.check("C07.assets", False, FN_LOAD, "asset ids %s became %s (%s)" % (sorted(a0), sorted(a1), ctx),
                "ids:" + ("id-0-lost" if lost0 else "differ"))
    else:
        for i in sorted(a0):
            for part in ("name", "type", "class", "defenses", "extras"):
                if a0[i][part] is None and part == "name": continue
                if a0[i][part] != a1[i][part]:
                    ok = False
                    r.check("C07.assets", False, FN_LOAD, "asset %d %s: %r became %r (%s)" % (i, part, a0[i][part], a1[i][part], ctx),
                            part)
    r.clauses.setdefault("C07.assets", True)
    l0, l1 = v0["links"], v1["links"]
    if [x[:2] for x in l0] != [x[:2] for x in l1]:
        ok = False
        none = any(m is None for x in l1 for (_, ms) in x[1] for m in ms)
        r.check("C07.associations", False, FN_LOAD, "associations %s became %s (%s)" % ([x[:2] for x in l0], [x[:2] for x in l1], ctx),
                "members:" + ("None-member" if none else "differ"))
    elif [x[2] for x in l0] != [x[2] for x in l1]:
        ok = False
        dropped = all(not x[2] for x in l1)
        r.check("C07.associations", False, FN_LOAD, "association extras %s became %s (%s)" % ([x[2] for x in l0], [x[2] for x in l1], ctx),
                "extras:" + ("dropped" if dropped else "differ"))
    r.clauses.setdefault("C07.associations", True)
    if v0["attackers"] != v1["attackers"]:
        ok = False
        ids0 = [t[0] for t in v0["attackers"]]
        r.check("C07.attackers", False, FN_LOAD, "attackers %s became %s (%s)" % (v0["attackers"], v1["attackers"], ctx),
                "two-attackers-one-id" if len(set(ids0)) < len(ids0) else "differ")
    r.clauses.setdefault("C07.attackers", True)
    return ok


def run_api(recipe, r, tmp):
    from maltoolbox.model import Model
    base = LANG_U[recipe["lang"]]
    U = dict(base)
    U["cands"] = [(base["types"][c], recipe["names"][c], {}) for c in range(3)]
    U["attackers"] = [None, "att"]
    S = L.Session(U, model_name=recipe["names"][2] or "m")
    spec = L.lang_spec(base["lang"])
    for c, v in recipe["defs"].items():
        ds = sorted(L.spec_defenses(spec, base["types"][int(c)]))
        if ds: setattr(S.cands[int(c)], ds[-1], v)          # the last defense the type has (inherited ones included)
    for c, ex in recipe["aextras"].items(): S.cands[int(c)].extras = ex
    ops = [([o[0], o[1], o[2], base["steps"][o[2]][o[3] % len(base["steps"][o[2]])]] if o[0] in ("add_ep", "remove_ep") else o)
           for o in recipe["ops"]]
    S.build(ops)
    m = S.model
    for k, ex in recipe["lextras"].items():
        inmodel = [h for h in S.by_shape.get(int(k), []) if any(x is S.links[h] for x in m.associations)]
        if inmodel: S.links[inmodel[-1]].extras = ex
    v0 = L.full_view(m, base["lang"])
    feats = []
    if any(x[2] for x in v0["links"]): feats.append("assoc-extras")
    if any(a["extras"] for a in v0["assets"].values()): feats.append("asset-extras")
    fmt = recipe["fmt"]
    kind = "json" if fmt == "json" else "yaml"
    f1 = os.path.join(tmp, "m1." + fmt)
    try:
        m.save_to_file(f1)
    except Exception as e:
        r.check("C07.save-load", False, "maltoolbox.model:Model.association_to_dict" if "assoc-extras" in feats else FN_SAVE,
                "save_to_file(.%s) raised %s: %s" % (fmt, L.exc_name(e), str(e)[:120]),
                "save:%s:%s:%s" % (kind, L.exc_name(e), "assoc-extras" if "assoc-extras" in feats else ("+".join(feats) or "plain")))
        return v0
    try:
        m1 = Model.load_from_file(f1, S.lcf)
    except Exception as e:
        r.check("C07.save-load", False, FN_LOAD, "load_from_file(.%s) raised %s: %s" % (fmt, L.exc_name(e), str(e)[:120]),
                "load:%s:%s:%s" % (kind, L.exc_name(e), "assoc-extras" if "assoc-extras" in feats else ("+".join(feats) or "plain")))
        return v0
    r.check("C07.save-load", True, FN_SAVE)
    try:
        v1 = L.full_view(m1, base["lang"])
    except Exception as e:
        r.check("C07.associations", False, FN_LOAD, "loaded model cannot be read: %s %s" % (L.exc_name(e), str(e)[:100]),
                "loaded-unreadable:" + L.exc_name(e))
        return v0
    compare_views(r, v0, v1, "." + fmt)
    f2 = os.path.join(tmp, "m2." + fmt)
    try:
        m1.save_to_file(f2)
        d1, d2 = parse_file(f1), parse_file(f2)
        df = first_diff(d1, d2) or ""
        what = "association-extras" if (".associations" in df and "extras" in df) else (df.split(".")[1].split("[")[0] if "." in df else "other")
        r.check("C07.resave", d1 == d2, FN_SAVE, "saving the loaded model gives a different file: %s" % df, "resave:%s:%s" % (kind, what))
    except Exception as e:
        r.check("C07.resave", False, FN_SAVE, "saving the loaded model raised %s" % L.exc_name(e), "resave:%s:%s" % (kind, L.exc_name(e)))
    return v0


def run_hand(recipe, r, tmp):
    import yaml
    from maltoolbox.model import Model
    base = LANG_U[recipe["lang"]]
    lg, lcf = L.get_lang(base["lang"])
    spec = L.lang_spec(base["lang"])
    fmt = recipe["fmt"]
    js = fmt == "json"
    key = (lambda i: str(i)) if js else (lambda i: i)
    doc = {"metadata": {"name": recipe["name"], "langVersion": spec["defines"]["version"], "langID": spec["defines"]["id"]},
           "assets": {key(i): e for (i, e) in recipe["assets"]},
           "associations": [{cls: fs} for (cls, fs) in recipe["associations"]],
           "attackers": {key(i): {"name": n, "entry_points": {key(a): {"attack_steps": st} for (a, st) in eps}}
                         for (i, n, eps) in recipe["attackers"]}}
    path = os.path.join(tmp, "h." + fmt)
    with open(path, "w", encoding="utf-8") as f:
        if js: json.dump(doc, f)
        else: yaml.safe_dump(doc, f, sort_keys=False)
    # the model the description denotes
    want_assets = {}
    for (i, e) in recipe["assets"]:
        t = e if isinstance(e, str) else e["type"]
        d = L.spec_defenses(spec, t)
        if not isinstance(e, str): d.update({k: float(v) for k, v in e.get("defenses", {}).items()})
        want_assets[i] = {"name": None if isinstance(e, str) else e["name"], "type": t, "class": t, "defenses": d,
                          "extras": {} if isinstance(e, str) else e.get("extras", {})}
    links = [[cls, sorted([f, list(ms)] for f, ms in fs.items()), {}] for (cls, fs) in recipe["associations"]]
    want = {"name": recipe["name"], "assets": want_assets, "n_assets": len(want_assets),
            "links": sorted(links, key=lambda x: json.dumps(x, sort_keys=True)),
            "attackers": sorted([i, n, sorted([a, list(st)] for (a, st) in eps)] for (i, n, eps) in recipe["attackers"])}
    order = [i for (i, _) in recipe["assets"]]
    shape0 = "id-0-not-first" if 0 in order and order[0] != 0 else "id-0-first"
    shape = shape0 + (":shorthand" if any(isinstance(e, str) for (_, e) in recipe["assets"]) else "")
    try:
        m1 = Model.load_from_file(path, lcf)
        v1 = L.full_view(m1, base["lang"])
    except Exception as e:
        r.check("C07.handwritten", False, FN_LOAD, "assets listed as %s (.%s): loading raised %s: %s" % (order, fmt, L.exc_name(e), str(e)[:100]),
                "%s:raised" % shape0)
        return want
    sub = CaseResult()
    ok = compare_views(sub, want, v1, "assets listed as %s, .%s" % (order, fmt))
    names = [a["name"] for a in v1["assets"].values()]
    if ok and (len(set(names)) < len(names) or any(not n for n in names)):
        ok = False; sub.failures.append(("C07.assets", FN_LOAD, "shorthand assets got names %s" % names, "shorthand-names"))
    for (cl, fn, msg, sig) in sub.failures:
        r.check("C07.handwritten", False, fn, msg, "%s:%s:%s" % (shape, cl.split(".")[1], sig))
    r.clauses.setdefault("C07.handwritten", True)
    return want


def run_case(recipe):
    r = CaseResult()
    tmp = tempfile.mkdtemp(prefix="c07_")
    try:
        v = run_api(recipe, r, tmp) if recipe["kind"] == "api" else run_hand(recipe, r, tmp)
    finally:
        shutil.rmtree(tmp, ignore_errors=True)
    for cl in ("save-load", "name", "assets", "associations", "attackers", "resave", "handwritten"):
        r.clauses.setdefault("C07." + cl, True)
    if v["assets"]:
        r.nontrivial_key = recipe["kind"] + ":" + recipe["fmt"] + ":" + common.recipe_hash([v, recipe.get("assets")])
    return r


if __name__ == "__main__":
    common.main(globals())
