"""
Bounded stand-in for C07 (saving and loading a model preserves it, JSON and YAML).

Real code under test: Model.save_to_file / Model.load_from_file (-> _to_dict, asset_to_dict, association_to_dict,
attacker_to_dict, _from_dict, file_utils.save_dict_to_file / load_dict_from_*), on real files in a temp dir.

kind "api" : a model is built through the public API from a small history (ids with gaps, explicit / zero / negative
             ids, renamed duplicates, non-default defenses, YAML-significant and unicode names, extras on assets and
             associations, two attackers, duplicate-named association classes), its observable content is read
             (lib_model.full_view), the model is saved, loaded with the same language and read again: the two contents
             must be equal; saving the loaded model must give a file with the same content.
kind "hand": a file is written by the harness (json / yaml modules) from a description: assets listed in any order,
             id 0, type-only shorthand; the loaded model must be the model the description denotes (computed here from
             the description and the language specification, not from the code under test).
             Defense entries of the file: every defense the type defines or inherits (Disabled and Enabled by default)
             x the values 0 / 0.0 / 1 / 1.0 / fractions, written as int or float.
             With "then": the file is rewritten (by the harness) at the same path with a second description and loaded
             again in the same process: the second load must give the second description.
kind "seq" : ONE process, ONE file, several saves and loads: the model is built, saved, loaded, CHANGED (assets added /
             removed, defense values, extras, associations, attackers), saved to the same file and loaded again, ...; each
             load must give the content the model had at the save just before it (not the content of an earlier save).
             The file is named by the caller in any of the spellings of PATH_FORMS (absolute canonical, bare name,
             './name', relative with a directory, with '..', with '/./', with '//', through a symlinked directory,
             relative to a different working directory); the spelling used for saving and the one used for loading are
             chosen independently.
"""
from __future__ import annotations
import itertools, json, os, random, shutil, sys, tempfile
sys.path.insert(0, os.path.dirname(os.path.abspath(__file__)))
import common
from common import CaseResult
import lib_model as L

PROPERTY = "C07"
SCOPE = {
    "quick": "api: 2 languages (A,B / inheritance + two association classes named L + one named 'rel') x 14 build histories (auto ids, explicit "
             "ids 5/0/-2, gaps after removals, re-added assets, self-link, two attackers with several entry points, equal "
             "attacker ids) x 9 name sets (plain, duplicates, 'yes' '1' 'a: b', 'null' '~', unicode, quotes, newline, empty) x "
             "4 defense settings x 3 extras settings x {json, yml, yaml}, a seeded half of that product + 600 random "
             "histories; hand: 3 id sets x 6 orders of the asset entries x 4 spellings (full / shorthand / defenses+extras) "
             "x 3 formats; "
             "named defenses (api): per asset every assignment of {unset, 0.0, 0, 1.0, 0.5} to EVERY defense its type "
             "defines or inherits (Disabled-by-default d / e, Enabled-by-default dE / dc) + every defense of every asset "
             "set to one value, x 2 histories x 3 formats, + 300 random histories with random named defenses; "
             "hand: each defense of each type (and all at once) x values {0, 0.0, 1, 1.0, 0.75, 1e-07} (int and float "
             "spellings) x 2 orders x 3 formats; hand, rewritten file: 8 pairs of descriptions written one after the "
             "other to the same path x 2 languages x 3 formats; "
             "seq (save -> load -> change -> save -> load ... on one file in one process): 7 change scenarios of 3-4 "
             "stages (grow / shrink, defenses only incl. 0.0 on Enabled-by-default, extras only, associations and "
             "attackers only, same ids with other assets, unchanged re-save) x 10 spellings of the path for saving x 10 "
             "for loading (absolute canonical, bare name, './', relative with directory, '..' relative and absolute, "
             "'/./', '//', via symlinked directory, relative to the parent) x {json, yml, yaml}, a seeded half of the "
             "mixed-spelling pairs, + 300 random sequences",
    "thorough": "the full product, 6000 random histories, hand-written files with 4 id sets; named defenses with 3000 random "
                "histories and every order of the hand-written entries; every save/load spelling pair, 3000 random sequences",
}
EXHAUSTIVE = {"quick": False, "thorough": False}
RULE = ("api case = (language, history, names, defenses, extras, format); the history is run leaving out calls the "
        "properties do not fix (asset not in the model, object already in the model) and ignoring calls that raise; "
        "non-trivial = the model has at least one asset; distinct = distinct content of the built model x format. "
        "hand case = (description, order of the asset entries, format); distinct = distinct file content; a defense "
        "entry of a description is (defense the type has, value in {0, 0.0, 1, 1.0, fraction}); a rewritten-file case = "
        "(description 1, description 2) at one path, both loaded in one process. "
        "seq case = (language, names, format, spelling of the path for save, spelling for load, stages); a stage = "
        "(history operations, named defense values, extras) applied to the live model, followed by save + load of the "
        "same file; every load is compared with the content of the live model at the preceding save; non-trivial = some "
        "stage changes the content; distinct = distinct sequence of contents x format x spellings")
ASSUMPTIONS = [
    "contents are read from live objects by lib_model.full_view: int(id), str(name), str(type), float(defense) for the "
    "defenses the language specification gives the type, the plain value of extras",
    "hand-written files are produced with json.dump / yaml.safe_dump(sort_keys=False) and re-save comparison parses files "
    "with json.load / yaml.safe_load (JSON/YAML libraries trusted)",
    "asset names chosen for type-only shorthand entries are not fixed by the statement: only checked to be non-empty and unique",
    "seq cases: every case works in its own fresh directory (os.path.realpath of a mkdtemp), changes the working directory "
    "of the worker process to it (or its sub-directory) for the duration of the call and restores it; all spellings of "
    "PATH_FORMS denote the same file <dir>/sub/m.<fmt> (os / filesystem trusted); worker processes run many cases one "
    "after the other, so process-wide state kept by the library is exercised across cases too (paths never repeat)",
    "a failing load in a seq / rewritten-file case is classified 'stale-load' when a byte copy of the file (shutil.copyfile) at a "
    "path never used before loads to a different content than the original path did; otherwise it keeps the signature of a "
    "single save + load",
]
BUDGET_S = {"quick": 100, "thorough": 1500}
CHUNK = 100
FN_SAVE = "maltoolbox.model:Model.save_to_file"
FN_LOAD = "maltoolbox.model:Model._from_dict"

LANG_U = {
    "L0": {"lang": "L0", "fields": {"AB": ("as", "bs"), "AA": ("up", "down")}, "types": ["A", "A", "B"], "defense": "d",
           "links": [("AB", "as", [0], "bs", [2]), ("AB", "as", [0, 1], "bs", [2]), ("AA", "up", [0], "down", [1]),
                     ("AA", "up", [1], "down", [1]), ("AA", "up", [0, 1], "down", [0])],
           "steps": {0: ["s", "u"], 1: ["s"], 2: ["t", "ne"]}},
    "L1": {"lang": "L1", "fields": {"L_A_C": ("la", "lc"), "L_B_C": ("lb", "lcb"), "rel": ("up", "down")},
           "types": ["A", "B", "C"], "defense": "dE",
           "links": [("L_A_C", "la", [0], "lc", [2]), ("L_B_C", "lb", [1], "lcb", [2]), ("rel", "up", [0], "down", [1]),
                     ("rel", "up", [1], "down", [1]), ("L_A_C", "la", [0, 1], "lc", [2])],
           "steps": {0: ["s"], 1: ["s", "sb"], 2: ["t"]}},
}
A3 = [["add_asset", 0, None, True], ["add_asset", 1, None, True], ["add_asset", 2, None, True]]
ATT = [["add_ep", 0, 0, 0], ["add_ep", 0, 2, 0], ["add_ep", 0, 2, 1], ["add_attacker", 0, None]]     # step given by index
HISTORIES = [
    A3,
    A3 + [["add_assoc", 0], ["add_assoc", 2]] + ATT,
    [["add_asset", 0, 5, True], ["add_asset", 1, 0, True], ["add_asset", 2, -2, True], ["add_assoc", 1], ["add_assoc", 2]] + ATT,
    A3 + [["add_assoc", 1], ["add_assoc", 2], ["remove_asset", 0]] + [["add_ep", 1, 1, 0], ["add_attacker", 1, None]],
    A3 + [["add_assoc", 0], ["remove_asset", 1], ["add_asset", 1, None, True], ["add_assoc", 2]],
    A3 + [["add_assoc", 3], ["add_assoc", 0]],
    A3 + [["add_assoc", 4], ["add_assoc", 0], ["remove_from_assoc", 0, 4]],
    A3 + [["add_ep", 0, 0, 0], ["add_attacker", 0, 0], ["add_ep", 1, 2, 0], ["add_ep", 1, 1, 0], ["add_attacker", 1, 7]],
    A3 + [["add_ep", 0, 0, 0], ["add_attacker", 0, 3], ["add_ep", 1, 2, 0], ["add_attacker", 1, 3]],
    [["add_asset", 2, -1, True], ["add_asset", 0, 0, True], ["add_assoc", 0], ["add_attacker", 0, -4]],
    [["add_asset", 0, None, True], ["remove_asset", 0], ["add_asset", 1, None, True], ["add_asset", 0, 0, True], ["add_assoc", 2]],
    A3 + [["add_assoc", 0], ["add_assoc", 2], ["remove_assoc", 0], ["add_assoc", 1]] + ATT + [["remove_ep", 0, 2, 0]],
    [["add_asset", 1, 2, True], ["add_asset", 0, 1, True], ["add_asset", 2, 0, True], ["add_assoc", 1], ["add_assoc", 3]] + ATT,
    [["add_attacker", 0, None], ["add_asset", 0, None, True], ["add_attacker", 1, None], ["add_asset", 2, None, True], ["add_assoc", 0]],
    # an explicit attacker id at / above the id counter, then an automatically numbered attacker: the two must get different ids
    A3 + [["add_ep", 0, 0, 0], ["add_attacker", 0, 3], ["add_ep", 1, 2, 0], ["add_attacker", 1, None]],
    A3 + [["add_ep", 0, 0, 0], ["add_attacker", 0, 9], ["add_ep", 1, 1, 0], ["add_attacker", 1, None], ["add_asset", 1, None, True]][:-1],
]
NAMES = [("a", "b", "c"), ("a", "a", "a:1"), ("yes", "1", "a: b"), ("null", "~", "no"), ("ö✓", "日本", "\U0001F600"),
         ("'q'", '"dq"', "back\\slash"), ("x\ny", "  lead", "#c"), ("", "-", "{a: 1}"), ("1e3", "0x1F", "1.5")]
DEFS = [{}, {0: 0.5}, {0: 1.0, 1: 0.0, 2: 1}, {0: 1e-07, 1: 0.1}]
EXTRAS = [({}, {}), ({0: {"k": "v", "n": 1, "nested": {"x": [1, 2]}}, 2: {"pos": {"x": 1.5, "y": -2}}}, {}),
          ({1: {"yes": "no"}}, {0: {"color": "red"}, 2: {"w": 3}, 3: {"note": "self"}})]
FMTS = ("json", "yml", "yaml")


# values a defense is given by name: 0.0 / 0 are the ones that differ from the default of an Enabled defense only
DEF_VALUES = [0.0, 0, 1.0, 0.5]
HAND_DEF_VALUES = [0, 0.0, 1, 1.0, 0.75, 1e-07]
# spellings of ONE file, <T>/sub/m.<fmt>: name -> (working directory relative to T, path; {T} = the absolute directory)
PATH_FORMS = {
    "abs": (".", "{T}/sub/m"), "bare": ("sub", "m"), "dot-bare": ("sub", "./m"), "rel": (".", "sub/m"),
    "rel-dotdot": (".", "sub/../sub/m"), "abs-dotdot": (".", "{T}/sub/../sub/m"), "abs-dot": (".", "{T}/./sub/m"),
    "abs-dslash": (".", "{T}/sub//m"), "via-symlink": (".", "link/m"), "rel-parent": ("sub", "../sub/m"),
}
# change scenarios: each stage = {"ops": history operations, "defs_named": {cand: {defense|"*": value}}, "aextras": {cand: extras}}
# ("*" = every defense the type of the candidate has)
SEQ_SCENARIOS = [
    # grows, then shrinks
    [{"ops": [["add_asset", 0, None, True], ["add_asset", 1, None, True]]},
     {"ops": [["add_asset", 2, None, True], ["add_assoc", 0], ["add_assoc", 2]] + ATT, "defs_named": {"1": {"*": 1.0}}},
     {"ops": [["remove_asset", 0]]}],
    # only defense values change (0.0 / 0 on every defense, Enabled-by-default ones included; back to 1.0)
    [{"ops": A3 + [["add_assoc", 0]]},
     {"defs_named": {"0": {"*": 0.0}, "1": {"*": 0}, "2": {"*": 0.0}}},
     {"defs_named": {"0": {"*": 1.0}, "1": {"*": 0.5}, "2": {"*": 1}}},
     {"defs_named": {"0": {"*": 0.0}}}],
    # only extras change
    [{"ops": A3, "aextras": {"0": {"k": "v"}}},
     {"aextras": {"0": {"k": "w", "n": 1}, "2": {"pos": {"x": 1.5}}}},
     {"aextras": {"0": {}}}],
    # only associations / attackers change
    [{"ops": A3 + [["add_assoc", 0]] + ATT},
     {"ops": [["remove_assoc", 0], ["add_assoc", 1], ["add_assoc", 2], ["remove_ep", 0, 2, 0]]},
     {"ops": [["remove_attacker", 0], ["add_ep", 1, 1, 0], ["add_attacker", 1, None]]}],
    # same ids, other assets behind them
    [{"ops": [["add_asset", 0, 0, True], ["add_asset", 2, 3, True]]},
     {"ops": [["remove_asset", 0], ["add_asset", 1, 0, True]]},
     {"ops": [["remove_asset", 2], ["remove_asset", 1], ["add_asset", 2, 0, True], ["add_asset", 0, 3, True]]}],
    # saved again unchanged, then emptied
    [{"ops": A3 + [["add_assoc", 1]]}, {}, {"ops": [["remove_asset", 0], ["remove_asset", 1], ["remove_asset", 2]]}],
    # starts empty
    [{}, {"ops": A3 + [["add_assoc", 0], ["add_assoc", 2]] + ATT, "defs_named": {"0": {"*": 0.0}, "2": {"*": 0.0}}},
     {"ops": [["remove_asset", 2]], "defs_named": {"0": {"*": 0.25}}}],
]


def rand_ops(rnd, U, n):
    ops = []
    for _ in range(n):
        k = rnd.random()
        if k < 0.3: ops.append(["add_asset", rnd.randrange(3), rnd.choice((None, None, 0, -1, 4)), True])
        elif k < 0.5: ops.append(["add_assoc", rnd.randrange(len(U["links"]))])
        elif k < 0.6: ops.append(["remove_asset", rnd.randrange(3)])
        elif k < 0.65: ops.append(["remove_from_assoc", rnd.randrange(3), rnd.randrange(len(U["links"]))])
        elif k < 0.7: ops.append(["remove_assoc", rnd.randrange(len(U["links"]))])
        elif k < 0.85: ops.append(["add_ep", rnd.randrange(2), rnd.randrange(3), rnd.randrange(2)])
        elif k < 0.95: ops.append(["add_attacker", rnd.randrange(2), rnd.choice((None, None, 0, 2))])
        else: ops.append(["remove_attacker", rnd.randrange(2)])
    return ops


def type_defenses(lang, c):
    """names of the defenses candidate c's type defines or inherits (from the language specification)"""
    return sorted(L.spec_defenses(L.lang_spec(lang), LANG_U[lang]["types"][c]))


def rand_defs_named(rnd, lang, p=0.5):
    out = {}
    for c in range(3):
        d = {n: rnd.choice(DEF_VALUES + [0.0, 0]) for n in type_defenses(lang, c) if rnd.random() < p}
        if d: out[str(c)] = d
    return out


def cases(tier, seed):
    rnd = random.Random(seed)
    p = 0.5 if tier == "quick" else 1.0
    for lang in ("L0", "L1"):
        for hi, ni, di, ei, fmt in itertools.product(range(len(HISTORIES)), range(len(NAMES)), range(len(DEFS)),
                                                     range(len(EXTRAS)), FMTS):
            if rnd.random() < p:
                yield {"kind": "api", "lang": lang, "ops": HISTORIES[hi], "names": list(NAMES[ni]),
                       "defs": {str(k): v for k, v in DEFS[di].items()},
                       "aextras": {str(k): v for k, v in EXTRAS[ei][0].items()},
                       "lextras": {str(k): v for k, v in EXTRAS[ei][1].items()}, "fmt": fmt}
    n = 600 if tier == "quick" else 6000
    for i in range(n):
        lang = ("L0", "L1")[i % 2]
        U = LANG_U[lang]
        ops = rand_ops(rnd, U, rnd.randint(4, 12))
        di, ei = rnd.randrange(len(DEFS)), rnd.randrange(len(EXTRAS))
        yield {"kind": "api", "lang": lang, "ops": ops, "names": list(rnd.choice(NAMES)),
               "defs": {str(k): v for k, v in DEFS[di].items()},
               "aextras": {str(k): v for k, v in EXTRAS[ei][0].items()},
               "lextras": {str(k): v for k, v in EXTRAS[ei][1].items()}, "fmt": rnd.choice(FMTS)}
    # hand-written files
    idsets = [(0, 1, 2), (0, 3, 7), (-1, 0, 5)] + ([(2, 0, 1)] if tier == "thorough" else [])
    for lang in ("L0", "L1"):
        U = LANG_U[lang]
        for ids in idsets:
            for order in itertools.permutations(range(3)):
                for spelling in ("full", "shorthand", "mixed", "rich"):
                    for fmt in FMTS:
                        ents = []
                        for k in order:
                            t = U["types"][k]
                            if spelling == "shorthand" or (spelling == "mixed" and k == 1):
                                ents.append([ids[k], t])
                            else:
                                e = {"name": "n%d" % k, "type": t}
                                if spelling == "rich" and k == 0:
                                    e["defenses"] = {U["defense"]: 0.25}; e["extras"] = {"k": "v"}
                                ents.append([ids[k], e])
                        cls, f1, m1, f2, m2 = U["links"][0]
                        cls2, g1, n1, g2, n2 = U["links"][2]
                        yield {"kind": "hand", "lang": lang, "fmt": fmt, "name": "hand", "assets": ents,
                               "associations": [[cls, {f1: [ids[i] for i in m1], f2: [ids[i] for i in m2]}],
                                                [cls2, {g1: [ids[i] for i in n1], g2: [ids[i] for i in n2]}]],
                               "attackers": [[3 if 3 not in ids else 11, "att", [[ids[0], [U["steps"][0][0]]], [ids[2], [U["steps"][2][0]]]]]]}
    # ---- (the blocks below were added after the ones above; the recipes above are unchanged) ----
    thorough = tier == "thorough"
    plain = {"names": list(NAMES[0]), "defs": {}, "aextras": {}, "lextras": {}}
    # api, defenses by name: per candidate every assignment of {unset} + DEF_VALUES to each defense of its type
    for lang in ("L0", "L1"):
        grids = []
        for c in range(3):
            names = type_defenses(lang, c)
            for vals in itertools.product([None] + DEF_VALUES, repeat=len(names)):
                d = {n: v for n, v in zip(names, vals) if v is not None}
                if d: grids.append({str(c): d})
        for v in DEF_VALUES + [1e-07]:
            g = {str(c): {n: v for n in type_defenses(lang, c)} for c in range(3)}
            grids.append({c: d for c, d in g.items() if d})
        for g in grids:
            for hi in (1, 2):
                for fmt in FMTS:
                    yield dict(plain, kind="api", lang=lang, ops=HISTORIES[hi], defs_named=g, fmt=fmt)
    for i in range(3000 if thorough else 300):
        lang = ("L1", "L0")[i % 3 == 2]
        ei = rnd.randrange(len(EXTRAS))
        yield {"kind": "api", "lang": lang, "ops": rand_ops(rnd, LANG_U[lang], rnd.randint(4, 12)), "names": list(rnd.choice(NAMES)),
               "defs": {}, "defs_named": rand_defs_named(rnd, lang),
               "aextras": {str(k): v for k, v in EXTRAS[ei][0].items()},
               "lextras": {str(k): v for k, v in EXTRAS[ei][1].items()}, "fmt": rnd.choice(FMTS)}

    # hand-written files, defense entries: each defense of each type (and all at once) x HAND_DEF_VALUES
    def hand_doc(lang, ids, order, fmt, defs, name="hand", shorthand=(), extras=None):
        U = LANG_U[lang]
        ents = []
        for k in order:
            t = U["types"][k]
            if k in shorthand: ents.append([ids[k], t]); continue
            e = {"name": "n%d" % k, "type": t}
            if defs.get(k): e["defenses"] = dict(defs[k])
            if extras and k in extras: e["extras"] = extras[k]
            ents.append([ids[k], e])
        cls, f1, m1, f2, m2 = U["links"][0]
        return {"kind": "hand", "lang": lang, "fmt": fmt, "name": name, "assets": ents,
                "associations": [[cls, {f1: [ids[i] for i in m1], f2: [ids[i] for i in m2]}]],
                "attackers": [[11, "att", [[ids[0], [U["steps"][0][0]]]]]]}
    orders = list(itertools.permutations(range(3))) if thorough else [(0, 1, 2), (2, 1, 0)]
    for lang in ("L0", "L1"):
        slots = [(k, n) for k in range(3) for n in type_defenses(lang, k)]
        for v in HAND_DEF_VALUES:
            settings = [{k: {n: v}} for (k, n) in slots]
            allv = {}
            for (k, n) in slots: allv.setdefault(k, {})[n] = v
            settings.append(allv)
            for defs in settings:
                for order in orders:
                    for fmt in FMTS:
                        yield hand_doc(lang, (0, 3, 7), order, fmt, defs)
    # hand-written file rewritten at the same path and loaded again in the same process
    for lang in ("L0", "L1"):
        d0 = {0: {LANG_U[lang]["defense"]: 0.25}}
        d1 = {0: {LANG_U[lang]["defense"]: 0.0}}
        pairs = [(((0, 1, 2), (0, 1, 2), {}, ()), ((0, 3, 7), (0, 1, 2), {}, ())),          # other ids
                 (((0, 1, 2), (0, 1, 2), d0, ()), ((0, 1, 2), (0, 1, 2), d1, ())),          # only a defense value
                 (((0, 1, 2), (0, 1, 2), d1, ()), ((0, 1, 2), (0, 1, 2), {}, ())),          # defense entry removed
                 (((0, 1, 2), (2, 1, 0), {}, ()), ((0, 1, 2), (0, 1, 2), {}, (1,))),        # order + shorthand
                 (((-1, 0, 5), (1, 0, 2), {}, ()), ((0, 3, 7), (1, 2, 0), d0, ())),
                 (((0, 3, 7), (0, 1, 2), {}, (0, 1, 2)), ((0, 3, 7), (0, 1, 2), {}, ())),   # shorthand -> full
                 (((0, 1, 2), (0, 1, 2), {}, ()), ((0, 1, 2), (0, 1, 2), {}, ())),          # identical content, other model name
                 (((5, 6, 7), (0, 1, 2), d0, ()), ((0, 1, 2), (2, 0, 1), d0, ()))]
        for (a, b) in pairs:
            for fmt in FMTS:
                first = hand_doc(lang, a[0], a[1], fmt, a[2], "hand", a[3])
                first["then"] = hand_doc(lang, b[0], b[1], fmt, b[2], "hand2", b[3], extras={2: {"k": "v"}})
                yield first

    # sequences save -> load -> change -> save -> load on one file, named in several spellings
    forms = list(PATH_FORMS)
    for lang in ("L0", "L1"):
        for si, stages in enumerate(SEQ_SCENARIOS):
            for fmt in FMTS:
                for sf in forms:
                    for lf in forms:
                        if sf == lf or thorough or rnd.random() < 0.5:
                            yield {"kind": "seq", "lang": lang, "names": list(NAMES[(si + (fmt != "json")) % 2 * 2]), "fmt": fmt,
                                   "save_form": sf, "load_form": lf, "stages": stages}
    for i in range(3000 if thorough else 300):
        lang = ("L1", "L0")[i % 3 == 2]
        stages = []
        for _ in range(rnd.randint(2, 4)):
            st = {"ops": rand_ops(rnd, LANG_U[lang], rnd.randint(0, 6))}
            if rnd.random() < 0.6: st["defs_named"] = rand_defs_named(rnd, lang, 0.4)
            if rnd.random() < 0.3: st["aextras"] = {str(rnd.randrange(3)): rnd.choice([{}, {"k": "v"}, {"n": [1, 2]}])}
            stages.append(st)
        yield {"kind": "seq", "lang": lang, "names": list(rnd.choice(NAMES)), "fmt": rnd.choice(FMTS),
               "save_form": rnd.choice(forms), "load_form": rnd.choice(forms), "stages": stages}


# -----------------------------------------------------------------------------------------------------------------

def first_diff(a, b, path=""):
    """short description of where two plain values differ"""
    if type(a) != type(b) and not (isinstance(a, (int, float)) and isinstance(b, (int, float))):
        return "%s: %r vs %r" % (path, a, b)
    if isinstance(a, dict):
        for k in sorted(set(a) | set(b), key=str):
            if k not in a: return "%s.%s: missing vs %r" % (path, k, b[k])
            if k not in b: return "%s.%s: %r vs missing" % (path, k, a[k])
            d = first_diff(a[k], b[k], "%s.%s" % (path, k))
            if d: return d
        return None
    if isinstance(a, list):
        if len(a) != len(b): return "%s: %d entries vs %d (%r vs %r)" % (path, len(a), len(b), a, b)
        for i, (x, y) in enumerate(zip(a, b)):
            d = first_diff(x, y, "%s[%d]" % (path, i))
            if d: return d
        return None
    return None if a == b else "%s: %r vs %r" % (path, a, b)


def parse_file(path):
    import yaml
    with open(path, encoding="utf-8") as f:
        d = json.load(f) if path.endswith(".json") else yaml.safe_load(f)
    def norm(x):
        if isinstance(x, dict): return {str(k): norm(v) for k, v in x.items()}
        if isinstance(x, list): return [norm(v) for v in x]
        return x
    return norm(d)


def compare_views(r, v0, v1, ctx):
    """clauses name / assets / associations / attackers: v1 (loaded) against v0 (before saving / described)"""
    ok = True
    r.check("C07.name", v0["name"] == v1["name"], FN_LOAD, "model name %r became %r" % (v0["name"], v1["name"]), "name")
    a0, a1 = v0["assets"], v1["assets"]
    if set(a0) != set(a1) or v0["n_assets"] != v1["n_assets"]:
        ok = False
        lost0 = 0 in a0 and 0 not in a1
        r.check("C07.assets", False, FN_LOAD, "asset ids %s became %s (%s)" % (sorted(a0), sorted(a1), ctx),
                "ids:" + ("id-0-lost" if lost0 else "differ"))
    else:
        for i in sorted(a0):
            for part in ("name", "type", "class", "defenses", "extras"):
                if a0[i][part] is None and part == "name": continue
                if a0[i][part] != a1[i][part]:
                    ok = False
                    r.check("C07.assets", False, FN_LOAD, "asset %d %s: %r became %r (%s)" % (i, part, a0[i][part], a1[i][part], ctx),
                            part)
    r.clauses.setdefault("C07.assets", True)
    l0, l1 = v0["links"], v1["links"]
    if [x[:2] for x in l0] != [x[:2] for x in l1]:
        ok = False
        none = any(m is None for x in l1 for (_, ms) in x[1] for m in ms)
        r.check("C07.associations", False, FN_LOAD, "associations %s became %s (%s)" % ([x[:2] for x in l0], [x[:2] for x in l1], ctx),
                "members:" + ("None-member" if none else "differ"))
    elif [x[2] for x in l0] != [x[2] for x in l1]:
        ok = False
        dropped = all(not x[2] for x in l1)
        r.check("C07.associations", False, FN_LOAD, "association extras %s became %s (%s)" % ([x[2] for x in l0], [x[2] for x in l1], ctx),
                "extras:" + ("dropped" if dropped else "differ"))
    r.clauses.setdefault("C07.associations", True)
    if v0["attackers"] != v1["attackers"]:
        ok = False
        ids0 = [t[0] for t in v0["attackers"]]
        sig = "differ"
        if len(set(ids0)) < len(ids0):
            # tell the known finding (the history itself ASKS for an id that is in use / adds one attachment twice; observed at
            # the add_attacker call on the real model) from ids that collide although nobody asked for a duplicate
            dup = {i for i in ids0 if ids0.count(i) > 1}
            events = getattr(r, "id_events", [])
            asked = {i for (_, i) in events}
            cause = sorted(c_ for (c_, i) in events if i in dup)
            sig = "two-attackers-one-id:" + (cause[0] if dup <= asked and cause else "ids-handed-out-by-the-model-collide")
        r.check("C07.attackers", False, FN_LOAD, "attackers %s became %s (%s)" % (v0["attackers"], v1["attackers"], ctx), sig)
    r.clauses.setdefault("C07.attackers", True)
    return ok


def steps_by_name(base, ops):
    """recipes give the attack step of an entry point by index into the steps of the candidate's type"""
    return [([o[0], o[1], o[2], base["steps"][o[2]][o[3] % len(base["steps"][o[2]])]] if o[0] in ("add_ep", "remove_ep") else o)
            for o in ops]


def set_named_defenses(S, lang, defs_named):
    """{cand: {defense name | "*": value}} on the live candidate objects ("*" = every defense the type has)"""
    for c, dd in defs_named.items():
        for name, v in dd.items():
            for n in (type_defenses(lang, int(c)) if name == "*" else [name]):
                setattr(S.cands[int(c)], n, v)


def run_api(recipe, r, tmp):
    from maltoolbox.model import Model
    base = LANG_U[recipe["lang"]]
    U = dict(base)
    U["cands"] = [(base["types"][c], recipe["names"][c], {}) for c in range(3)]
    U["attackers"] = [None, "att"]
    S = L.Session(U, model_name=recipe["names"][2] or "m")
    spec = L.lang_spec(base["lang"])
    for c, v in recipe["defs"].items():
        ds = sorted(L.spec_defenses(spec, base["types"][int(c)]))
        if ds: setattr(S.cands[int(c)], ds[-1], v)          # the last defense the type has (inherited ones included)
    set_named_defenses(S, base["lang"], recipe.get("defs_named", {}))
    for c, ex in recipe["aextras"].items(): S.cands[int(c)].extras = ex
    S.build(steps_by_name(base, recipe["ops"]))
    r.id_events = list(S.id_events)
    m = S.model
    for k, ex in recipe["lextras"].items():
        inmodel = [h for h in S.by_shape.get(int(k), []) if any(x is S.links[h] for x in m.associations)]
        if inmodel: S.links[inmodel[-1]].extras = ex
    v0 = L.full_view(m, base["lang"])
    feats = []
    if any(x[2] for x in v0["links"]): feats.append("assoc-extras")
    if any(a["extras"] for a in v0["assets"].values()): feats.append("asset-extras")
    fmt = recipe["fmt"]
    kind = "json" if fmt == "json" else "yaml"
    f1 = os.path.join(tmp, "m1." + fmt)
    try:
        m.save_to_file(f1)
    except Exception as e:
        r.check("C07.save-load", False, "maltoolbox.model:Model.association_to_dict" if "assoc-extras" in feats else FN_SAVE,
                "save_to_file(.%s) raised %s: %s" % (fmt, L.exc_name(e), str(e)[:120]),
                "save:%s:%s:%s" % (kind, L.exc_name(e), "assoc-extras" if "assoc-extras" in feats else ("+".join(feats) or "plain")))
        return v0
    try:
        m1 = Model.load_from_file(f1, S.lcf)
    except Exception as e:
        r.check("C07.save-load", False, FN_LOAD, "load_from_file(.%s) raised %s: %s" % (fmt, L.exc_name(e), str(e)[:120]),
                "load:%s:%s:%s" % (kind, L.exc_name(e), "assoc-extras" if "assoc-extras" in feats else ("+".join(feats) or "plain")))
        return v0
    r.check("C07.save-load", True, FN_SAVE)
    try:
        v1 = L.full_view(m1, base["lang"])
    except Exception as e:
        r.check("C07.associations", False, FN_LOAD, "loaded model cannot be read: %s %s" % (L.exc_name(e), str(e)[:100]),
                "loaded-unreadable:" + L.exc_name(e))
        return v0
    compare_views(r, v0, v1, "." + fmt)
    f2 = os.path.join(tmp, "m2." + fmt)
    try:
        m1.save_to_file(f2)
        d1, d2 = parse_file(f1), parse_file(f2)
        df = first_diff(d1, d2) or ""
        what = "association-extras" if (".associations" in df and "extras" in df) else (df.split(".")[1].split("[")[0] if "." in df else "other")
        r.check("C07.resave", d1 == d2, FN_SAVE, "saving the loaded model gives a different file: %s" % df, "resave:%s:%s" % (kind, what))
    except Exception as e:
        r.check("C07.resave", False, FN_SAVE, "saving the loaded model raised %s" % L.exc_name(e), "resave:%s:%s" % (kind, L.exc_name(e)))
    return v0


def run_hand(recipe, r, tmp, tag="", seen=None):
    import yaml
    from maltoolbox.model import Model
    base = LANG_U[recipe["lang"]]
    lg, lcf = L.get_lang(base["lang"])
    spec = L.lang_spec(base["lang"])
    fmt = recipe["fmt"]
    js = fmt == "json"
    key = (lambda i: str(i)) if js else (lambda i: i)
    doc = {"metadata": {"name": recipe["name"], "langVersion": spec["defines"]["version"], "langID": spec["defines"]["id"]},
           "assets": {key(i): e for (i, e) in recipe["assets"]},
           "associations": [{cls: fs} for (cls, fs) in recipe["associations"]],
           "attackers": {key(i): {"name": n, "entry_points": {key(a): {"attack_steps": st} for (a, st) in eps}}
                         for (i, n, eps) in recipe["attackers"]}}
    path = os.path.join(tmp, "h." + fmt)
    with open(path, "w", encoding="utf-8") as f:
        if js: json.dump(doc, f)
        else: yaml.safe_dump(doc, f, sort_keys=False)
    # the model the description denotes
    want_assets = {}
    for (i, e) in recipe["assets"]:
        t = e if isinstance(e, str) else e["type"]
        d = L.spec_defenses(spec, t)
        if not isinstance(e, str): d.update({k: float(v) for k, v in e.get("defenses", {}).items()})
        want_assets[i] = {"name": None if isinstance(e, str) else e["name"], "type": t, "class": t, "defenses": d,
                          "extras": {} if isinstance(e, str) else e.get("extras", {})}
    links = [[cls, sorted([f, list(ms)] for f, ms in fs.items()), {}] for (cls, fs) in recipe["associations"]]
    want = {"name": recipe["name"], "assets": want_assets, "n_assets": len(want_assets),
            "links": sorted(links, key=lambda x: json.dumps(x, sort_keys=True)),
            "attackers": sorted([i, n, sorted([a, list(st)] for (a, st) in eps)] for (i, n, eps) in recipe["attackers"])}
    order = [i for (i, _) in recipe["assets"]]
    shape0 = "id-0-not-first" if 0 in order and order[0] != 0 else "id-0-first"
    shape = shape0 + (":shorthand" if any(isinstance(e, str) for (_, e) in recipe["assets"]) else "")
    try:
        m1 = Model.load_from_file(path, lcf)
        v1 = L.full_view(m1, base["lang"])
    except Exception as e:
        r.check("C07.handwritten", False, FN_LOAD, "%sassets listed as %s (.%s): loading raised %s: %s" % (tag, order, fmt, L.exc_name(e), str(e)[:100]),
                "%s%s:raised" % (tag, shape0))
        return want
    sub = CaseResult()
    ok = compare_views(sub, want, v1, "%sassets listed as %s, .%s" % (tag, order, fmt))
    if seen is not None:
        # the file was rewritten: what is loaded must depend on what the file says now, not on what was loaded from this
        # path before - the same bytes at a path never used before are loaded for comparison
        prev = seen.get("view")
        seen["view"] = v1
        if not ok and prev is not None:
            vc = load_copy(path, tmp, "hcopy." + fmt, lcf, base["lang"])
            if vc is not None and vc != v1:
                r.check("C07.handwritten", False, FN_FILE["json" if js else "yaml"],
                        "the file was rewritten with another description (.%s) and loaded again in the same process: got ids %s, "
                        "name %r%s; a copy of the file at a fresh path gives ids %s, name %r (described: ids %s, name %r)"
                        % (fmt, sorted(v1["assets"]), v1["name"], " = the model loaded before the file was rewritten" if prev == v1 else "",
                           sorted(vc["assets"]), vc["name"], sorted(want["assets"]), want["name"]),
                        "rewritten-file:%s:stale-load" % ("json" if js else "yaml"))
                return want
    names = [a["name"] for a in v1["assets"].values()]
    if ok and (len(set(names)) < len(names) or any(not n for n in names)):
        ok = False; sub.failures.append(("C07.assets", FN_LOAD, "shorthand assets got names %s" % names, "shorthand-names"))
    for (cl, fn, msg, sig) in sub.failures:
        r.check("C07.handwritten", False, fn, msg, "%s%s:%s:%s" % (tag, shape, cl.split(".")[1], sig))
    r.clauses.setdefault("C07.handwritten", True)
    return want


def load_copy(path, directory, name, lcf, lang):
    """view of the model loaded from a copy of the file at a path that was never used before; None if that fails"""
    from maltoolbox.model import Model
    fresh = os.path.join(directory, name)
    shutil.copyfile(path, fresh)
    try:
        return L.full_view(Model.load_from_file(fresh, lcf), lang)
    except Exception:
        return None


FN_FILE = {"json": "maltoolbox.file_utils:load_dict_from_json_file", "yaml": "maltoolbox.file_utils:load_dict_from_yaml_file"}


def run_seq(recipe, r, tmp):
    """stages applied to ONE live model; after each stage: save to the file (spelling save_form), load it (spelling
    load_form) and compare with the content the live model has now"""
    from maltoolbox.model import Model
    base = LANG_U[recipe["lang"]]
    lang = base["lang"]
    U = dict(base)
    U["cands"] = [(base["types"][c], recipe["names"][c], {}) for c in range(3)]
    U["attackers"] = [None, "att"]
    S = L.Session(U, model_name=recipe["names"][2] or "m")
    m = S.model
    fmt = recipe["fmt"]
    kind = "json" if fmt == "json" else "yaml"
    T = os.path.realpath(tmp)
    os.mkdir(os.path.join(T, "sub"))
    os.symlink("sub", os.path.join(T, "link"))
    def spelled(form):
        cwd, pat = PATH_FORMS[form]
        return os.path.normpath(os.path.join(T, cwd)), pat.replace("{T}", T) + "." + fmt
    (scwd, spath), (lcwd, lpath) = spelled(recipe["save_form"]), spelled(recipe["load_form"])
    how = "saved as %s, loaded as %s" % (PATH_FORMS[recipe["save_form"]][1] + "." + fmt, PATH_FORMS[recipe["load_form"]][1] + "." + fmt)
    spell = "canonical-path" if recipe["save_form"] == recipe["load_form"] == "abs" else "noncanonical-path"
    views = []
    old_cwd = os.getcwd()
    try:
        for k, st in enumerate(recipe["stages"]):
            S.build(steps_by_name(base, st.get("ops", [])))
            r.id_events = list(S.id_events)
            set_named_defenses(S, lang, st.get("defs_named", {}))
            for c, ex in st.get("aextras", {}).items(): S.cands[int(c)].extras = ex
            v = L.full_view(m, lang)
            views.append(v)
            ctx = "stage %d of %d, .%s, %s" % (k + 1, len(recipe["stages"]), fmt, how)
            try:
                os.chdir(scwd)
                m.save_to_file(spath)
            except Exception as e:
                r.check("C07.save-load", False, FN_SAVE, "save_to_file raised %s: %s (%s)" % (L.exc_name(e), str(e)[:100].replace(T, "<T>"), ctx),
                        "seq:save:%s:%s:%s" % (kind, L.exc_name(e), spell))
                break
            try:
                os.chdir(lcwd)
                m1 = Model.load_from_file(lpath, S.lcf)
            except Exception as e:
                r.check("C07.save-load", False, FN_LOAD, "load_from_file raised %s: %s (%s)" % (L.exc_name(e), str(e)[:100].replace(T, "<T>"), ctx),
                        "seq:load:%s:%s:%s" % (kind, L.exc_name(e), spell))
                break
            r.check("C07.save-load", True, FN_SAVE)
            try:
                w = L.full_view(m1, lang)
            except Exception as e:
                r.check("C07.associations", False, FN_LOAD, "loaded model cannot be read: %s %s (%s)" % (L.exc_name(e), str(e)[:100], ctx),
                        "loaded-unreadable:" + L.exc_name(e))
                break
            sub = CaseResult(); sub.id_events = r.id_events
            if not compare_views(sub, v, w, ctx):
                # does the result depend on the history of the path rather than on the bytes of the file? the same bytes at
                # a path never used before are loaded for comparison
                wc = load_copy(os.path.join(T, "sub", "m." + fmt), T, "fresh%d.%s" % (k, fmt), S.lcf, lang)
                stale = wc is not None and wc != w
                earlier = [j + 1 for j in range(k) if views[j] == w]
                for (cl, fn, msg, sig) in sub.failures:
                    if stale:
                        r.check(cl, False, FN_FILE[kind], "the load does not give what the file contains now (a copy of the file at a fresh "
                                "path loads differently)%s: %s" % (" but the content saved at stage %d" % earlier[-1] if earlier else "", msg),
                                "seq:%s:stale-load:%s" % (kind, spell))
                    else:            # same pattern as in a single save + load
                        r.check(cl, False, fn, msg, sig)
    finally:
        os.chdir(old_cwd)
    return views


def run_case(recipe):
    r = CaseResult()
    tmp = tempfile.mkdtemp(prefix="c07_")
    try:
        if recipe["kind"] == "seq":
            views = run_seq(recipe, r, tmp)
            v = None
        elif recipe["kind"] == "api":
            v = run_api(recipe, r, tmp)
        elif "then" in recipe:
            seen = {}
            v = run_hand(recipe, r, tmp, seen=seen)
            run_hand(recipe["then"], r, tmp, tag="rewritten:", seen=seen)
        else:
            v = run_hand(recipe, r, tmp)
    finally:
        shutil.rmtree(tmp, ignore_errors=True)
    for cl in ("save-load", "name", "assets", "associations", "attackers", "resave", "handwritten"):
        r.clauses.setdefault("C07." + cl, True)
    if v is None:
        if any(x["assets"] for x in views) and any(a != b for a, b in zip(views, views[1:])):
            r.nontrivial_key = "seq:%s:%s>%s:%s" % (recipe["fmt"], recipe["save_form"], recipe["load_form"], common.recipe_hash(views))
    elif v["assets"]:
        r.nontrivial_key = recipe["kind"] + ":" + recipe["fmt"] + ":" + common.recipe_hash([v, recipe.get("assets"), recipe.get("then")])
    return r


if __name__ == "__main__":
    common.main(globals())
