"""
Helpers shared by floor_C18 (legacy loaders) and floor_C19 (Neo4j ingestor).

Nothing here re-implements repository behaviour.  It provides
  * LangInfo      - facts about a language read straight from the langspec dict (types, inheritance, steps,
                    defenses, associations and the class names used in native model files);
  * gen_model     - seeded random *abstract* models (JSON recipes) over a language;
  * native_dict / legacy_dict / scad_bytes - the abstract model written in the three file layouts
                    (native layout: tests/testdata/*.yml|json; 0.0.39 layout and .sCAD layout: written here from the
                    documented layouts, i.e. the INVERSE of the translators under test);
  * reference_view / model_view - the observable content (assets, pairwise links, entry points);
  * RecordingDB / make_graph_class - recording stand-in for py2neo.Graph that answers the two Cypher queries of
                    get_model by hand.
Never print/repr python_jsonschema_objects instances.
"""
from __future__ import annotations
import io, json, os, random, zipfile, logging
from xml.sax.saxutils import quoteattr
import mini

logging.disable(logging.CRITICAL)

# ---------------------------------------------------------------------------------------------------
# languages


def mini_spec():
    """Tiny legal MAL language with: sub-types (A1<A, B1<B), a reflexive association, two pairs of duplicate-named
    associations (one pair declared in flipped order), an association declared between sub-types only, a 0..1
    field, defenses with default 0 (Disabled / no ttc) and default 1 (Enabled), steps reaching one target twice."""
    m = mini
    A = m.asset("A", steps=[
        m.attack_step("s", "or", reaches=[m.path(m.field("bs"), m.step("u")), m.path(m.field("dupBs"), m.step("u")),
                                          m.path(m.field("down"), m.step("s"))]),
        m.attack_step("t", "and", reaches=[m.step("s")]),
        m.attack_step("d1", "defense", ttc=m.TTC_DISABLED, reaches=[m.step("t")]),
        m.attack_step("d2", "defense", ttc=m.TTC_ENABLED, reaches=[m.step("t")]),
    ])
    A1 = m.asset("A1", sup="A", steps=[
        m.attack_step("s1", "or", reaches=[m.path(m.field("b1s"), m.step("v"))]),
        m.attack_step("d3", "defense", ttc=None, reaches=[m.step("s1")]),
    ])
    B = m.asset("B", steps=[
        m.attack_step("u", "or", reaches=[m.path(m.field("as"), m.step("t")), m.path(m.field("tc"), m.step("w"))]),
        m.attack_step("v", "or", ttc=m.ttc_exp(0.2)),
        m.attack_step("e1", "defense", ttc=m.TTC_DISABLED, reaches=[m.step("u")]),
    ])
    B1 = m.asset("B1", sup="B", steps=[m.attack_step("v1", "and", reaches=[m.step("v"), m.step("v")])])
    C = m.asset("C", steps=[
        m.attack_step("w", "or", reaches=[m.path(m.field("tb"), m.step("v")), m.path(m.field("oneB"), m.step("u"))]),
    ])
    assocs = [
        m.assoc("AB", "A", "as", "B", "bs"),
        m.assoc("AA", "A", "up", "A", "down"),
        m.assoc("Dup", "A", "dupAs1", "B", "dupBs"),
        m.assoc("Dup", "A", "dupAs2", "C", "dupCs"),
        m.assoc("Twin", "B", "tb", "C", "tc"),
        m.assoc("Twin", "C", "tc2", "B", "tb2"),
        m.assoc("One", "B", "oneB", "C", "manyC", lmult=(0, 1)),
        m.assoc("SubOnly", "A1", "a1s", "B1", "b1s"),
        # two associations sharing BOTH field names between different asset types (look-alike roles)
        m.assoc("HostsC", "B", "host", "C", "guests"),
        m.assoc("HostsD", "A", "host", "D", "guests"),
    ]
    D = m.asset("D", steps=[m.attack_step("x", "or", reaches=[m.path(m.field("host"), m.step("t"))])])
    return m.lang([A, A1, B, B1, C, D], assocs, lid="org.verif.trans", version="0.0.1")


def core_mar_path():
    import maltoolbox
    root = os.path.dirname(os.path.dirname(os.path.abspath(maltoolbox.__file__)))
    p = os.path.join(root, "tests", "testdata", "org.mal-lang.coreLang-1.0.0.mar")
    return p if os.path.exists(p) else "/repo/tests/testdata/org.mal-lang.coreLang-1.0.0.mar"


def core_spec():
    with zipfile.ZipFile(core_mar_path(), "r") as z:
        return json.loads(z.read("langspec.json"))


class LangInfo:
    """facts about a language, read from the langspec dict only"""

    def __init__(self, spec):
        self.spec = spec
        self.lang_id = spec["defines"]["id"]
        self.lang_version = spec["defines"]["version"]
        by_name = {a["name"]: a for a in spec["assets"]}
        self.parent = {n: a.get("superAsset") for n, a in by_name.items()}
        self.concrete = sorted(n for n, a in by_name.items() if not a.get("isAbstract"))
        self.steps = {}        # type -> {step name: kind}   (inherited, child overrides)
        self.defaults = {}     # type -> {defense name: default value}
        for n in by_name:
            chain = []
            x = n
            while x is not None:
                chain.append(x)
                x = self.parent[x]
            st, df = {}, {}
            for t in reversed(chain):
                for s in by_name[t]["attackSteps"]:
                    st[s["name"]] = s["type"]
                    if s["type"] == "defense":
                        ttc = s.get("ttc")
                        df[s["name"]] = 1.0 if (ttc and ttc.get("name") == "Enabled") else 0.0
                    else:
                        df.pop(s["name"], None)
            self.steps[n] = st
            self.defaults[n] = df
        cnt = {}
        for a in spec["associations"]:
            cnt[a["name"]] = cnt.get(a["name"], 0) + 1
        self.assocs = []
        for a in spec["associations"]:
            cls = a["name"] if cnt[a["name"]] == 1 else "%s_%s_%s" % (a["name"], a["leftAsset"], a["rightAsset"])
            self.assocs.append({"name": a["name"], "cls": cls, "dup": cnt[a["name"]] > 1,
                                "L": a["leftAsset"], "lf": a["leftField"], "lmax": a["leftMultiplicity"]["max"],
                                "R": a["rightAsset"], "rf": a["rightField"], "rmax": a["rightMultiplicity"]["max"]})
        self.assoc_by_cls = {a["cls"]: a for a in self.assocs}

    def is_sub(self, t, anc):
        while t is not None:
            if t == anc:
                return True
            t = self.parent[t]
        return False

    def subtypes(self, anc):
        return [t for t in self.concrete if self.is_sub(t, anc)]

    def attack_steps(self, t):
        return sorted(n for n, k in self.steps[t].items() if k in ("or", "and"))


_LANGS = {}


def get_lang(key):
    """(LangInfo, LanguageGraph, LanguageClassesFactory), cached per process.  Only immutable use is made of them."""
    got = _LANGS.get(key)
    if got is None:
        spec = mini_spec() if key == "mini" else core_spec()
        lg, lcf = mini.make_lang(spec)
        got = _LANGS[key] = (LangInfo(spec), lg, lcf)
    return got


_INFO = {}


def get_info(key):
    """LangInfo only (no maltoolbox objects) - cheap, for recipe generation in the parent process"""
    got = _INFO.get(key)
    if got is None:
        got = _INFO[key] = LangInfo(mini_spec() if key == "mini" else core_spec())
    return got


# ---------------------------------------------------------------------------------------------------
# abstract models (recipes)
#
# recipe = {"lang": "mini"|"core", "name": str,
#           "assets":  [[type, name-or-null, id, {defense: value}], ...]      (null name = "type only" short form)
#           "links":   [[class name, field1, [asset idx...], field2, [asset idx...]], ...]   field1 = declared left
#           "attackers": [[name, id, [[asset idx, [step...]], ...]], ...],
#           ... per-floor options }

ID_POOL = [-9007199254740993, -417196716273090511, -7, -2, -1, 0, 1, 2, 3, 5, 8, 13, 40, 6772009123833071681]
NAME_POOL = ["x", "y", "z", "Program 1", "OS App", "a&b", "q<r>", 'say "hi"', "it's", u"åsa", "nüll", " pad "]
VALUES = [0.0, 1.0, 0.5, 0.25]


def gen_model(rnd, info, max_assets=3, max_links=3, max_attackers=2, p_id0_late=0.08, types=None, dup_names=True,
              p_seq=0.3, p_id0_first=0.25):
    n = rnd.randint(1, max_assets)
    pool = types or info.concrete
    ts = [rnd.choice(pool) for _ in range(n)]
    # ids: distinct over assets and attackers
    n_att = min(rnd.choice([0, 1, 1, 2]), max_attackers)
    style = rnd.random()
    if style < p_seq:
        ids = list(range(n + n_att))                       # 0,1,2,.. in order (id 0 first: honoured even with k)
    else:
        ids = rnd.sample([i for i in ID_POOL if i != 0], n + n_att)
        if rnd.random() < p_id0_first:
            ids[0] = 0                                     # id 0 on the first asset
        elif rnd.random() < p_id0_late and n > 1:
            ids[rnd.randrange(1, n)] = 0                   # id 0 on a later asset
    assets = []
    used_names = []
    for k in range(n):
        r = rnd.random()
        if r < 0.2:
            name = None                                    # short form: "Type" only
        elif r < 0.3 and used_names and dup_names:
            name = rnd.choice(used_names)                  # duplicate name: renamed "<name>:<id>" by add_asset
        elif r < 0.6:
            name = rnd.choice(NAME_POOL)
            if name in used_names and not dup_names:
                name = "%s%d" % (name, k)
        else:
            name = "%s %d" % (ts[k], k)
        if name is not None:
            used_names.append(name)
        defs = {}
        if name is not None:
            for d in sorted(info.defaults[ts[k]]):
                if rnd.random() < 0.3:
                    defs[d] = rnd.choice(VALUES)
        assets.append([ts[k], name, ids[k], defs])
    links = []
    used_pairs = {}
    for _ in range(rnd.randint(0, max_links)):
        a = rnd.choice(info.assocs)
        li = [k for k in range(n) if info.is_sub(ts[k], a["L"])]
        ri = [k for k in range(n) if info.is_sub(ts[k], a["R"])]
        if not li or not ri:
            continue
        nl = 1 if rnd.random() < 0.7 else rnd.randint(1, len(li))
        nr = 1 if rnd.random() < 0.7 else rnd.randint(1, len(ri))
        if a["lmax"]:
            nl = min(nl, a["lmax"])
        if a["rmax"]:
            nr = min(nr, a["rmax"])
        l = sorted(rnd.sample(li, nl))
        r_ = sorted(rnd.sample(ri, nr))
        pairs = {(x, y) for x in l for y in r_}
        seen = used_pairs.setdefault(a["cls"], set())
        if pairs & seen:
            continue
        seen |= pairs
        links.append([a["cls"], a["lf"], l, a["rf"], r_])
    attackers = []
    for j in range(n_att):
        eps = []
        for k in rnd.sample(range(n), rnd.randint(0, n)):
            steps = info.attack_steps(ts[k])
            if not steps:
                continue
            eps.append([k, rnd.sample(steps, min(len(steps), rnd.choice([1, 1, 2, 3])))])
        attackers.append(["Attacker %d" % j if rnd.random() < 0.5 else "Attacker:%d" % ids[n + j], ids[n + j], eps])
    return {"assets": assets, "links": links, "attackers": attackers}


def expected_names(rec):
    """names after loading: short form -> "<type>:<id>"; a name already taken -> "<name>:<id>" (add_asset doc)"""
    out, seen = [], set()
    for (t, name, i, _d) in rec["assets"]:
        nm = "%s:%s" % (t, i) if name is None else name
        if nm in seen:
            nm = "%s:%s" % (nm, i)
        seen.add(nm)
        out.append(nm)
    return out


def norm_link(cls, f1, x, f2, y):
    return (cls,) + tuple(sorted([(str(f1), int(x)), (str(f2), int(y))]))


def reference_view(rec):
    names = expected_names(rec)
    ids = [a[2] for a in rec["assets"]]
    assets = {a[2]: (names[k], a[0]) for k, a in enumerate(rec["assets"])}
    defenses = {a[2]: {d: float(v) for d, v in a[3].items()} for a in rec["assets"]}
    links = set()
    for (cls, f1, l, f2, r) in rec["links"]:
        for x in l:
            for y in r:
                links.add(norm_link(cls, f1, ids[x], f2, ids[y]))
    attackers = {}
    for (_n, i, eps) in rec["attackers"]:
        attackers[i] = {ids[k]: frozenset(steps) for (k, steps) in eps}
    return {"assets": assets, "defenses": defenses, "links": links, "attackers": attackers}


def model_view(model):
    """observable content of a loaded Model (through _to_dict, as the property says) + the raw entry-point tuples"""
    d = model._to_dict()
    assets = {int(i): (str(a["name"]), str(a["type"])) for i, a in d["assets"].items()}
    links = set()
    for entry in d["associations"]:
        for cls, fields in entry.items():
            if cls == "extras":
                continue
            (f1, l), (f2, r) = list(fields.items())
            for x in l:
                for y in r:
                    links.add(norm_link(cls, f1, x, f2, y))
    attackers = {}
    for i, a in d["attackers"].items():
        attackers[int(i)] = {int(k): frozenset(v["attack_steps"]) for k, v in a["entry_points"].items()}
    full_def = {}
    for a in model.assets:
        full_def[int(a.id)] = {str(k): float(v) for k, v in model.get_asset_defenses(a, include_defaults=True).items()}
    tuples = {}
    for at in model.attackers:
        tuples[int(at.id)] = sorted((int(asset.id), tuple(sorted(str(s) for s in steps)))
                                    for (asset, steps) in at.entry_points)
    return {"assets": assets, "links": links, "attackers": attackers, "defenses": full_def, "tuples": tuples}


def build_model(lcf, rec, name="m"):
    """real Model from a recipe through the public API (add_asset / add_association / add_attacker).
    Assets are always constructed WITH a name (short form -> "<type>:<id>", as the loaders do) and entry-point tuples
    are set directly (as the loaders do): AttackerAttachment.get_entry_point_tuple and Model._validate_association
    compare generated objects with `==`, which recurses without bound on auto-named assets with isomorphic
    associations - a matter of the model properties (C05), kept out of these floors' inputs."""
    from maltoolbox.model import Model, AttackerAttachment
    m = Model(name, lcf)
    objs = []
    for (t, nm, i, defs) in rec["assets"]:
        a = getattr(lcf.ns, t)(name=("%s:%s" % (t, i) if nm is None else nm))
        for d, v in defs.items():
            setattr(a, d, float(v))
        m.add_asset(a, asset_id=i)
        objs.append(a)
    for (cls, f1, l, f2, r) in rec["links"]:
        s = getattr(lcf.ns, cls)()
        setattr(s, f1, [objs[k] for k in l])
        setattr(s, f2, [objs[k] for k in r])
        m.add_association(s)
    for (nm, i, eps) in rec["attackers"]:
        at = AttackerAttachment(name=nm)
        at.entry_points = [(objs[k], list(steps)) for (k, steps) in eps]
        m.add_attacker(at, attacker_id=i)
    return m, objs


# ---------------------------------------------------------------------------------------------------
# the three layouts

def _metadata(rec, info, legacy=False):
    md = {"name": rec.get("name", "m"), "langVersion": info.lang_version, "langID": info.lang_id,
          "malVersion": "0.1.0-SNAPSHOT", "info": "written by the verification harness"}
    if not legacy:
        md["MAL-Toolbox Version"] = "0.1.0"
    return md


def native_dict(rec, info):
    ids = [a[2] for a in rec["assets"]]
    d = {"metadata": _metadata(rec, info), "assets": {}, "associations": [], "attackers": {}}
    for (t, name, i, defs) in rec["assets"]:
        if name is None:
            d["assets"][i] = t
        else:
            e = {"name": name, "type": t}
            if defs:
                e["defenses"] = dict(defs)
            d["assets"][i] = e
    for (cls, f1, l, f2, r) in rec["links"]:
        d["associations"].append({cls: {f1: [ids[x] for x in l], f2: [ids[y] for y in r]}})
    for (name, i, eps) in rec["attackers"]:
        d["attackers"][i] = {"name": name,
                             "entry_points": {ids[k]: {"attack_steps": list(steps)} for (k, steps) in eps}}
    return d


def legacy_dict(rec, info, nested=True, scalar=False):
    """0.0.39 layout: `metaconcept` instead of `type`; associations are {metaconcept, association: {field: ids}}
    (nested=True) or the still older flat {metaconcept, field: ids, field: ids}; a single target may be a scalar."""
    ids = [a[2] for a in rec["assets"]]
    d = {"metadata": _metadata(rec, info, legacy=True), "assets": {}, "associations": [], "attackers": {}}
    for (t, name, i, defs) in rec["assets"]:
        if name is None:
            d["assets"][i] = t
        else:
            e = {"name": name, "metaconcept": t, "eid": i}
            if defs:
                e["defenses"] = dict(defs)
            d["assets"][i] = e
    for (cls, f1, l, f2, r) in rec["links"]:
        def tg(idx):
            v = [ids[x] for x in idx]
            return v[0] if (scalar and len(v) == 1) else v
        body = {f1: tg(l), f2: tg(r)}
        if nested:
            d["associations"].append({"metaconcept": cls, "association": body})
        else:
            e = {"metaconcept": cls}
            e.update(body)
            d["associations"].append(e)
    for (name, i, eps) in rec["attackers"]:
        d["attackers"][i] = {"name": name,
                             "entry_points": {ids[k]: {"attack_steps": list(steps)} for (k, steps) in eps}}
    return d


def write_dict(path, d):
    if path.endswith(".json"):
        with open(path, "w", encoding="utf-8") as f:
            json.dump(d, f, indent=1)
    else:
        import yaml
        with open(path, "w", encoding="utf-8") as f:
            yaml.safe_dump(d, f, allow_unicode=True, sort_keys=False)    # keep the asset order of the recipe


def _cap(s):
    return s[0].upper() + s[1:]


def scad_eom(rec, info, seed=0, explicit_defaults=False, flip=None):
    """The .eom document of a securiCAD archive (layout of tests/testdata/example_model.sCAD):
    <objects id name metaConcept> per asset and per attacker (metaConcept="Attacker"); every step of the type as
    <evidenceAttributes metaConcept="Capitalised">, a defense value as evidenceDistribution/parameters@value;
    one <associations sourceObject sourceProperty targetObject targetProperty> per linked PAIR, where
    source.sourceProperty contains target and target.targetProperty contains source (either object may be the
    source); one per (attacker, asset, step): attacker side property "firstSteps", asset side "<step>.attacker"."""
    rnd = random.Random(seed)
    ids = [a[2] for a in rec["assets"]]
    objs = []
    for (t, name, i, defs) in rec["assets"]:
        nm = "%s:%s" % (t, i) if name is None else name
        lines = ['  <objects description="" id=%s name=%s metaConcept=%s template="false" exportedId="%d">'
                 % (quoteattr(str(i)), quoteattr(nm), quoteattr(t), len(objs) + 1)]
        for s in sorted(info.steps[t], key=_cap):
            kind = info.steps[t][s]
            if kind == "defense" and (s in defs or explicit_defaults or rnd.random() < 0.5):
                if s in defs:
                    par = '<parameters name="probability" value="%r"/>' % float(defs[s])
                elif explicit_defaults:
                    par = '<parameters name="probability" value="%r"/>' % float(info.defaults[t][s])
                else:
                    par = '<parameters name="probability"/>'
                lines += ['    <evidenceAttributes metaConcept=%s>' % quoteattr(_cap(s)),
                          '      <evidenceDistribution type="Bernoulli">', '        ' + par,
                          '      </evidenceDistribution>', '    </evidenceAttributes>']
            else:
                lines.append('    <evidenceAttributes metaConcept=%s/>' % quoteattr(_cap(s)))
        lines += ['    <existence type="FixedBoolean">', '      <parameters name="fixed" value="1.0"/>',
                  '    </existence>', '  </objects>']
        objs.append((i, "\n".join(lines)))
    for (name, i, _eps) in rec["attackers"]:
        o = "\n".join(['  <objects description="" id=%s name=%s metaConcept="Attacker" template="false" exportedId="0">'
                       % (quoteattr(str(i)), quoteattr(name)),
                       '    <evidenceAttributes metaConcept="EntryPoint"/>',
                       '    <existence type="FixedBoolean">', '      <parameters name="fixed" value="1.0"/>',
                       '    </existence>', '  </objects>'])
        objs.insert(rnd.randint(0, len(objs)), (i, o))   # attackers anywhere between the assets (asset order kept)
    conns = []
    for (cls, f1, l, f2, r) in rec["links"]:
        for x in l:
            for y in r:
                # x sits in field f1, y in field f2:  y.f1 contains x,  x.f2 contains y
                if (rnd.random() < 0.5) if flip is None else bool(flip):
                    conns.append((ids[y], f1, ids[x], f2))      # source y, sourceProperty f1 (contains target x)
                else:
                    conns.append((ids[x], f2, ids[y], f1))
    for (_n, i, eps) in rec["attackers"]:
        for (k, steps) in eps:
            for s in steps:
                if (rnd.random() < 0.5) if flip is None else bool(flip):
                    conns.append((i, "firstSteps", ids[k], s + ".attacker"))
                else:
                    conns.append((ids[k], s + ".attacker", i, "firstSteps"))
    rnd.shuffle(conns)
    out = ['<?xml version="1.0" encoding="utf-8"?>',
           '<com.foreseeti.kernalCAD:XMIObjectModel xmi:version="2.0" xmlns:xmi="http://www.omg.org/XMI" '
           'xmlns:com.foreseeti.kernalCAD="http:///com/foreseeti/ObjectModel.ecore" samplingMethod="FORWARD" '
           'integerUniformJumpRange="0" integerPrunedUniformJumpStep="0" warningThreshold="100">']
    out += [o for (_i, o) in objs]
    for n_, (so, sp, to, tp) in enumerate(conns):
        out.append('  <associations description="" sourceObject=%s targetObject=%s id="%d" sourceProperty=%s '
                   'targetProperty=%s/>' % (quoteattr(str(so)), quoteattr(str(to)), 1000 + n_, quoteattr(sp),
                                            quoteattr(tp)))
    for t in sorted({a[0] for a in rec["assets"]}):
        if info.defaults[t]:
            out.append('  <defenseDefaultValueConfigurations metaConcept=%s>' % quoteattr(t))
            for d in sorted(info.defaults[t]):
                out += ['    <attributeConfigurations metaConcept=%s>' % quoteattr(_cap(d)),
                        '      <defaultValue type="FixedBoolean">', '        <parameters name="fixed"/>',
                        '      </defaultValue>', '    </attributeConfigurations>']
            out.append('  </defenseDefaultValueConfigurations>')
    out.append('</com.foreseeti.kernalCAD:XMIObjectModel>')
    return "\n".join(out) + "\n", [i for (i, _o) in objs]


def write_scad(path, rec, info, seed=0, explicit_defaults=False, flip=None):
    base = "model"
    meta = {"scadVersion": "1.0.0", "langVersion": info.lang_version, "langID": info.lang_id,
            "malVersion": "0.1.0-SNAPSHOT", "info": "written by the verification harness"}
    canvas = ('<?xml version="1.0" encoding="utf-8"?>\n<com.foreseeti.securiCAD:ModelViews xmi:version="2.0" '
              'xmlns:xmi="http://www.omg.org/XMI" xmlns:com.foreseeti.securiCAD="http:///com/foreseeti/ModelViews.ecore"/>\n')
    with zipfile.ZipFile(path, "w", zipfile.ZIP_DEFLATED) as z:
        z.writestr(base + ".cmxCanvas", canvas)
        text, order = scad_eom(rec, info, seed, explicit_defaults, flip)
        z.writestr(base + ".eom", text.encode("utf-8"))
        z.writestr("meta.json", json.dumps(meta, indent=2))
    return order        # ids of the <objects> elements in document order (assets and attackers)


# ---------------------------------------------------------------------------------------------------
# recording stand-in for py2neo.Graph

Q_ASSETS = "MATCH (a) WHERE a.type IS NOT NULL RETURN DISTINCT a"
Q_ASSOCS = "MATCH (a)-[r1]->(b),(a)<-[r2]-(b) WHERE a.type IS NOT NULL RETURN DISTINCT a, r1, r2, b"


class RecordingDB:
    """what the database holds: the nodes / relationships of every committed Subgraph (py2neo objects, unbound)"""

    def __init__(self, order_seed=0):
        self.nodes, self.rels = [], []
        self.created, self.committed, self.opened, self.deleted = 0, 0, [], 0
        self.order_seed = order_seed

    def add(self, subgraph):
        for n in subgraph.nodes:
            if not any(n is m for m in self.nodes):
                self.nodes.append(n)
        for r in subgraph.relationships:
            self.rels.append(r)

    def _ordered(self, items, key):
        """a database returns rows in no particular order: deterministic order derived from the recipe's seed"""
        items = sorted(items, key=key)
        random.Random(self.order_seed).shuffle(items)
        return items

    def answer(self, query):
        q = " ".join(query.split())
        nkey = lambda n: json.dumps(sorted((k, str(v)) for k, v in dict(n).items()))
        if q == Q_ASSETS:
            return [{"a": n} for n in self._ordered([n for n in self.nodes if n.get("type") is not None], nkey)]
        if q == Q_ASSOCS:
            rows = []
            for r1 in self.rels:
                a, b = r1.start_node, r1.end_node
                if a.get("type") is None:
                    continue
                for r2 in self.rels:
                    # a relationship is matched at most once per pattern (Cypher relationship uniqueness)
                    if r2 is not r1 and r2.start_node is b and r2.end_node is a:
                        rows.append({"a": a, "r1": r1, "r2": r2, "b": b})
            rkey = lambda row: (nkey(row["a"]), type(row["r1"]).__name__, type(row["r2"]).__name__, nkey(row["b"]))
            return self._ordered(rows, rkey)
        raise NotImplementedError("the stand-in only knows the two queries of get_model, got: " + q)


class _Cursor:
    def __init__(self, rows):
        self._rows = rows

    def data(self):
        return list(self._rows)


class _Tx:
    def __init__(self, db):
        self.db, self.pending, self.done = db, [], False

    def create(self, subgraph):
        self.db.created += 1
        self.pending.append(subgraph)

    def commit(self):
        if not self.done:
            self.done = True
            self.db.committed += 1
            for s in self.pending:
                self.db.add(s)


def make_graph_class(db):
    class StubGraph:
        def __init__(self, *a, **kw):
            db.opened.append(dict(kw))

        def delete_all(self):
            db.deleted += 1
            db.nodes[:] = []
            db.rels[:] = []

        def begin(self, *a, **kw):
            return _Tx(db)

        def commit(self, tx):
            tx.commit()

        def run(self, query, *a, **kw):
            return _Cursor(db.answer(query))
    return StubGraph
