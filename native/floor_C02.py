"""
Bounded stand-in for C02 (one node per asset x step, with attributes faithful to model and language).

Real code under test: AttackGraph(lang_graph, model) -> AttackGraph._generate_graph (node loop), AttackGraph.add_node,
AttackGraphNode.full_name, AttackGraph.get_node_by_id / get_node_by_full_name, Model.add_asset (naming), and through
the existence steps _process_step_expression.  Reference: lib_gen.Lang.steps (inheritance fold of the declarations:
'->' replaces, '+>' appends, no reaches leaves untouched), the recipe's defense values, lib_gen.ModelView.sem for the
requirement expressions.
"""
from __future__ import annotations
import sys, os, json, random, itertools, collections
sys.path.insert(0, os.path.dirname(os.path.abspath(__file__)))
import common
from common import CaseResult
import lib_gen as G

PROPERTY = "C02"
FN_GEN = "maltoolbox.attackgraph.attackgraph:AttackGraph._generate_graph"
FN_ADD = "maltoolbox.attackgraph.attackgraph:AttackGraph.add_node"
FN_NAME = "maltoolbox.attackgraph.node:AttackGraphNode.full_name"
FN_ASSET = "maltoolbox.model:Model.add_asset"
FN_EVAL = "maltoolbox.attackgraph.attackgraph:_process_step_expression"
FN_NAV = "maltoolbox.model:Model.get_associated_assets_by_field_name"
FN_FOLD = "maltoolbox.language.languagegraph:LanguageGraph._get_attacks_for_asset_type"

SCOPE = {
    "quick": "language A<-B<-C + D (reflexive association on A, association A-D, a variable): step 's' declared on the "
             "root with / without reaches and on each lower level absent / '->' / '+>' / without reaches, with "
             "different TTC, tags and MITRE info per level (32 shapes); defense declared Enabled / Disabled / without "
             "TTC and optionally redeclared lower down; exist / notExist steps with one requirement out of 17 "
             "expressions (every operator); models of <=3 assets: every type vector, asset names from "
             "{a, a:1, a:2, b, a:s, a:7} (all tuples) x 5 id patterns (automatic and explicit ids), defense values from "
             "{unset, 0, 0.3, 1}, every model on <=2 assets over the two associations (4 link decompositions) and "
             "random ones on 3; afterwards AttackGraph.add_node with an explicit id that is in use, an explicit fresh "
             "id and an automatic id; + 15000 seeded random combinations of all dimensions",
    "thorough": "same dimensions, 150000 seeded random combinations, models of <=4 assets",
}
EXHAUSTIVE = {"quick": False, "thorough": False}
RULE = ("case = (language recipe, model recipe incl. names / ids / defense values, add_node flag); each dimension is "
        "enumerated completely against a fixed choice of the others, then seeded random combinations; non-trivial "
        "when the model has at least one asset whose type has a step; distinct = distinct recipes")
ASSUMPTIONS = [
    "reference Steps(T): fold of the declarations from the root down ('->' replaces the whole definition, '+>' keeps "
    "the inherited definition and appends the expressions, a redefinition without reaches changes nothing)",
    "the current value of a defense that the recipe does not set is read from the asset before the graph is generated",
    "existence status is compared with the reference evaluator of C01 (interval for transitive); the same "
    "termination guard as in floor_C01 applies",
    "nodes are matched to assets by object identity of node.asset",
    "generated classes (LanguageClassesFactory) are cached per worker process, keyed by types / associations / "
    "defenses; LanguageGraph, Model and AttackGraph are built afresh for every case",
]
BUDGET_S = {"quick": 100, "thorough": 1500}
CHUNK = 150

BASE = {"types": [["A", None], ["B", "A"], ["C", "B"], ["D", None]],
        "assocs": [["AA", "A", "up", "A", "down"], ["AD", "A", "as", "D", "ds"]],
        "vars": [["A", "v1", ["f", "ds"]]]}
CHAIN = ["A", "B", "C"]
LEVEL_ATTRS = {"A": {"ttc": "exp", "tags": ["ta"], "mitre": "T1"},
               "B": {"ttc": None, "tags": ["tb", "tb2"], "mitre": None},
               "C": {"ttc": "en", "tags": [], "mitre": "T3"}}
LEVEL_EXPR = {"A": ["c", ["f", "down"], ["a", "t"]], "B": ["c", ["f", "up"], ["a", "t"]],
              "C": ["c", ["f", "ds"], ["a", "u"]]}
REQ_A = [["f", "ds"], ["f", "down"], ["c", ["f", "down"], ["f", "ds"]], ["u", ["f", "down"], ["f", "up"]],
         ["u", ["d", ["f", "down"], ["f", "down"]], ["f", "up"]], ["d", ["f", "down"], ["f", "up"]],
         ["d", ["c", ["f", "down"], ["f", "up"]], ["f", "up"]], ["i", ["f", "down"], ["f", "up"]],
         ["t", "down"], ["c", ["t", "up"], ["f", "ds"]], ["s", "B", ["f", "down"]], ["s", "C", ["s", "B", ["f", "up"]]],
         ["v", "v1"], ["c", ["f", "up"], ["v", "v1"]]]
REQ_D = [["f", "as"], ["c", ["f", "as"], ["f", "down"]], ["s", "C", ["f", "as"]]]
NAMES = ["a", "a:1", "a:2", "b", "a:s", "a:7"]
ID_PATTERNS = [[None, None, None], [3, 1, 2], [1, 2, None], [5, None, None], [None, None, 7]]
DEF_VALUES = [None, 0.0, 0.3, 1.0]


def make_lang(fold=(True, "absent", "absent"), dttc="dis", dredecl=None, req_a=0, req_d=0, kind_s="or"):
    """fold: (root has reaches, variant on B, variant on C); dredecl: None or (level, 'nor'|'over', ttc)"""
    steps = [["A", "t", "or", {}], ["D", "u", "and", {"ttc": "exp"}]]
    root_has, vb, vc = fold
    o = dict(LEVEL_ATTRS["A"]); o["r"] = [LEVEL_EXPR["A"]] if root_has else None
    steps.append(["A", "s", kind_s, o])
    for T, v in (("B", vb), ("C", vc)):
        if v == "absent": continue
        o = dict(LEVEL_ATTRS[T]); o["r"] = None if v == "nor" else [LEVEL_EXPR[T]]; o["o"] = v == "over"
        steps.append([T, "s", kind_s, o])
    steps.append(["A", "d", "defense", {"ttc": dttc, "r": [["a", "s"]], "tags": ["hard"]}])
    if dredecl:
        T, v, ttc = dredecl
        steps.append([T, "d", "defense", {"ttc": ttc, "r": None if v == "nor" else [["a", "t"]], "o": True}])
    steps.append(["A", "e", "exist", {"q": [REQ_A[req_a]], "r": [["a", "s"]]}])
    steps.append(["D", "ne", "notExist", {"q": [REQ_D[req_d]], "r": [["a", "u"]], "mitre": "T9"}])
    r = dict(BASE); r["steps"] = steps
    return r


FOLDS = [(rh, vb, vc) for rh in (True, False) for vb in ("absent", "over", "ext", "nor")
         for vc in ("absent", "over", "ext", "nor")]
DREDECLS = [None, ("B", "nor", "en"), ("B", "over", "en"), ("C", "over", "dis"), ("B", "over", None)]


def mk_model(types, names=None, ids=None, defs=None, links=()):
    names = names or ["%s%d" % (t.lower(), k) for k, t in enumerate(types)]
    ids = ids or [None] * len(types)
    defs = defs or [None] * len(types)
    return {"assets": [[t, names[k], ids[k], ({"d": defs[k]} if defs[k] is not None and t != "D" else {})]
                       for k, t in enumerate(types)], "links": list(links)}


def cases(tier, seed):
    rnd = random.Random(seed)
    L0 = G.Lang(make_lang())
    tvs = [tv for n in (1, 2, 3) for tv in G.type_vectors(L0, n)]
    small_models = [m for n in (1, 2) for m in G.models_exhaustive(L0, n)]
    some_links = {}
    for (types, links, mode) in small_models:
        some_links.setdefault(tuple(types), []).append(links)

    def a_model(types, r=rnd):
        ls = some_links.get(tuple(types))
        if ls: return r.choice(ls)
        cands = G.candidate_pairs(L0, types)
        rels = [(n, lf, rf, [p for p in ps if r.random() < 0.4]) for (n, lf, rf, ps) in cands]
        return G.links_of(rels, r.choice(G.MODES))

    # (1) inheritance shapes x defense declarations, on every type vector (one link choice each)
    for fold in FOLDS:
        for dttc in ("en", "dis", None):
            lang = make_lang(fold=fold, dttc=dttc)
            for tv in tvs:
                yield {"lang": lang, "model": mk_model(tv, links=a_model(tv)), "addnode": False}
    for dttc in ("en", "dis", None):
        for dr in DREDECLS:
            lang = make_lang(dttc=dttc, dredecl=dr)
            for tv in tvs:
                if "D" in tv and len(set(tv)) == 1: continue
                for defs in itertools.product(DEF_VALUES, repeat=len(tv)):
                    if any(v is not None and t == "D" for v, t in zip(defs, tv)): continue
                    if len(tv) == 3 and rnd.random() < 0.6: continue
                    yield {"lang": lang, "model": mk_model(tv, defs=list(defs), links=a_model(tv)), "addnode": False}
    # (2) names and ids
    lang = make_lang(fold=(True, "ext", "absent"))
    for n in (1, 2, 3):
        for names in itertools.product(NAMES, repeat=n):
            for idp in ID_PATTERNS:
                for tv in (["A"] * n, ["A", "B", "D"][:n], ["D", "C", "A"][:n]):
                    if n == 3 and tv != ["A"] * n and rnd.random() < 0.5: continue
                    yield {"lang": lang, "model": mk_model(tv, names=list(names), ids=idp[:n], links=a_model(tv)),
                           "addnode": names[0] == "a"}
    # (3) requirement expressions x every small model (all decompositions) and random larger ones
    big = list(G.models_random(L0, 3, 400 if tier == "quick" else 2500, rnd))
    if tier != "quick": big += list(G.models_random(L0, 4, 800, rnd))
    for qa in range(len(REQ_A)):
        lang = make_lang(req_a=qa, req_d=qa % len(REQ_D))
        for (types, links, mode) in small_models + big:
            if not any(L0.is_sub(t, "A") for t in types): continue
            yield {"lang": lang, "model": mk_model(types, links=links), "addnode": False}
    # (4) add_node with explicit ids after generation
    for fold in FOLDS[:8]:
        lang = make_lang(fold=fold)
        for tv in tvs:
            yield {"lang": lang, "model": mk_model(tv, links=a_model(tv)), "addnode": True}
    # (5) random combinations of all dimensions
    count = 15000 if tier == "quick" else 150000
    nmax = 3 if tier == "quick" else 4
    for _ in range(count):
        lang = make_lang(fold=rnd.choice(FOLDS), dttc=rnd.choice(("en", "dis", None)), dredecl=rnd.choice(DREDECLS),
                         req_a=rnd.randrange(len(REQ_A)), req_d=rnd.randrange(len(REQ_D)),
                         kind_s=rnd.choice(("or", "and")))
        n = rnd.randint(1, nmax)
        tv = [rnd.choice(L0.order) for _k in range(n)]
        names = [rnd.choice(NAMES + ["x%d" % k, "y", "y"]) for k in range(n)]
        ids = rnd.choice(([None] * n, [rnd.choice((None, 1 + 2 * k)) for k in range(n)], [7 - k for k in range(n)]))
        defs = [rnd.choice(DEF_VALUES) for _k in range(n)]
        cands = G.candidate_pairs(L0, tv)
        dens = rnd.choice((0.0, 0.2, 0.5))
        rels = [(nm, lf, rf, [p for p in ps if rnd.random() < dens]) for (nm, lf, rf, ps) in cands]
        yield {"lang": lang, "model": mk_model(tv, names, ids, defs, G.links_of(rels, rnd.choice(G.MODES))),
               "addnode": rnd.random() < 0.3}


# -----------------------------------------------------------------------------------------------------

def _report(r, seen, clause, fn, msg, sig):
    if (clause, sig) in seen:
        r.clauses[clause] = False
        return
    seen.add((clause, sig))
    r.check(clause, False, fn, msg, sig)


NAV_BUDGET = {1: 200, 2: 600, 3: 2000, 4: 4000}


def run_case(recipe):
    from maltoolbox.attackgraph import AttackGraphNode
    L = G.Lang(recipe["lang"])
    mrec = recipe["model"]
    mv = G.ModelView(L, mrec)
    real = G.Real(L, mrec, nav_budget=NAV_BUDGET[min(4, max(1, mv.n))], mv=mv)
    r = CaseResult()
    seen = set()
    if real.build_error is not None:
        got_names = [str(a.name) for a in real.objs]
        clash = len(set(got_names)) < len(got_names)        # add_asset already handed out one name twice
        r.check("C02.no-crash", False, FN_ASSET if clash else real._stage,
                "building the language / a valid model raised %r (asset names so far: %s)" % (
                    real.build_error, got_names),
                "build:%s:%s%s" % (real._stage.split(".")[-1], type(real.build_error).__name__,
                                   ":asset-names-collide" if clash else ""))
        r.nontrivial_key = common.recipe_hash(recipe)
        return r
    objs = real.objs
    names = [str(a.name) for a in objs]
    collide = len(set(names)) < len(names)
    tag = ":asset-names-collide" if collide else ""
    steps_of = {T: L.steps(T) for T in set(mv.types)}
    expected = [(x, s) for x in range(mv.n) for s in steps_of[mv.types[x]]]
    # the assets' current defense values, read before generation
    current = {}
    for (x, s) in expected:
        if steps_of[mv.types[x]][s]["kind"] == "defense":
            given = mrec["assets"][x][3].get(s) if len(mrec["assets"][x]) > 3 and mrec["assets"][x][3] else None
            current[(x, s)] = (float(given), "set") if given is not None else (float(getattr(objs[x], s)), "default")

    st, g = real.generate([(e, [x]) for (x, s) in expected for e in
                           (steps_of[mv.types[x]][s]["exprs"] or []) + (steps_of[mv.types[x]][s]["requires"] or [])])
    if st == "skip":
        return r
    if st != "ok":
        b = None
        for (x, s) in expected:
            for e in steps_of[mv.types[x]][s]["requires"] or []:
                if st != "exc" and G.trans_fields(L, e):
                    b = G.nonterm_blame(real, mv, e, [x], st, g)
                elif st == "exc":
                    b = G.blame(real, mv, e, [x])
                if b: break
            if b: break
        r.check("C02.no-crash", False, FN_GEN if not b else FN_EVAL,
                "AttackGraph(lang, model) %s%s" % ("raised %r" % (g,) if st == "exc" else
                                                   "did not terminate within the guard (%s)" % G.describe(st, g),
                                                   "; " + b["msg"] if b else ""),
                "generate:" + (b["sig"] if b else G.describe(st, g)) + tag)
        r.nontrivial_key = common.recipe_hash(recipe)
        return r
    r.check("C02.no-crash", True, FN_GEN)

    # ---- exactly one node per (asset, step)
    by_pair = collections.defaultdict(list)
    strangers = 0
    for nd in g.nodes:
        k = next((j for j, a in enumerate(objs) if a is nd.asset), None)
        if k is None: strangers += 1
        else: by_pair[(k, nd.name)].append(nd)
    exp_set = set(expected)
    missing = sorted(exp_set - set(by_pair))
    extra = sorted(set(by_pair) - exp_set)
    dup = sorted(k for k, v in by_pair.items() if len(v) > 1)
    fmt = lambda ps: ["%s:%s" % (names[x], s) for (x, s) in ps]
    if missing: _report(r, seen, "C02.nodes.exact", FN_GEN, "no node for %s" % fmt(missing), "missing")
    if extra or strangers:
        _report(r, seen, "C02.nodes.exact", FN_GEN, "nodes for pairs the language does not define: %s (+%d nodes "
                "whose asset is not in the model)" % (fmt(extra), strangers), "extra")
    if dup: _report(r, seen, "C02.nodes.exact", FN_GEN, "several nodes for %s" % fmt(dup), "duplicate")
    if not (missing or extra or strangers or dup): r.check("C02.nodes.exact", True, FN_GEN)

    # ---- attributes
    for (x, s) in expected:
        if (x, s) not in by_pair: continue
        nd = by_pair[(x, s)][0]
        d = steps_of[mv.types[x]][s]
        where = "node %s:%s (type %s, resolved from the declaration on %s)" % (names[x], s, mv.types[x], d["from"])
        for attr, got, want in (("type", nd.type, d["kind"]), ("ttc", nd.ttc, G.TTC[d["ttc"]]),
                                ("tags", list(nd.tags) if nd.tags is not None else None, d["tags"]),
                                ("mitre", nd.mitre_info, d["mitre"])):
            if got != want:
                _report(r, seen, "C02.attrs", FN_FOLD, "%s: %s is %r, the resolved declaration says %r" % (
                    where, attr, got, want), "attr:" + attr)
            else:
                r.check("C02.attrs", True, FN_GEN)
        if d["kind"] == "defense":
            want, how = current[(x, s)]
            ok = nd.defense_status is not None and float(nd.defense_status) == want
            if ok: r.check("C02.defense-status", True, FN_GEN)
            else: _report(r, seen, "C02.defense-status", FN_GEN, "%s: defense_status %r, the asset's value is %r (%s)" % (
                where, nd.defense_status, want, how), "defense:" + how)
        if d["kind"] in ("exist", "notExist"):
            e = d["requires"][0]
            lo, hi = mv.sem(e, frozenset([x]))
            want = True if lo else False if not hi else None
            if want is None or nd.existence_status is want:
                r.check("C02.existence-status", True, FN_GEN)
            else:
                b = G.blame(real, mv, e, [x])
                _report(r, seen, "C02.existence-status", FN_NAV if b and b["op"] == "f" else FN_EVAL,
                        "%s: existence_status %r but the requirement %s reaches %s%s" % (
                            where, nd.existence_status, G.show(e), sorted(names[y] for y in hi) or "no asset",
                            "; " + b["msg"] if b else ""), "existence:" + (b["sig"] if b else "unlocalised"))

    state = {"names_bad": False}

    def check_ids_names(stage):
        pre = "" if not stage else stage + ":"
        ids = [nd.id for nd in g.nodes]
        ok = all(isinstance(i, int) and not isinstance(i, bool) for i in ids) and len(set(ids)) == len(ids)
        if ok: r.check("C02.ids-unique", True, FN_ADD)
        else: _report(r, seen, "C02.ids-unique", FN_ADD, "node ids are not pairwise distinct ints: %s" % sorted(
            ids, key=repr)[:12], pre + "ids")
        for nd in g.nodes:
            if g.get_node_by_id(nd.id) is not nd:
                _report(r, seen, "C02.lookup", FN_ADD, "get_node_by_id(%r) does not return the node %s with that id" % (
                    nd.id, nd.full_name), pre + "by-id")
            else: r.check("C02.lookup", True, FN_ADD)
        if stage and state["names_bad"]:
            return                       # already reported for the generated graph
        fns = collections.Counter(nd.full_name for nd in g.nodes)
        d2 = sorted(k for k, v in fns.items() if v > 1)
        if d2:
            state["names_bad"] = True
            _report(r, seen, "C02.fullnames", FN_ASSET if collide else FN_NAME,
                    "full names shared by several nodes: %s (asset names: %s)" % (d2[:6], names),
                    pre + "duplicate" + tag)
        else: r.check("C02.fullnames", True, FN_NAME)
        for nd in g.nodes:
            if g.get_node_by_full_name(nd.full_name) is not nd:
                state["names_bad"] = True
                _report(r, seen, "C02.lookup", FN_ASSET if collide else FN_ADD,
                        "get_node_by_full_name(%r) does not return that node (id %r)" % (nd.full_name, nd.id),
                        pre + "by-name" + tag)
            else: r.check("C02.lookup", True, FN_ADD)

    for (x, s), nds in by_pair.items():
        for nd in nds:
            if nd.full_name != names[x] + ":" + s:
                _report(r, seen, "C02.fullnames", FN_NAME, "full name %r of the node of asset %r, step %r" % (
                    nd.full_name, names[x], s), "format")
            else: r.check("C02.fullnames", True, FN_NAME)
    check_ids_names("")

    # ---- add_node with explicit ids keeps ids / names unique and the lookups exact
    if recipe.get("addnode") and g.nodes and all(isinstance(nd.id, int) for nd in g.nodes):
        fresh = max(nd.id for nd in g.nodes) + 5
        n2 = AttackGraphNode(type="and", name="x2"); n3 = AttackGraphNode(type="or", name="x3")
        try:
            g.add_node(n2, node_id=fresh); g.add_node(n3)
            r.check("C02.ids-unique", n2.id == fresh, FN_ADD, "add_node(node, node_id=%d) gave id %r" % (
                fresh, n2.id), "add_node:fresh-id:not-honoured")
        except Exception as ex:
            r.check("C02.no-crash", False, FN_ADD, "add_node with a fresh explicit id raised %r" % (ex,),
                    "add_node:fresh-id:" + type(ex).__name__)
        check_ids_names("add_node:fresh-id")
        used = g.nodes[len(g.nodes) // 2].id
        before = len(g.nodes)
        n1 = AttackGraphNode(type="or", name="x1")
        try:
            g.add_node(n1, node_id=used)
        except ValueError:
            if len(g.nodes) != before:
                _report(r, seen, "C02.nodes.exact", FN_ADD, "add_node raised ValueError but the node list changed",
                        "add_node:used-id:not-atomic")
        except Exception as ex:
            r.check("C02.no-crash", False, FN_ADD, "add_node(node, node_id=<id in use>) raised %r" % (ex,),
                    "add_node:used-id:" + type(ex).__name__)
        check_ids_names("add_node:used-id")

    if expected:
        r.nontrivial_key = common.recipe_hash(recipe)
    return r


if __name__ == "__main__":
    common.main(globals())
