"""
Bounded stand-in for C10 (saving and loading an attack graph preserves it).

Real code under test: AttackGraph.save_to_file / load_from_file (json, yml) and AttackGraph._to_dict / _from_dict,
AttackGraphNode.to_dict, Attacker.to_dict, on real graphs generated from a tiny MAL language + model or hand-built
without assets, after an operation history (attackers, analysis flags, pruning, extras, tags, ...).

Reference: the abstract view of the ORIGINAL graph read directly from the object attributes (lib_agser.view), i.e.
what the statement enumerates: per node id -> name, type, TTC, defense / existence status, viability, necessity,
MITRE info, tags (list of str), extras; edges as sets of id pairs; attackers as (id, name, entry points, reached
steps).  The loaded graph must have the same view with the declared python types.
"""
from __future__ import annotations
import itertools, random, sys, os, tempfile, shutil, json
sys.path.insert(0, os.path.dirname(os.path.abspath(__file__)))
import common
from common import CaseResult
import lib_agser as L

PROPERTY = "C10"
SCOPE = {
    "quick": "generated graphs: 2 tiny languages, 27 models of <=2 assets (<=4 nodes; names with space / colon / "
             "non-ascii; defense values; model attackers incl. two with one name) x every single history snippet and a "
             "seeded sample of ordered snippet pairs (31 snippets: attach, analyze, prune, False flags, removed nodes, "
             "extras, tags, attackers sharing a name, attacker with explicit id 0 / 5, compromise, remove attacker); "
             "hand-built graphs without assets: all graphs on <=2 nodes over 15 node variants x all edge sets (self loops "
             "included) x one of 5 attacker / removal histories in rotation (1-node graphs: all 5), + 1000 seeded random graphs of 3-4 nodes with random histories; "
             "each x {json file, yml file, _to_dict/_from_dict} x {model absent, model given}, + _from_dict of the same "
             "mapping with its entries listed in reverse order",
    "thorough": "same spaces; all ordered snippet pairs for generated graphs, all 5 histories for every hand-built graph on <=2 "
                "nodes, 40000 random hand-built graphs of 3-4 nodes",
}
EXHAUSTIVE = {"quick": False, "thorough": False}
RULE = ("case = (graph recipe, history, list of (format, model?) configurations); every configuration is one round trip "
        "whose result is compared field by field, with types, with the abstract view of the original; non-trivial when "
        "the graph has at least one node and one non-default feature (attacker, False flag, tag, extras, status, ttc, "
        "mitre, removed node); distinct = distinct abstract views of the saved graph")
ASSUMPTIONS = [
    "reference = attribute-level reading of the original graph (lib_agser.view), not to_dict",
    "full names of nodes are unique (W2) and edges are mirrored (W3) in the graphs that are saved",
    "extras / ttc values are JSON-representable (str keys; str, int, float, bool, None, list, dict values)",
    "entry point / reached lists carry no duplicates (compared as sets)",
    "the order in which a mapping lists its entries is immaterial (JSON objects / YAML mappings are unordered and "
    "yaml.dump re-orders them by key): configuration 'dict-reordered'",
    "operations of the history that the library refuses (raise) are skipped; the graph saved is whatever state the "
    "library left (a removed node still referenced by an attacker is library behaviour, defect ab)",
]
BUDGET_S = {"quick": 100, "thorough": 1500}
CHUNK = 40

FN_TODICT = "maltoolbox.attackgraph.attackgraph:AttackGraph._to_dict"
FN_FROMDICT = "maltoolbox.attackgraph.attackgraph:AttackGraph._from_dict"
FN_NODE_TODICT = "maltoolbox.attackgraph.node:AttackGraphNode.to_dict"
FN_ADD_ATTACKER = "maltoolbox.attackgraph.attackgraph:AttackGraph.add_attacker"
FN_REMOVE_NODE = "maltoolbox.attackgraph.attackgraph:AttackGraph.remove_node"

ALL_CONFIGS = [[f, m] for f in ("json", "yml", "dict") for m in (False, True)] + [["dict-reordered", False]]

EXTRAS = [
    {"reward": 1},
    {"reward": 1.5, "note": "True", "flag": False, "none": None, "lst": [1, "2", 3.0, [True]], "d": {"k": "v: w", "n": {}}},
    {"": "", "multi": "a\nb", "u": "é中", "hash": "# c", "num": "1e3", "tilde": "~", "yes": "yes"},
]

# ---------------------------------------------------------------------------------------------------
# generated graphs

def _models():
    out = []
    for names in (("a0", "b0"), ("App 1", "b:0"), ("é", "0")):
        n0, n1 = names
        for dv in (None, 0.0, 1.0, 0.5):
            d = {"d": dv} if dv is not None else {}
            if names == ("a0", "b0") or dv in (None, 1.0):
                out.append(("L0", {"assets": [["A", n0, None, d]]}))
            if dv is None:
                out.append(("L0", {"assets": [["B", n1, None]]}))
                out.append(("L0", {"assets": [["A", n0, None], ["B", n1, 7]]}))
                out.append(("L0", {"assets": [["B", n1, None], ["B", n0, None]]}))
            if names == ("a0", "b0") or dv == 1.0:
                out.append(("L0", {"assets": [["A", n0, None, d], ["B", n1, None]],
                                   "links": [["AB", "as", [0], "bs", [1]]]}))
    out.append(("L0", {"assets": [["A", "a0", None, {"d": 1.0}], ["A", "a1", None, {"d": 0.0}]]}))
    out.append(("L1", {"assets": [["A", "a0", None], ["B", "b0", None, {"d": 1.0}]], "links": [["AB", "as", [0], "bs", [1]]]}))
    out.append(("L1", {"assets": [["A", "a0", None], ["B", "b0", None]]}))
    out.append(("L1", {"assets": [["C", "c0", None], ["C", "c1", None]], "links": [["CC", "cs", [0], "cs2", [1]]]}))
    out.append(("L1", {"assets": [["C", "c0", 3]]}))
    out.append(("L1", {"assets": [["A", "a0", None], ["C", "c0", None]]}))
    return out


def _with_model_attackers(lang, m, k):
    """k: 0 none, 1 one attacker on the first step of asset 0, 2 two attackers sharing a name, 3 two named b / a"""
    first = {"L0": {"A": "s", "B": "t"}, "L1": {"A": "s", "B": "t", "C": "c"}}[lang]
    a = m["assets"]
    m = dict(m)
    if k == 1:
        m["attackers"] = [["att", None, [[0, [first[a[0][0]]]]]]]
    elif k == 2:
        m["attackers"] = [["x", None, [[0, [first[a[0][0]]]]]], ["x", None, [[len(a) - 1, [first[a[-1][0]]]]]]]
    elif k == 3:
        m["attackers"] = [["b", None, [[0, [first[a[0][0]]]]]], ["a", None, []]]
    return m


SNIPPETS = [
    [["attach"]],
    [["attach"], ["compromise", 0, 1]],
    [["analyze"]],
    [["analyze"], ["prune"]],
    [["flag", 0, "is_viable", False]],
    [["flag", 1, "is_necessary", False]],
    [["flag", 0, "is_viable", False], ["flag", 0, "is_necessary", False], ["prune"]],
    [["flag", 1, "is_viable", False], ["flag", 2, "is_viable", False], ["prune"]],
    [["remove", 0]],
    [["remove", 1]],
    [["extras", 0, EXTRAS[0]]],
    [["extras", 1, EXTRAS[1]]],
    [["extras", 0, EXTRAS[2]]],
    [["tags", 0, ["tg"]]],
    [["tags", 1, ["suppress", "a b", "it's", "True", "1", ""]]],
    [["tags", 0, []]],
    [["tag_append", 0, "added"]],
    [["attacker", "x", None, [0], [0]]],
    [["attacker", "x", None, [0], [0, 1]], ["attacker", "x", None, [1], [1]]],
    [["attacker", "x", None, [], []], ["attacker", "x", None, [], []]],
    [["attacker", "b", 0, [0], [0]], ["attacker", "a", None, [1], [1]]],
    [["attacker", "b", 5, [0], [0]], ["attacker", "a", None, [], [0]]],
    [["attacker", "b", None, [0], [0]], ["attacker", "a", None, [1], [1]], ["rm_attacker", 0]],
    [["attacker", "y", None, [0], [0]], ["compromise", 0, 1], ["undo", 0, 0]],
    [["attacker", "y", None, [1], [1]], ["remove", 1]],                      # removed node an attacker reached (ab)
    [["attacker", "y", None, [0], [0]], ["remove", 1]],
    [["status", 0, "existence_status", False]],
    [["status", 1, "defense_status", 0.25]],
    [["mitre", 0, "T1000.001"]],
    [["mitre", 1, ""]],
    [["ttc_set", 0, "note", "n"]],
]


def _gen_cases(tier, rnd):
    models = _models()
    for (lang, m) in models:
        for k in (0, 1, 2, 3):
            mm = _with_model_attackers(lang, m, k)
            base = {"kind": "gen", "lang": lang, "model": mm}
            hist = [[]] + [s for s in SNIPPETS]
            for h in hist:
                if k and not h:
                    continue
                if k and h[0][0] != "attach" and rnd.random() < 0.75:
                    continue                      # model attackers only matter after attach; keep a sample of the rest
                yield dict(base, ops=h)
            pairs = list(itertools.permutations(range(len(SNIPPETS)), 2))
            if tier == "quick":
                pairs = rnd.sample(pairs, 24 if k == 0 else 6)
            elif k:
                pairs = rnd.sample(pairs, 60)
            for (i, j) in pairs:
                yield dict(base, ops=SNIPPETS[i] + SNIPPETS[j])


# ---------------------------------------------------------------------------------------------------
# hand-built graphs (no assets)

VARIANTS = [
    {"type": "or"},
    {"type": "or", "viable": False},
    {"type": "and", "necessary": False, "ttc": "exp"},
    {"type": "and", "viable": False, "necessary": False, "tags": ["tg"]},
    {"type": "or", "tags": ["suppress", "x y"], "mitre": "T1078", "ttc": "sum"},
    {"type": "or", "extras": EXTRAS[1]},
    {"type": "and", "extras": EXTRAS[2], "tags": ["it's", ""]},
    {"type": "defense", "ds": 1.0, "ttc": "dis", "viable": False},
    {"type": "defense", "ds": 0.0, "ttc": "en", "necessary": False, "tags": ["suppress"]},
    {"type": "defense", "ds": 0.5, "ttc": "exp", "mitre": "M1"},
    {"type": "exist", "es": True, "necessary": False},
    {"type": "exist", "es": False, "viable": False},
    {"type": "notExist", "es": True, "viable": False, "extras": EXTRAS[0]},
    {"type": "notExist", "es": False, "necessary": False, "ttc": "none"},
    {"type": "or", "ttc": "en", "mitre": "", "extras": {"reward": 0}},
]
NAMES = ["n", "step one", "n", "x:y"]        # equal names are fine: full name of an asset-less node is '<id>:<name>'

HAND_HISTORIES = [
    [],
    [["attacker", "x", None, [0], [0]], ["attacker", "x", None, [], [1]]],
    [["attacker", "b", 0, [0], [0, 1]], ["attacker", "a", None, [1], []], ["flag", 0, "is_viable", False]],
    [["attacker", "y", 3, [0], [0]], ["compromise", 3, 1], ["remove", 1]],
    [["attacker", "y", None, [], []], ["remove", 0], ["add_node", {"type": "or", "name": "new", "tags": ["t"]}, [1], [1]]],
]


def _hand_nodes(vs):
    return [dict(VARIANTS[v], name=NAMES[i % len(NAMES)]) for i, v in enumerate(vs)]


def _hand_cases(tier, rnd):
    cnt = 0
    for n in (1, 2):
        pairs = [(i, j) for i in range(n) for j in range(n)]
        for vs in itertools.product(range(len(VARIANTS)), repeat=n):
            for mask in range(1 << len(pairs)):
                edges = [list(pairs[k]) for k in range(len(pairs)) if mask >> k & 1]
                reps = (0,) if (tier == "quick" and n == 2) else range(len(HAND_HISTORIES))
                for r in reps:
                    yield {"kind": "hand", "nodes": _hand_nodes(vs), "edges": edges,
                           "ops": HAND_HISTORIES[(cnt + r) % len(HAND_HISTORIES)]}
                cnt += 1
    count = 1000 if tier == "quick" else 40000
    for _ in range(count):
        n = rnd.randint(3, 4)
        vs = [rnd.randrange(len(VARIANTS)) for _ in range(n)]
        dens = rnd.choice((0.15, 0.3, 0.6))
        edges = [[i, j] for i in range(n) for j in range(n) if rnd.random() < dens]
        ops = []
        for _k in range(rnd.randint(0, 4)):
            c = rnd.random()
            ids = list(range(n))
            if c < 0.4:
                ops.append(["attacker", rnd.choice(["x", "x", "y", "b", "a"]), rnd.choice([None, None, None, 0, 5]),
                            sorted(rnd.sample(ids, rnd.randint(0, 2))), sorted(rnd.sample(ids, rnd.randint(0, 3)))])
            elif c < 0.5:
                ops.append(["remove", rnd.randrange(n)])
            elif c < 0.6:
                ops.append(["compromise", rnd.randrange(3), rnd.randrange(n)])
            elif c < 0.7:
                ops.append(["flag", rnd.randrange(n), rnd.choice(["is_viable", "is_necessary"]), rnd.random() < 0.5])
            elif c < 0.8:
                ops.append(["rm_attacker", rnd.randrange(3)])
            elif c < 0.9:
                ops.append(["tags", rnd.randrange(n), rnd.choice([["a"], ["suppress", "b c"], []])])
            else:
                ops.append(rnd.choice([["analyze"], ["prune"], ["extras", rnd.randrange(n), rnd.choice(EXTRAS)]]))
        yield {"kind": "hand", "nodes": _hand_nodes(vs), "edges": edges, "ops": ops}


def cases(tier, seed):
    rnd = random.Random(seed)
    for g in _gen_cases(tier, rnd):
        yield {"graph": g, "configs": ALL_CONFIGS}
    for g in _hand_cases(tier, rnd):
        yield {"graph": g, "configs": ALL_CONFIGS}


# ---------------------------------------------------------------------------------------------------

def _roundtrip(g, fmt, model, tmpdir):
    from maltoolbox.attackgraph import AttackGraph
    if fmt in ("dict", "dict-reordered"):
        d = g._to_dict()
        if fmt == "dict-reordered":               # same mapping, entries listed in the opposite order (yaml.dump reorders too)
            d = {k: dict(reversed(list(v.items()))) for k, v in d.items()}
        return AttackGraph._from_dict(d, model=model) if model is not None else AttackGraph._from_dict(d)
    p = os.path.join(tmpdir, "g." + fmt)
    g.save_to_file(p)
    return AttackGraph.load_from_file(p, model=model) if model is not None else AttackGraph.load_from_file(p)


def _tname(x):
    return type(x).__name__


def _edges(v, key):
    """set of (parent id, child id) read from the children lists (key='children') or the parents lists"""
    out = set()
    for i, nd in v["nodes"].items():
        for j in nd[key]:
            out.add((i, j) if key == "children" else (j, i))
    return out


def _att_key(a):
    return (a["id"], a["name"], tuple(sorted(set(a["entry"]))), tuple(sorted(set(a["reached"]))))


def compare(r, v0, g2, model, cfg):
    """clauses of the statement, original view v0 against the loaded graph g2"""
    tag = "%s/%s" % (cfg[0], "model" if cfg[1] else "nomodel")
    v1 = L.view(g2)
    n0, n1 = v0["nodes"], v1["nodes"]
    ids_ok = set(n0) == set(n1) and all(type(i) is int for i in n1) and len(v1["order"]) == len(n1)
    r.check("C10.nodes.ids", ids_ok, FN_FROMDICT,
            "[%s] node ids %s -> %s" % (tag, sorted(n0), sorted(n1, key=str)),
            "ids:" + ("type" if set(map(str, n0)) == set(map(str, n1)) else "set"))
    common_ids = [i for i in n0 if i in n1]
    for i in common_ids:
        a, b = n0[i], n1[i]
        for f in ("name", "type"):
            r.check("C10.nodes.scalars", type(b[f]) is str and b[f] == str(a[f]), FN_FROMDICT,
                    "[%s] node %s %s: %r -> %r" % (tag, i, f, a[f], b[f]), f)
        r.check("C10.nodes.scalars", L.typed_eq(L.plain(a["ttc"]), b["ttc"]), FN_FROMDICT,
                "[%s] node %s ttc: %r -> %r" % (tag, i, a["ttc"], b["ttc"]), "ttc")
        em = None if a["mitre_info"] is None else str(a["mitre_info"])
        r.check("C10.nodes.scalars", (b["mitre_info"] is None) if em is None else (type(b["mitre_info"]) is str and b["mitre_info"] == em),
                FN_FROMDICT, "[%s] node %s mitre_info: %r -> %r" % (tag, i, a["mitre_info"], b["mitre_info"]),
                "mitre:%s->%s" % (_tname(a["mitre_info"]), _tname(b["mitre_info"])))
        ed = None if a["defense_status"] is None else float(L.plain(a["defense_status"]))
        r.check("C10.nodes.status", (b["defense_status"] is None) if ed is None else (type(b["defense_status"]) is float and b["defense_status"] == ed),
                FN_FROMDICT, "[%s] node %s defense_status: %r -> %r" % (tag, i, ed, b["defense_status"]),
                "defense_status:->%s" % _tname(b["defense_status"]))
        ee = a["existence_status"]
        r.check("C10.nodes.status", (b["existence_status"] is None) if ee is None else (type(b["existence_status"]) is bool and b["existence_status"] == bool(ee)),
                FN_FROMDICT, "[%s] node %s existence_status: %r -> %r" % (tag, i, ee, b["existence_status"]),
                "existence_status:->%s" % _tname(b["existence_status"]))
        for f in ("is_viable", "is_necessary"):
            r.check("C10.nodes.flags", type(b[f]) is bool and b[f] == bool(a[f]), FN_FROMDICT,
                    "[%s] node %s %s: %r -> %r" % (tag, i, f, a[f], b[f]), "%s:%s->%r" % (f, a[f], b[f]))
        et = [str(t) for t in a["tags"]]
        r.check("C10.nodes.tags", type(b["tags"]) is list and all(type(t) is str for t in b["tags"]) and b["tags"] == et,
                FN_NODE_TODICT, "[%s] node %s tags: %r -> %r" % (tag, i, et, b["tags"]),
                "tags:list->%s" % _tname(b["tags"]))
        r.check("C10.nodes.extras", L.typed_eq(L.plain(a["extras"]), b["extras"]), FN_FROMDICT,
                "[%s] node %s extras: %r -> %r" % (tag, i, a["extras"], b["extras"]), "extras")
    # edges, both directions of the mirrored representation
    if ids_ok:
        for key in ("children", "parents"):
            e0, e1 = _edges(v0, key), _edges(v1, key)
            r.check("C10.edges", e0 == e1, FN_FROMDICT, "[%s] edges read from %s lists: %s -> %s" % (tag, key, sorted(e0), sorted(e1, key=str)),
                    "edges:" + key)
    # attackers
    a0 = sorted(map(_att_key, v0["attackers"]), key=str)
    a1 = sorted(map(_att_key, v1["attackers"]), key=str)
    names0 = [a["name"] for a in v0["attackers"]]
    same_name = len(set(names0)) < len(names0)
    if len(a0) != len(a1):
        sig, fn = "attackers:lost" + (":same-name" if same_name else ""), FN_TODICT
    elif [a[0] for a in a0] != [a[0] for a in a1]:
        sig, fn = "attackers:id-changed" + (":id0" if 0 in [a[0] for a in a0] else ""), FN_ADD_ATTACKER
    else:
        sig, fn = "attackers:content", FN_FROMDICT
    ok = a0 == a1 and all(type(a["id"]) is int and type(a["name"]) is str for a in v1["attackers"])
    r.check("C10.attackers", ok, fn, "[%s] attackers (id, name, entry, reached): %s -> %s" % (tag, a0, a1), sig)
    if ok and ids_ok:
        in_graph = {a[0] for a in a0}                 # node-side mirror of 'reached steps', attackers of the graph only
        c0 = {i: sorted(set(n0[i]["compromised_by"]) & in_graph) for i in n0}
        c1 = {i: sorted(set(n1[i]["compromised_by"]) & in_graph) for i in n1}
        r.check("C10.attackers", c0 == c1, FN_FROMDICT, "[%s] per-node compromising attacker ids: %s -> %s" % (tag, c0, c1),
                "attackers:compromised_by")
    # asset binding
    if model is not None:
        by_name = {}
        for a in model.assets:
            by_name.setdefault(str(a.name), []).append(a)
        okb = g2.model is model
        msg = "" if okb else "graph.model is not the supplied model"
        for n in g2.nodes:
            want = n0.get(n.id, {}).get("asset")
            if want is None:
                if n.asset is not None: okb, msg = False, "node %s had no asset, loaded one has" % n.id
            else:
                c = by_name.get(want, [])
                if len(c) != 1 or n.asset is not c[0]:
                    okb, msg = False, "node %s: asset is not the model asset named %r" % (n.id, want)
        r.check("C10.asset-binding", okb, FN_FROMDICT, "[%s] %s" % (tag, msg), "binding:model")
    else:
        bad = [n.id for n in g2.nodes if n.asset is not None]
        r.check("C10.asset-binding", not bad and g2.model is None, FN_FROMDICT, "[%s] nodes %s carry an asset without model" % (tag, bad),
                "binding:nomodel")


def features(v):
    f = set()
    for nd in v["nodes"].values():
        if nd["is_viable"] is False or nd["is_necessary"] is False: f.add("flagF")
        if nd["tags"]: f.add("tags")
        if nd["extras"]: f.add("extras")
        if nd["defense_status"] is not None or nd["existence_status"] is not None: f.add("status")
        if nd["ttc"] is not None: f.add("ttc")
        if nd["mitre_info"] is not None: f.add("mitre")
    if v["attackers"]: f.add("attackers")
    if v["nodes"] and sorted(v["nodes"]) != list(range(len(v["nodes"]))): f.add("gaps")
    return f


def run_case(recipe):
    grec = recipe["graph"]
    b = L.build_graph(grec)
    g = b.graph
    r = CaseResult()
    tmpdir = tempfile.mkdtemp(prefix="c10_")
    try:
        for cfg in recipe["configs"]:
            fmt, with_model = cfg
            v0 = L.view(g)
            node_ids = set(v0["nodes"])
            dangling = any(i not in node_ids for a in v0["attackers"] for i in a["entry"] + a["reached"])
            model = L.fresh_model_for(grec) if with_model else None
            try:
                g2 = _roundtrip(g, fmt, model, tmpdir)
            except RecursionError as e:
                r.check("C10.loads", False, FN_FROMDICT, "[%s] RecursionError" % fmt, "raises:RecursionError")
                continue
            except Exception as e:
                id0 = (not dangling) and isinstance(e, ValueError) and "already in use" in str(e) \
                    and 0 in [a["id"] for a in v0["attackers"]]
                r.check("C10.loads", False, FN_REMOVE_NODE if dangling else FN_ADD_ATTACKER if id0 else FN_FROMDICT,
                        "[%s/%s] %s: %s" % (fmt, with_model, type(e).__name__, str(e)[:200]),
                        "raises:%s%s" % (type(e).__name__, ":attacker-references-removed-node" if dangling
                                         else ":attacker-id0-reassigned" if id0 else ""))
                continue
            r.check("C10.loads", True, FN_FROMDICT)
            compare(r, v0, g2, model, cfg)
        vfin = L.view(g)
        if vfin["nodes"] and features(vfin):
            r.nontrivial_key = L.view_hash(vfin)
    finally:
        shutil.rmtree(tmpdir, ignore_errors=True)
    return r


if __name__ == "__main__":
    common.main(globals())
