"""
Bounded stand-in for C13 (pruning removes exactly the non-viable or unnecessary 'or'/'and' steps).

Real code under test: maltoolbox.attackgraph.analyzers.apriori.prune_unviable_and_unnecessary_nodes (and, through it,
AttackGraph.remove_node) on real AttackGraph / AttackGraphNode / Attacker objects built by hand.
Reference: the set comprehension of the property statement (survivors = nodes that are not an 'or'/'and' step with a
False label), evaluated on the recipe, never on the code's output.
"""
from __future__ import annotations
import itertools, random, sys, os
sys.path.insert(0, os.path.dirname(os.path.abspath(__file__)))
import common
from common import CaseResult
import lib_aghist as L

PROPERTY = "C13"
FN = "maltoolbox.attackgraph.analyzers.apriori:prune_unviable_and_unnecessary_nodes"
FN_RM = "maltoolbox.attackgraph.attackgraph:AttackGraph.remove_node"
SCOPE = {
    "quick": "every labelled graph on <=3 nodes: node variants {or, and} x 4 (is_viable, is_necessary) labels + defense x "
             "{(T,T),(F,F)} + (n<=2) exist/notExist with a False label; every edge set incl. self loops (2^(n*n)); plus double "
             "edges on n<=2; every node order is covered by the labelling; attacker variants: none / one attacker having "
             "reached a subset of the nodes (all subsets for n<=2; for n=3: none on every graph, all-nodes on 8 "
             "representative edge sets per labelling); "
             "+ 4000 seeded random graphs of 4-6 nodes with double edges and two attackers",
    "thorough": "as quick, all attacker subsets on n=3, + every labelling of 4 nodes that has a prunable node x 20 seeded random edge sets x random attacker subset, + 150000 "
                "random graphs of 4-8 nodes",
}
EXHAUSTIVE = {"quick": True, "thorough": False}
RULE = ("case = (node variants in node-list order, edge bag, reached sets of the attackers); non-trivial when the "
        "reference removes at least one node; distinct = distinct (variants, edges, attackers)")
ASSUMPTIONS = ["survivor set computed from the recipe by the comprehension in the property statement",
               "graphs are built by hand (AttackGraphNode + AttackGraph.add_node, mirrored edges, add_attacker)",
               "wf_graph = clauses W1..W5 of DESIGN.md section 3.1, membership by identity"]
BUDGET_S = {"quick": 100, "thorough": 1500}
CHUNK = 500

OA = [(t, v, n) for t in ("or", "and") for (v, n) in ((True, True), (False, True), (True, False), (False, False))]
VARS3 = OA + [("defense", True, True), ("defense", False, False)]
VARS2 = VARS3 + [("exist", False, True), ("notExist", True, False), ("defense", True, False)]


def _m3(*pairs):
    return sum(1 << (i * 3 + j) for (i, j) in pairs)


# edge sets on 3 nodes that are combined with an attacker in the quick tier (the attacker only matters to the
# detaching of a removed node from its attackers, which does not look at edges)
ATT3_MASKS = {0, 511, _m3((0, 0), (1, 1), (2, 2)), _m3((0, 1), (1, 2)), _m3((2, 1), (1, 0)), _m3((0, 1), (1, 2), (2, 0)),
              _m3((0, 2), (2, 2)), _m3((1, 0), (1, 2), (1, 1))}


def prunable(v):
    return v[0] in ("or", "and") and (not v[1] or not v[2])


def cases(tier, seed):
    rnd = random.Random(seed)
    for n in (1, 2, 3):
        variants = VARS2 if n <= 2 else VARS3
        pairs = [(i, j) for i in range(n) for j in range(n)]
        if n <= 2 or tier == "thorough":
            amasks = list(range(1 << n))
        else:
            amasks = [0, (1 << n) - 1]
        for vs in itertools.product(variants, repeat=n):
            nodes = [list(v) for v in vs]
            for mask in range(1 << len(pairs)):
                edges = [list(pairs[k]) for k in range(len(pairs)) if mask >> k & 1]
                for am in amasks:
                    if am and n == 3 and tier == "quick" and mask not in ATT3_MASKS:
                        continue
                    yield {"nodes": nodes, "edges": edges,
                           "att": [[i for i in range(n) if am >> i & 1]] if am else []}
                if n >= 2 and (n <= 2 or mask in ATT3_MASKS or tier == "thorough"):
                    # node list not sorted by id (ids assigned explicitly, descending), as after loading a file
                    yield {"nodes": nodes, "edges": edges, "att": [], "ids": list(range(n - 1, -1, -1))}
                    # an attacker whose entry point is not among its reached steps (compromise undone / explicit add)
                    for e in range(n):
                        yield {"nodes": nodes, "edges": edges, "att": [[]], "att_entry": [[e]]}
                        if n <= 2:
                            yield {"nodes": nodes, "edges": edges, "att": [[(e + 1) % n]], "att_entry": [[e]]}
                if n <= 2 and edges:
                    # double edges: every chosen pair twice
                    yield {"nodes": nodes, "edges": edges + edges, "att": [list(range(n))]}
                    yield {"nodes": nodes, "edges": edges + edges, "att": []}
    if tier == "thorough":
        pairs = [(i, j) for i in range(4) for j in range(4)]
        for vs in itertools.product(VARS3, repeat=4):
            if not any(prunable(v) for v in vs):
                continue
            for _ in range(20):                      # 20 random edge sets (of 65536) per labelling
                mask = rnd.getrandbits(16) & rnd.getrandbits(16) if rnd.random() < 0.5 else rnd.getrandbits(16)
                edges = [list(pairs[k]) for k in range(16) if mask >> k & 1]
                am = rnd.getrandbits(4)
                yield {"nodes": [list(v) for v in vs], "edges": edges,
                       "att": [[i for i in range(4) if am >> i & 1]] if am else []}
    count, hi = (4000, 6) if tier == "quick" else (150000, 8)
    for _ in range(count):
        n = rnd.randint(4, hi)
        nodes = [list(rnd.choice(VARS2)) for _ in range(n)]
        dens = rnd.choice((0.1, 0.25, 0.5))
        edges = []
        for i in range(n):
            for j in range(n):
                if rnd.random() < dens:
                    edges.append([i, j])
                    if rnd.random() < 0.15:
                        edges.append([i, j])
        att = []
        for _a in range(rnd.choice((0, 1, 2))):
            att.append(sorted(rnd.sample(range(n), rnd.randint(0, min(3, n)))))
        rec = {"nodes": nodes, "edges": edges, "att": att}
        if att and rnd.random() < 0.5:
            rec["att_entry"] = [sorted(rnd.sample(range(n), rnd.randint(0, min(2, n)))) for _ in att]
        if rnd.random() < 0.4:
            ids = list(range(n)); rnd.shuffle(ids)
            rec["ids"] = [10 * i for i in ids]
        yield rec


def _key(recipe):
    return "%s|%s|%s" % (" ".join(v[0][0] + "FT"[v[1]] + "FT"[v[2]] for v in recipe["nodes"]),
                         "".join("%d%d" % (p, c) for (p, c) in recipe["edges"]),
                         ";".join("".join(map(str, a)) for a in recipe["att"]))


def run_case(recipe):
    from maltoolbox.attackgraph.analyzers.apriori import prune_unviable_and_unnecessary_nodes
    from collections import Counter
    r = CaseResult()
    nodes_rec = [tuple(v) for v in recipe["nodes"]]
    n = len(nodes_rec)
    spec = {"nodes": [[v[0], v[1], v[2], (1.0 if not v[1] else 0.5) if v[0] == "defense" else True] for v in nodes_rec],
            "edges": recipe["edges"],
            "attackers": [["atk%d" % k, (recipe["att_entry"][k] if recipe.get("att_entry") else reached[:1]), reached]
                          for k, reached in enumerate(recipe["att"])]}
    if recipe.get("ids"):
        spec["ids"] = recipe["ids"]
    g, nodes, atts = L.build_hand(spec)
    pre = L.wf_detail(g)
    if pre:
        raise RuntimeError("harness: start graph not well-formed: %r" % (pre,))
    status0 = [(nd.type, nd.is_viable, nd.is_necessary, nd.defense_status, nd.existence_status) for nd in nodes]
    ebag = Counter((p, c) for (p, c) in recipe["edges"])

    # reference (from the statement)
    survivors = [i for i in range(n) if not prunable(nodes_rec[i])]
    removed = [i for i in range(n) if prunable(nodes_rec[i])]

    try:
        prune_unviable_and_unnecessary_nodes(g)
    except Exception as e:
        r.check("C13.no-crash", False, FN, "%s: %s" % (type(e).__name__, e), "raises:" + type(e).__name__)
        if removed:
            r.nontrivial_key = _key(recipe)
        return r
    r.check("C13.no-crash", True, FN)

    # clause 1: no prunable or/and step remains
    ok = True
    for i in removed:
        if L.has(g.nodes, nodes[i]):
            ok = False
            adj = i > 0 and prunable(nodes_rec[i - 1])
            linked = any(((i, j) in ebag or (j, i) in ebag) and j != i for j in removed)
            r.check("C13.removed", False, FN,
                    "node %d %s is still in the graph after pruning (list neighbour before it prunable: %s)" % (
                        i, nodes_rec[i], adj),
                    "prunable-survives:%s" % ("after-prunable-neighbour-in-list" if adj else
                                              ("linked-to-prunable" if linked else "other")))
    if ok:
        r.check("C13.removed", True, FN)
    for nd in g.nodes:
        if not L.has(nodes, nd):
            r.check("C13.removed", False, FN, "a node that was not in the graph appeared", "foreign-node")

    # clause 2: every other node remains, labels unchanged, edges among survivors untouched
    ok = True
    for i in survivors:
        if L.count_is(g.nodes, nodes[i]) != 1:
            ok = False
            r.check("C13.kept", False, FN, "node %d %s should survive pruning but is not in the graph (exactly once)" % (
                i, nodes_rec[i]), "survivor-missing:" + nodes_rec[i][0])
        nd = nodes[i]
        if (nd.type, nd.is_viable, nd.is_necessary, nd.defense_status, nd.existence_status) != status0[i]:
            ok = False
            r.check("C13.kept", False, FN, "labels of surviving node %d changed" % i, "labels-changed")
    for i in survivors:
        for j in survivors:
            if L.count_is(nodes[i].children, nodes[j]) != ebag.get((i, j), 0) or \
               L.count_is(nodes[j].parents, nodes[i]) != ebag.get((i, j), 0):
                ok = False
                r.check("C13.kept", False, FN_RM, "edge %d->%d between survivors changed multiplicity" % (i, j),
                        "edge-between-survivors-changed")
    if ok:
        r.check("C13.kept", True, FN)

    # clause 3: the remaining graph is well-formed (C09)
    wf = L.wf_detail(g)
    if not wf:
        r.check("C13.wf", True, FN_RM)
    for (cl, det) in wf:
        hit = any(i in removed for reached in recipe["att"] for i in reached)
        r.check("C13.wf", False, FN_RM if cl in ("W4", "W5") else FN, "%s: %s" % (cl, det),
                "%s:%s%s" % (cl, det, ":attacker-reached-pruned-node" if hit and cl in ("W4", "W5") else ""))
    # lookups through the public API for every original id / name
    ids0 = recipe.get("ids") or list(range(n))
    for i in range(n):
        want = nodes[i] if L.has(g.nodes, nodes[i]) else None      # consistency with what IS in the graph
        ok1 = g.get_node_by_id(ids0[i]) is want
        ok2 = g.get_node_by_full_name("%d:n%d" % (ids0[i], i)) is want
        r.check("C13.lookup", ok1 and ok2, FN_RM, "lookup of node %d after pruning: by id ok=%s by name ok=%s" % (i, ok1, ok2),
                "lookup-" + ("present" if want is not None else "removed"))
    if removed:
        r.nontrivial_key = _key(recipe)
    return r


if __name__ == "__main__":
    common.main(globals())
