"""
Shared plumbing for the native bounded floors (run under /venv/bin/python, PYTHONPATH=/repo).

A floor is one file native/floor_<ID>.py that defines

    PROPERTY = "C08"
    SCOPE    = {"quick": "...", "thorough": "..."}        # the bound, in words
    RULE     = "how cases are enumerated and what makes one non-trivial"
    ASSUMPTIONS = [...]
    def cases(tier, seed):           # generator of JSON-serialisable recipes (dict/list/str/int/float/bool/None)
    def run_case(recipe):            # builds REAL maltoolbox objects from the recipe, runs the REAL functions,
                                     # evaluates the property's clauses against an independent reference;
                                     # returns CaseResult (see below). Must be deterministic in `recipe`.
and ends with
    if __name__ == "__main__": common.main(globals())

Clause names are  "<PROP>.<short-name>"  e.g. "C08.gfp.viable"; each failure also names the repository
function held responsible ("maltoolbox.attackgraph.analyzers.apriori:calculate_viability_and_necessity").
"""
from __future__ import annotations
import argparse, hashlib, json, os, sys, time, traceback, faulthandler, logging, multiprocessing, itertools

logging.disable(logging.CRITICAL)          # the repo logs a lot; logging has no effect on state (assumption LOG)


class CaseResult:
    """Outcome of one case.
    clauses  : dict clause-name -> True (held) / False (violated)   (every clause evaluated on this case)
    nontrivial_key : hashable/str or None. None = trivial case (outcome equals that of the empty/default input).
                     Otherwise a string identifying the *behaviour class* of the case; distinct keys are counted.
    failures : list of (clause, function, message, signature) for the violated clauses.
               signature: a short stable string describing the failure pattern independent of sizes/names where
               possible (used to match known findings); defaults to the clause name.
    """
    __slots__ = ("clauses", "nontrivial_key", "failures", "id_events")

    def __init__(self):
        self.id_events = []
        self.clauses = {}
        self.nontrivial_key = None
        self.failures = []

    def check(self, clause, ok, function, message="", signature=None):
        ok = bool(ok)
        prev = self.clauses.get(clause, True)
        self.clauses[clause] = prev and ok
        if not ok:
            self.failures.append((clause, function, str(message)[:500], signature or clause))
        return ok


def recipe_hash(recipe) -> str:
    return hashlib.sha256(json.dumps(recipe, sort_keys=True, default=str).encode()).hexdigest()[:12]


def recipe_size(recipe) -> int:
    return len(json.dumps(recipe, sort_keys=True, default=str))


def _worker_init(modname, path):
    logging.disable(logging.CRITICAL)
    sys.setrecursionlimit(3000)


_G = {}


def _run_chunk(args):
    modpath, chunk = args
    g = _G.get(modpath)
    if g is None:
        import importlib.util
        spec = importlib.util.spec_from_file_location("floor_mod", modpath)
        mod = importlib.util.module_from_spec(spec)
        sys.modules["floor_mod"] = mod
        spec.loader.exec_module(mod)
        g = _G[modpath] = mod
    out = []
    for recipe in chunk:
        try:
            r = g.run_case(recipe)
            out.append((recipe, r.clauses, r.nontrivial_key, r.failures, None))
        except RecursionError as e:      # a floor must catch what the property allows; this is a harness error
            out.append((recipe, {}, None, [], "RecursionError in harness: " + repr(e)[:200]))
        except Exception as e:
            out.append((recipe, {}, None, [], "harness exception: " + "".join(traceback.format_exception_only(type(e), e))[:300]
                        + " @ " + traceback.format_exc()[-600:]))
    return out


def chunked(it, n):
    it = iter(it)
    while True:
        c = list(itertools.islice(it, n))
        if not c:
            return
        yield c


def _kill_pool(pool):
    if pool is None:
        return
    try:
        # stop the pool's maintenance thread from re-populating the pool with fresh workers while we kill them
        import multiprocessing.pool as _mpp
        try:
            pool._worker_handler._state = _mpp.TERMINATE
            pool._state = _mpp.TERMINATE
        except Exception:
            pass
        for p in list(getattr(pool, '_pool', [])):
            try:
                p.kill()
            except Exception:
                pass
    except Exception:
        pass


def main(g):
    ap = argparse.ArgumentParser()
    ap.add_argument("--tier", default=os.environ.get("VERIF_TIER", "quick"), choices=["quick", "thorough"])
    ap.add_argument("--seed", type=int, default=int(os.environ.get("VERIF_SEED", "0") or 0))
    ap.add_argument("--out", default=None)
    ap.add_argument("--replay", default=None, help="replay file (json with key 'recipe')")
    ap.add_argument("--jobs", type=int, default=int(os.environ.get("VERIF_JOBS", "0") or 0))
    ap.add_argument("--max-seconds", type=float, default=0.0)
    a = ap.parse_args()
    faulthandler.enable()
    sys.setrecursionlimit(3000)
    prop = g["PROPERTY"]
    modpath = os.path.abspath(g["__file__"])

    if a.replay:
        doc = json.load(open(a.replay))
        recipe = doc["recipe"]
        r = g["run_case"](recipe)
        bad = [c for c, ok in r.clauses.items() if not ok]
        print("replay of", a.replay)
        print("recipe:", json.dumps(recipe)[:2000])
        for (clause, fn, msg, sig) in r.failures:
            print("  clause %s is FALSE on the real code (%s): %s" % (clause, fn, msg))
        if not bad:
            print("  all %d clauses hold on this tree" % len(r.clauses))
        sys.exit(1 if bad else 0)

    t0 = time.time()
    budget = a.max_seconds or (g.get("BUDGET_S", {"quick": 90, "thorough": 900})[a.tier])
    jobs = a.jobs or min(16, os.cpu_count() or 1)
    clause_stats = {}
    keys = set()
    evaluations = 0
    failures = {}        # (clause, signature) -> smallest failing (size, recipe, function, message, count)
    harness_errors = []
    samples = []
    truncated = False
    gen = g["cases"](a.tier, a.seed)
    chunk_n = g.get("CHUNK", 200)
    if jobs > 1 and not g.get("SERIAL", False):
        ctx = multiprocessing.get_context("fork")
        pool = ctx.Pool(jobs, initializer=_worker_init, initargs=("", ""))
        results = pool.imap_unordered(_run_chunk, ((modpath, c) for c in chunked(gen, chunk_n)))
    else:
        pool = None
        _G[modpath] = type("M", (), {"run_case": staticmethod(g["run_case"])})
        results = (_run_chunk((modpath, c)) for c in chunked(gen, chunk_n))
    try:
        for out in results:
            for (recipe, clauses, key, fails, err) in out:
                evaluations += 1
                if err:
                    if len(harness_errors) < 5:
                        harness_errors.append({"recipe": recipe, "error": err})
                    continue
                if len(samples) < 3 or (key is not None and len(samples) < 6 and evaluations % 97 == 0):
                    samples.append(recipe)
                if key is not None:
                    keys.add(key if isinstance(key, str) else json.dumps(key, sort_keys=True, default=str))
                for c, ok in clauses.items():
                    st = clause_stats.setdefault(c, [0, 0])
                    st[0] += 1
                    st[1] += 0 if ok else 1
                for (clause, fn, msg, sig) in fails:
                    k = (clause, sig)
                    sz = recipe_size(recipe)
                    cur = failures.get(k)
                    if cur is None:
                        failures[k] = [sz, recipe, fn, msg, 1]
                    else:
                        cur[4] += 1
                        if sz < cur[0] or (sz == cur[0] and json.dumps(recipe, sort_keys=True) < json.dumps(cur[1], sort_keys=True)):
                            cur[0], cur[1], cur[2], cur[3] = sz, recipe, fn, msg
            if time.time() - t0 > budget:
                truncated = True
                break
    except BaseException:
        _kill_pool(pool)
        raise
    res = {
        "property": prop, "tier": a.tier, "seed": a.seed,
        "scope": g["SCOPE"][a.tier], "exhaustive": bool(g.get("EXHAUSTIVE", {}).get(a.tier, False)) and not truncated,
        "truncated_by_budget": truncated,
        "evaluations": evaluations, "distinct_nontrivial": len(keys), "rule": g["RULE"],
        "samples": samples[:6],
        "clauses": {c: {"evaluated": s[0], "failed": s[1]} for c, s in sorted(clause_stats.items())},
        "failures": [
            {"clause": k[0], "signature": k[1], "function": v[2], "recipe": v[1], "message": v[3], "count": v[4],
             "key": hashlib.sha256((k[0] + "|" + k[1]).encode()).hexdigest()[:10]}
            for k, v in sorted(failures.items())],
        "harness_errors": harness_errors,
        "assumptions": g.get("ASSUMPTIONS", []),
        "wall_s": round(time.time() - t0, 2),
    }
    if a.out:
        with open(a.out, "w") as f:
            json.dump(res, f, indent=1, default=str)
    else:
        json.dump(res, sys.stdout, indent=1, default=str)
        print()
    print("floor %s tier=%s evaluations=%d distinct_nontrivial=%d failures=%d harness_errors=%d wall=%.1fs%s" % (
        prop, a.tier, evaluations, len(keys), len(failures), len(harness_errors), time.time() - t0,
        " (truncated by budget)" if truncated else ""), file=sys.stderr)
    code = 3 if harness_errors else 0
    sys.stdout.flush(); sys.stderr.flush()
    if pool is not None:
        # Pool.terminate()/join() can deadlock when a worker is killed while writing a large result (budget cut):
        # the result file is already written, so kill the workers and leave without the pool's tear-down.
        _kill_pool(pool)
        os._exit(code)
    sys.exit(code)
