"""
Shared helpers of the compiler floors (C04, C17).  Trusted harness code, written from mal.g4 and the MAL language
rules -- NOT from mal_visitor.py (only the *layout* of the output dict was read off the visitor / the .mar format):

  langspec = {"formatVersion": "1.0.0", "defines": {k: str}, "categories": [{"name", "meta"}],
              "assets": [{"name", "meta", "category", "isAbstract", "superAsset", "variables": [{"name",
                          "stepExpression"}], "attackSteps": [{"name", "meta", "type", "tags", "risk", "ttc",
                          "requires", "reaches"}]}],
              "associations": [{"name", "meta", "leftAsset", "leftField", "leftMultiplicity": {"min", "max"},
                                "rightAsset", "rightField", "rightMultiplicity"}]}
  step type   : or | and | defense | exist | notExist            (source: |  &  #  E  !E)
  risk        : None | {"isConfidentiality", "isIntegrity", "isAvailability"}  (at least one True: `{}` is not MAL)
  ttc         : None | {"type": "function", "name", "arguments": [float]} | {"type": "number", "value": float}
                | {"type": addition|subtraction|multiplication|division|exponentiation, "lhs", "rhs"}
  requires    : None | {"overrides": True, "stepExpressions": [expr]}          (every name a field)
  reaches     : None | {"overrides": bool ('->' True, '+>' False), "stepExpressions": [expr]}
  expr        : {"type": field|attackStep|variable, "name"} | {"type": collect|union|intersection|difference, "lhs",
                "rhs"} | {"type": "transitive", "stepExpression"} | {"type": "subType", "subType", "stepExpression"}
  multiplicity: {"min": int, "max": int|None}    source: n -> (n,n); * -> (0,None); a..b -> (a,b); a..* -> (a,None)

(1) generator of specifications in this format, (2) printer spec -> MAL text with MINIMAL parenthesisation,
(3) source layouts (include trees), (4) structural comparison, (5) grammar oracle (real lexer/parser + counting
error listeners) and token-level mutation for C17.
"""
from __future__ import annotations
import copy, hashlib, json, os, random, shutil, tempfile, zipfile, logging
from decimal import Decimal

logging.disable(logging.CRITICAL)

# =====================================================================================================
# names

# words the lexer does not deliver as ID (mal.g4): keywords and the single letters E C I A
RESERVED = {"abstract", "asset", "associations", "extends", "include", "category", "info", "let", "E", "C", "I", "A"}


def ok_name(n: str) -> bool:
    """an ID of the grammar ([a-zA-Z0-9_]+) that is lexed as ID in every position the printer puts it:
    not reserved, does not start with a digit (after '.', '.5x' would be lexed FLOAT ID)"""
    return bool(n) and n not in RESERVED and not n[0].isdigit() and all(c.isalnum() and c.isascii() or c == "_" for c in n)


# tricky but legal identifiers (contain keywords / start with the reserved letters / underscores / digits inside)
TRICKY = ["assetx", "letter", "info2", "Easy", "CIA", "Ex", "A1", "_x", "x_1", "a9", "E1", "C2", "I3", "A4", "EE",
          "includes", "categoryOf", "abstract_", "extendsTo", "associations2", "e", "c", "i", "a", "AA", "x0_"]
assert all(ok_name(n) for n in TRICKY)

# =====================================================================================================
# constructors (expressions / ttc)

def field(n): return {"type": "field", "name": n}
def astep(n): return {"type": "attackStep", "name": n}
def var(n): return {"type": "variable", "name": n}
def binop(t, l, r): return {"type": t, "lhs": l, "rhs": r}
def trans(e): return {"type": "transitive", "stepExpression": e}
def sub(t, e): return {"type": "subType", "subType": t, "stepExpression": e}
def fn(name, *args): return {"type": "function", "name": name, "arguments": [float(a) for a in args]}
def num(v): return {"type": "number", "value": float(v)}

SETOPS = {"union": "\\/", "intersection": "/\\", "difference": "-"}
TTC_ADD = {"addition": "+", "subtraction": "-"}
TTC_MUL = {"multiplication": "*", "division": "/"}
STEP_SYMBOL = {"or": "|", "and": "&", "defense": "#", "exist": "E", "notExist": "!E"}


def mk_step(name, type="or", tags=(), risk=None, ttc=None, meta=None, requires=None, reaches=None, overrides=True):
    return {"name": name, "meta": dict(meta or {}), "type": type, "tags": list(tags), "risk": risk, "ttc": ttc,
            "requires": None if requires is None else {"overrides": True, "stepExpressions": list(requires)},
            "reaches": None if reaches is None else {"overrides": bool(overrides), "stepExpressions": list(reaches)}}


def mk_risk(c=False, i=False, a=False):
    return {"isConfidentiality": bool(c), "isIntegrity": bool(i), "isAvailability": bool(a)}


def mk_asset(name, category="Cat", abstract=False, sup=None, meta=None, variables=(), steps=()):
    return {"name": name, "meta": dict(meta or {}), "category": category, "isAbstract": bool(abstract),
            "superAsset": sup, "variables": [{"name": n, "stepExpression": e} for (n, e) in variables],
            "attackSteps": list(steps)}


def mk_assoc(name, left, lfield, lmult, right, rfield, rmult, meta=None):
    return {"name": name, "meta": dict(meta or {}), "leftAsset": left, "leftField": lfield,
            "leftMultiplicity": {"min": lmult[0], "max": lmult[1]}, "rightAsset": right, "rightField": rfield,
            "rightMultiplicity": {"min": rmult[0], "max": rmult[1]}}


def mk_spec(assets, associations=(), categories=None, defines=None):
    cats = categories
    if cats is None:
        seen = []
        for a in assets:
            if a["category"] not in seen:
                seen.append(a["category"])
        cats = [{"name": c, "meta": {}} for c in seen]
    return {"formatVersion": "1.0.0", "defines": dict(defines or {"id": "org.verif.comp", "version": "0.0.1"}),
            "categories": list(cats), "assets": list(assets), "associations": list(associations)}


# =====================================================================================================
# printer  (spec -> MAL text), minimal parenthesisation
#
# expr   : parts (setop parts)*          all three set operators on ONE level, left-associative
# parts  : part ('.' part)*              left-associative, binds tighter than the set operators
# part   : ( '(' expr ')' | ID '(' ')' | ID ) '*'? ('[' ID ']')*
#          => subType chains and a transitive directly under them are suffixes of one part: no parentheses
# ttcexpr: term (('+'|'-') term)* ; term: fact (('*'|'/') fact)* ; fact: atom ('^' atom)?   (no chain of '^')

class Style:
    """spelling choices that do not change the denotation; drawn from a seed (0 = canonical)"""

    def __init__(self, seed=0):
        r = random.Random(seed)
        z = seed == 0
        self.fn_parens = False if z else r.random() < 0.5        # Enabled  vs  Enabled()
        self.int_as_float = False if z else r.random() < 0.3     # 2  vs  2.0
        self.mult_long = False if z else r.random() < 0.4        # 1 vs 1..1 ; * vs 0..*
        self.compact = False if z else r.random() < 0.3          # few blanks
        self.comments = False if z else r.random() < 0.3         # // and /* */ comments between declarations
        self.vars_last = False if z else r.random() < 0.3        # variables after the steps / interleaved
        self.cia_shuffle = False if z else r.random() < 0.5      # {A, C} / repeated letters
        self.split_runs = 0 if z else r.choice((0, 0, 1, 2))     # 0: one block per category run; 1: one block per
        #                                                          asset; 2: random cut
        self.assoc_blocks = 0 if z else r.choice((0, 0, 1, 2))   # 0: one associations block; 1: one per association;
        #                                                          2: random cut
        self.rnd = r


def fmt_num(x, style=None):
    """decimal literal of the grammar (INT | FLOAT = [0-9]* '.' [0-9]+) that reads back as exactly x"""
    x = float(x)
    assert x >= 0 and x == x and x != float("inf")
    if x == int(x) and x < 1e15:
        s = str(int(x))
        return s + ".0" if (style is not None and style.int_as_float) else s
    s = repr(x)
    if "e" in s or "E" in s:
        s = format(Decimal(s), "f")
    assert float(s) == x
    return s


def p_ttc(e, level=1, style=None):
    """level: 1 expression, 2 term, 3 factor, 4 atom. Parenthesise iff the node's own level is lower."""
    t = e["type"]
    if t in TTC_ADD:
        s, mine = "%s %s %s" % (p_ttc(e["lhs"], 1, style), TTC_ADD[t], p_ttc(e["rhs"], 2, style)), 1
    elif t in TTC_MUL:
        s, mine = "%s %s %s" % (p_ttc(e["lhs"], 2, style), TTC_MUL[t], p_ttc(e["rhs"], 3, style)), 2
    elif t == "exponentiation":
        s, mine = "%s ^ %s" % (p_ttc(e["lhs"], 4, style), p_ttc(e["rhs"], 4, style)), 3
    elif t == "function":
        args = e["arguments"]
        if args or (style is not None and style.fn_parens):
            s = "%s(%s)" % (e["name"], ", ".join(fmt_num(a, style) for a in args))
        else:
            s = e["name"]
        mine = 4
    elif t == "number":
        s, mine = fmt_num(e["value"], style), 4
    else:
        raise ValueError("not a ttc node: %r" % (t,))
    return s if mine >= level else "(" + s + ")"


def p_expr(e):
    if e["type"] in SETOPS:
        return "%s %s %s" % (p_expr(e["lhs"]), SETOPS[e["type"]], p_parts(e["rhs"]))
    return p_parts(e)


def p_parts(e):
    if e["type"] == "collect":
        return "%s.%s" % (p_parts(e["lhs"]), p_part(e["rhs"]))
    return p_part(e)


def p_part(e):
    types = []
    while e["type"] == "subType":
        types.append(e["subType"])
        e = e["stepExpression"]
    types.reverse()                      # innermost subType is written first
    star = False
    if e["type"] == "transitive":
        star = True
        e = e["stepExpression"]
    if e["type"] in ("field", "attackStep"):
        base = e["name"]
    elif e["type"] == "variable":
        base = e["name"] + "()"
    else:
        base = "(" + p_expr(e) + ")"
    return base + ("*" if star else "") + "".join("[%s]" % t for t in types)


def p_string(s):
    assert '"' not in s, "the grammar has no escape for a double quote inside STRING"
    return '"' + s + '"'


def p_meta(meta, sep=" "):
    return "".join("%s%s info: %s" % (sep, k, p_string(v)) for k, v in meta.items())


def p_mult(m, style=None):
    lo, hi = m["min"], m["max"]
    long_ = style is not None and style.mult_long
    if hi is None:
        if lo == 0:
            return style.rnd.choice(("0..*", "*..*")) if long_ else "*"
        return "%d..*" % lo
    if lo == hi:
        return "%d..%d" % (lo, hi) if long_ else "%d" % lo
    return "%d..%d" % (lo, hi)


def p_cias(risk, style=None):
    letters = [l for (l, k) in (("C", "isConfidentiality"), ("I", "isIntegrity"), ("A", "isAvailability")) if risk[k]]
    assert letters, "a CIA clause with no letter is not MAL"
    if style is not None and style.cia_shuffle:
        if style.rnd.random() < 0.3:
            letters.append(style.rnd.choice(letters))        # a repeated letter denotes the same set
        style.rnd.shuffle(letters)
    return "{" + ", ".join(letters) + "}"


def p_step(s, style=None, ind="    "):
    out = ind + STEP_SYMBOL[s["type"]] + " " + s["name"]
    for t in s["tags"]:
        out += " @" + t
    if s["risk"] is not None:
        out += " " + p_cias(s["risk"], style)
    if s["ttc"] is not None:
        out += " [" + p_ttc(s["ttc"], 1, style) + "]"
    out += p_meta(s["meta"], "\n" + ind + "  ")
    if s["requires"] is not None:
        assert s["requires"]["overrides"] is True
        out += "\n" + ind + "  <- " + (",\n" + ind + "     ").join(p_expr(e) for e in s["requires"]["stepExpressions"])
    if s["reaches"] is not None:
        out += "\n" + ind + ("  -> " if s["reaches"]["overrides"] else "  +> ") + \
               (",\n" + ind + "     ").join(p_expr(e) for e in s["reaches"]["stepExpressions"])
    return out


def p_asset(a, style=None, ind="  "):
    head = ind + ("abstract " if a["isAbstract"] else "") + "asset " + a["name"]
    if a["superAsset"] is not None:
        head += " extends " + a["superAsset"]
    head += p_meta(a["meta"], "\n" + ind + "  ")
    vs = [ind + "  let %s = %s" % (v["name"], p_expr(v["stepExpression"])) for v in a["variables"]]
    ss = [p_step(s, style, ind + "  ") for s in a["attackSteps"]]
    if style is not None and style.vars_last:
        # interleave, keeping the relative order inside each list (the output keeps two separate lists)
        body, i, j = [], 0, 0
        while i < len(vs) or j < len(ss):
            if j < len(ss) and (i >= len(vs) or style.rnd.random() < 0.6):
                body.append(ss[j]); j += 1
            else:
                body.append(vs[i]); i += 1
    else:
        body = vs + ss
    return head + " {\n" + "".join(b + "\n" for b in body) + ind + "}"


def p_assoc(x, style=None, ind="  "):
    return "%s%s [%s] %s <-- %s --> %s [%s] %s%s" % (
        ind, x["leftAsset"], x["leftField"], p_mult(x["leftMultiplicity"], style), x["name"],
        p_mult(x["rightMultiplicity"], style), x["rightField"], x["rightAsset"], p_meta(x["meta"], "\n" + ind + "    "))


def _cuts(n, mode, rnd):
    """partition range(n) into contiguous chunks"""
    if n == 0:
        return []
    if mode == 0:
        return [list(range(n))]
    if mode == 1:
        return [[i] for i in range(n)]
    out, cur = [], []
    for i in range(n):
        cur.append(i)
        if rnd.random() < 0.5:
            out.append(cur); cur = []
    if cur:
        out.append(cur)
    return out


def print_decls(spec, style=None):
    """list of top-level declarations (text) whose concatenation in order denotes `spec`"""
    style = style or Style(0)
    assert spec["formatVersion"] == "1.0.0"
    decls = []
    for k, v in spec["defines"].items():
        decls.append("#%s: %s" % (k, p_string(v)))
    # A category may be declared again with OTHER meta information: every such declaration is a further entry of
    # `categories` (entries are de-duplicated as wholes, so no two entries are equal); assets name their category only,
    # they are printed under the first declaration of that name.
    cats = {}
    for c in spec["categories"]:
        cats.setdefault(c["name"], c)
    redeclared = len(cats) != len(spec["categories"])
    assert all(c1 != c2 for i, c1 in enumerate(spec["categories"]) for c2 in spec["categories"][:i]), \
        "no two equal category entries in the output format"
    # runs of consecutive assets of one category
    runs = []
    for a in spec["assets"]:
        assert a["category"] in cats
        if runs and runs[-1][0] == a["category"]:
            runs[-1][1].append(a)
        else:
            runs.append((a["category"], [a]))
    first_seen = []
    for c, _ in runs:
        if c not in first_seen:
            first_seen.append(c)
    def block(cname, assets, meta=None):
        return "category %s%s {\n%s}" % (cname, p_meta(cats[cname]["meta"] if meta is None else meta, "\n  "),
                                         "".join(p_asset(a, style) + "\n" for a in assets))
    if redeclared or first_seen != [c["name"] for c in spec["categories"]]:
        # categories without assets, listed in another order than their first asset, or declared again with other
        # meta: fix the entries and their order with empty blocks
        for c in spec["categories"]:
            decls.append(block(c["name"], [], c["meta"]))
    for cname, assets in runs:
        for chunk in _cuts(len(assets), style.split_runs, style.rnd):
            decls.append(block(cname, [assets[i] for i in chunk]))
    assocs = spec["associations"]
    for chunk in _cuts(len(assocs), style.assoc_blocks, style.rnd):
        decls.append("associations {\n%s}" % "".join(p_assoc(assocs[i], style) + "\n" for i in chunk))
    if style.compact:
        decls = [_compact(d) for d in decls]
    return decls


def _compact(text):
    """collapse white space outside strings (every token boundary the printer relies on keeps one blank)"""
    out, in_str, prev_blank = [], False, False
    for ch in text:
        if ch == '"':
            in_str = not in_str
        if not in_str and ch in " \n\t":
            if not prev_blank:
                out.append(" ")
            prev_blank = True
        else:
            out.append(ch); prev_blank = False
    return "".join(out)


COMMENTS = ["// a comment with \"quotes\" and category asset { } \n", "/* block\n comment } ) -> */\n", "//\n"]


def join_decls(texts, style=None):
    out = []
    for i, t in enumerate(texts):
        if style is not None and style.comments and style.rnd.random() < 0.5:
            out.append(style.rnd.choice(COMMENTS))
        out.append(t + "\n")
    return "".join(out)


def print_spec(spec, style=None):
    return join_decls(print_decls(spec, style), style)


# =====================================================================================================
# layouts: how the declarations are distributed over files
#
# layout = {"kind": str, "ordered": bool, "files": [[relative path, [item...]]...]}   files[0] is the root
# item   = ["d", i]  (declaration i)  |  ["inc", "path as written in the include"]
# `ordered`: expanding the includes in place (dropping repeated declarations after their first occurrence) yields the
# declarations in their original order -> the result must be identical including list order; otherwise the three
# top-level lists are compared as multisets.

LAYOUT_KINDS = ["single", "one", "two", "subdir", "subdir-deep", "repeat", "chain", "diamond", "subdir-nested",
                "permuted", "root-only-includes"]


# layouts in which the SAME include string, written in files of different directories, denotes DIFFERENT files
# (an include is relative to the directory of the file that contains it, as in malc).  Every one of them also provides,
# at the place the string would denote relative to the root, a file holding the declarations of all files of that name
# (see the assumption on 'subdir-nested': which of the two readings holds is not fixed by the property; `ordered` is
# True only if both readings give the declarations in their original order).
LAYOUT_KINDS_SAMENAME = ["samename-dirs", "samename-dirs-tail", "samename-deep", "samename-repeat", "samename-three",
                         "samename-rootdir"]


def _segments_pref(n, k, rnd, prefer):
    """k contiguous segments covering range(n); the segments listed in `prefer` are non-empty whenever n allows"""
    sizes = [0] * k
    for p in prefer[:n]:
        sizes[p] = 1
    for _ in range(n - sum(sizes)):
        sizes[rnd.randrange(k)] += 1
    out, at = [], 0
    for z in sizes:
        out.append(list(range(at, at + z))); at += z
    return out


def _make_layout_samename(kind, n, rnd):
    I = lambda p: [["inc", p]]
    if kind in ("samename-dirs", "samename-repeat", "samename-deep"):
        # main: s0 | <a/mod: s1, own leaf: s2> | <b/mod: own leaf: s3, s4> | s5
        s = _segments_pref(n, 6, rnd, [2, 3])
        if kind == "samename-deep":
            da, db = rnd.sample(["x", "y_1", "net/core", "sub"], 2)
            ma, mb, leaf = da + "/m.mal", db + "/n.mal", rnd.choice(("sub/leaf.mal", "inc/deeper/leaf_1.mal"))
        else:
            da, db = rnd.choice((("a", "b"), ("compute", "network"), ("sub", "sub/deeper")))
            ma, mb, leaf = da + "/mod.mal", db + "/mod.mal", rnd.choice(("assoc.mal", "part.mal"))
        root = D(s[0]) + I(ma) + I(mb) + D(s[5])
        if kind == "samename-repeat":
            root = D(s[0]) + I(ma) + I(mb) + I(ma) + (I(mb) if rnd.random() < 0.5 else []) + D(s[5])
        return {"kind": kind, "ordered": True, "files": [
            ["main.mal", root], [ma, D(s[1]) + I(leaf)], [da + "/" + leaf, D(s[2])],
            [mb, I(leaf) + D(s[4])], [db + "/" + leaf, D(s[3])], [leaf, D(s[2]) + D(s[3])]]}
    if kind == "samename-dirs-tail":
        # both modules include their own leaf after their declarations (root-relative reading: another order)
        s = _segments_pref(n, 6, rnd, [2, 4])
        return {"kind": kind, "ordered": False, "files": [
            ["main.mal", D(s[0]) + I("compute/module.mal") + I("network/module.mal") + D(s[5])],
            ["compute/module.mal", D(s[1]) + I("assoc.mal")], ["compute/assoc.mal", D(s[2])],
            ["network/module.mal", D(s[3]) + I("assoc.mal")], ["network/assoc.mal", D(s[4])],
            ["assoc.mal", D(s[2]) + D(s[4])]]}
    if kind == "samename-three":
        s = _segments_pref(n, 7, rnd, [2, 4, 6])
        dirs = ["a", "b", "c/d"]
        files = [["main.mal", D(s[0]) + [x for d in dirs for x in I(d + "/mod.mal")]]]
        for i, d in enumerate(dirs):
            files.append([d + "/mod.mal", D(s[1 + 2 * i]) + I("part.mal")])
            files.append([d + "/part.mal", D(s[2 + 2 * i])])
        files.append(["part.mal", D(s[2]) + D(s[4]) + D(s[6])])
        return {"kind": kind, "ordered": False, "files": files}
    if kind == "samename-rootdir":
        # "lib/x.mal" written in a/mod.mal is a/lib/x.mal, written in main.mal it is lib/x.mal (which, for the
        # root-relative reading, starts with the declarations of a/lib/x.mal)
        s = _segments_pref(n, 5, rnd, [2, 3])
        return {"kind": kind, "ordered": True, "files": [
            ["main.mal", D(s[0]) + I("a/mod.mal") + I("lib/x.mal") + D(s[4])],
            ["a/mod.mal", D(s[1]) + I("lib/x.mal")], ["a/lib/x.mal", D(s[2])], ["lib/x.mal", D(s[2]) + D(s[3])]]}
    raise ValueError(kind)


def _segments(n, k, rnd):
    """k contiguous (possibly empty) segments covering range(n)"""
    cuts = sorted(rnd.randint(0, n) for _ in range(k - 1))
    b = [0] + cuts + [n]
    return [list(range(b[i], b[i + 1])) for i in range(k)]


def D(idx):
    return [["d", i] for i in idx]


def make_layout(kind, n, seed=0):
    rnd = random.Random(seed)
    if kind == "single":
        return {"kind": kind, "ordered": True, "files": [["main.mal", D(range(n))]]}
    if kind in LAYOUT_KINDS_SAMENAME:
        return _make_layout_samename(kind, n, rnd)
    if kind in ("one", "subdir", "subdir-deep", "repeat"):
        s0, s1, s2 = _segments(n, 3, rnd)
        p = {"one": "b.mal", "repeat": "b.mal", "subdir": "sub/b.mal", "subdir-deep": "sub/deeper/b_1.mal"}[kind]
        root = D(s0) + [["inc", p]] + D(s2)
        if kind == "repeat":
            root = D(s0) + [["inc", p]] + ([["inc", p]] if rnd.random() < 0.5 else []) + D(s2) + [["inc", p]]
        return {"kind": kind, "ordered": True, "files": [["main.mal", root], [p, D(s1)]]}
    if kind == "two":
        s = _segments(n, 5, rnd)
        p2 = rnd.choice(("c.mal", "sub/c.mal"))
        return {"kind": kind, "ordered": True, "files": [
            ["main.mal", D(s[0]) + [["inc", "b.mal"]] + D(s[2]) + [["inc", p2]] + D(s[4])],
            ["b.mal", D(s[1])], [p2, D(s[3])]]}
    if kind == "root-only-includes":
        s = _segments(n, 2, rnd)
        return {"kind": kind, "ordered": True, "files": [
            ["main.mal", [["inc", "b.mal"], ["inc", "c.mal"]]], ["b.mal", D(s[0])], ["c.mal", D(s[1])]]}
    if kind == "chain":
        s = _segments(n, 5, rnd)
        return {"kind": kind, "ordered": True, "files": [
            ["main.mal", D(s[0]) + [["inc", "b.mal"]] + D(s[4])],
            ["b.mal", D(s[1]) + [["inc", "c.mal"]] + D(s[3])], ["c.mal", D(s[2])]]}
    if kind == "diamond":
        s = _segments(n, 6, rnd)      # s0 | d | b | s3 | c | s5
        return {"kind": kind, "ordered": True, "files": [
            ["main.mal", D(s[0]) + [["inc", "b.mal"]] + D(s[3]) + [["inc", "c.mal"]] + D(s[5])],
            ["b.mal", [["inc", "d.mal"]] + D(s[2])], ["c.mal", [["inc", "d.mal"]] + D(s[4])], ["d.mal", D(s[1])]]}
    if kind == "subdir-nested":
        # sub/b.mal includes "c.mal": whether that means sub/c.mal (relative to the including file, as in malc) or
        # c.mal next to the root is not fixed by the property; both exist with the same content.
        s = _segments(n, 4, rnd)
        return {"kind": kind, "ordered": True, "files": [
            ["main.mal", D(s[0]) + [["inc", "sub/b.mal"]] + D(s[3])],
            ["sub/b.mal", D(s[1]) + [["inc", "c.mal"]]], ["sub/c.mal", D(s[2])], ["c.mal", D(s[2])]]}
    if kind == "permuted":
        s = _segments(n, 3, rnd)
        return {"kind": kind, "ordered": False, "files": [
            ["main.mal", [["inc", "b.mal"]] + D(s[2]) + D(s[0])], ["b.mal", D(s[1])]]}
    raise ValueError(kind)


def layout_files(decl_texts, layout, style=None):
    """{relative path: text}"""
    files = {}
    for path, items in layout["files"]:
        parts = []
        for it in items:
            if it[0] == "d":
                parts.append(decl_texts[it[1]])
            else:
                parts.append("include " + p_string(it[1]))
        files[path] = join_decls(parts, style)
    return files


def write_files(files, root_dir):
    for rel, text in files.items():
        p = os.path.join(root_dir, *rel.split("/"))
        os.makedirs(os.path.dirname(p), exist_ok=True)
        with open(p, "w", encoding="utf-8") as f:
            f.write(text)


def compile_files(files, root="main.mal", via_language_graph=False):
    """run the REAL compiler on a fresh temp dir; returns ("ok", dict) or ("exc", exception)"""
    from maltoolbox.language.compiler import MalCompiler
    d = tempfile.mkdtemp(prefix="comp_")
    try:
        write_files(files, d)
        path = os.path.join(d, root)
        try:
            if via_language_graph:
                from maltoolbox.language import LanguageGraph
                return ("ok", LanguageGraph.from_mal_spec(path)._lang_spec)
            return ("ok", MalCompiler().compile(path))
        except RecursionError as e:
            return ("exc", e)
        except Exception as e:                      # noqa: BLE001 - every exception type is an observation here
            return ("exc", e)
    finally:
        shutil.rmtree(d, ignore_errors=True)


# =====================================================================================================
# comparison

def deep_diff(exp, got, path="", _depth=0):
    """first difference (path, expected, got) or None. dict key order is irrelevant; list order matters; bool is not
    a number; int and float compare by value (JSON does not distinguish 2 and 2.0)."""
    if _depth > 120:
        return (path[:80] + "...", "<finite tree>", "<deeper than 120 levels / cyclic>")
    if isinstance(exp, dict) or isinstance(got, dict):
        if not (isinstance(exp, dict) and isinstance(got, dict)):
            return (path, _short(exp), _short(got))
        for k in exp:
            if k not in got:
                return (path + "." + str(k), _short(exp[k]), "<missing key>")
        for k in got:
            if k not in exp:
                return (path + "." + str(k), "<no such key>", _short(got[k]))
        for k in exp:
            d = deep_diff(exp[k], got[k], path + "." + str(k), _depth + 1)
            if d:
                return d
        return None
    if isinstance(exp, list) or isinstance(got, list):
        if not (isinstance(exp, list) and isinstance(got, list)):
            return (path, _short(exp), _short(got))
        for i, (a, b) in enumerate(zip(exp, got)):
            d = deep_diff(a, b, path + "[%d]" % i, _depth + 1)
            if d:
                return d
        if len(exp) != len(got):
            return (path + ".length", len(exp), len(got))
        return None
    if isinstance(exp, bool) or isinstance(got, bool) or exp is None or got is None or isinstance(exp, str) \
            or isinstance(got, str):
        return None if (type(exp) is type(got) and exp == got) else (path, _short(exp), _short(got))
    return None if exp == got else (path, _short(exp), _short(got))


def _short(x):
    try:
        s = json.dumps(x, default=str)
    except (ValueError, RecursionError):
        s = "<cyclic %s>" % type(x).__name__
    return s if len(s) < 160 else s[:157] + "..."


def unordered(spec):
    """the three top-level lists as sorted lists of canonical JSON (comparison modulo declaration order)"""
    out = dict(spec)
    for k in ("categories", "assets", "associations"):
        try:
            out[k] = sorted(spec.get(k, []), key=lambda x: json.dumps(x, sort_keys=True))
        except (ValueError, RecursionError):          # cyclic output of a broken compiler: leave as is
            out[k] = list(spec.get(k, []))
    return out


def generic_path(path):
    """drop list indices and the lhs/rhs tail, keep the attribute that differs"""
    out, skip = [], False
    for part in path.replace("[", ".[").split("."):
        if not part or part.startswith("["):
            continue
        if part in ("lhs", "rhs", "stepExpression", "stepExpressions"):
            continue
        out.append(part)
    return ".".join(out)


def names_in_order(e):
    """leaves (type, name) of an expression in textual order"""
    t = e["type"]
    if t in ("field", "attackStep", "variable"):
        return [(t, e["name"])]
    if t in ("transitive", "subType"):
        return names_in_order(e["stepExpression"])
    return names_in_order(e["lhs"]) + names_in_order(e["rhs"])


def classification_violations(compiled):
    """the clause 'last component of a reaches expression is an attackStep and every other name a field' evaluated
    on the compiler's output alone (variable calls are not names of fields/steps and may stand anywhere but last)"""
    try:
        return _classification_violations(compiled)
    except RecursionError:
        return ["expression tree is cyclic / too deep"]


def _classification_violations(compiled):
    bad = []
    for a in compiled.get("assets", []):
        for v in a["variables"]:
            for (t, n) in names_in_order(v["stepExpression"]):
                if t == "attackStep":
                    bad.append("let %s.%s: %s is an attackStep" % (a["name"], v["name"], n))
        for s in a["attackSteps"]:
            if s["requires"]:
                for e in s["requires"]["stepExpressions"]:
                    for (t, n) in names_in_order(e):
                        if t == "attackStep":
                            bad.append("requires of %s.%s: %s is an attackStep" % (a["name"], s["name"], n))
            if s["reaches"]:
                for e in s["reaches"]["stepExpressions"]:
                    ns = names_in_order(e)
                    if ns[-1][0] != "attackStep":
                        bad.append("reaches of %s.%s: last component %s is %s" % (a["name"], s["name"], ns[-1][1], ns[-1][0]))
                    for (t, n) in ns[:-1]:
                        if t == "attackStep":
                            bad.append("reaches of %s.%s: inner %s is an attackStep" % (a["name"], s["name"], n))
    return bad


# =====================================================================================================
# generator

class Names:
    def __init__(self, rnd):
        self.rnd = rnd
        self.used = set()
        self.k = 0

    def fresh(self, prefix):
        if self.rnd.random() < 0.12:
            c = self.rnd.choice(TRICKY)
            if c not in self.used:
                self.used.add(c)
                return c
        self.k += 1
        n = "%s%d" % (prefix, self.k)
        self.used.add(n)
        return n


META_STRINGS = ["", "x", "Specifies the hardware on which applications can run.", "with, comma; colon: and {braces} [x]",
                "keywords asset category let info E C I A -> +> <- // not a comment", "/* not a comment */ 'single'",
                "line one\nline two", "tab\there  trailing blank ", "unicode: é ü ∀ → ≤", "back\\slash \\/ /\\", "#id: 1..* <-- L -->"]
META_KEYS = ["user", "developer", "modeler", "note_1", "User"]
DISTS = [("Exponential", 1), ("Bernoulli", 1), ("Gamma", 2), ("LogNormal", 2), ("Uniform", 2), ("Enabled", 0),
         ("Disabled", 0), ("Infinity", 0), ("Zero", 0), ("EasyAndCertain", 0), ("TruncatedNormal", 2), ("Custom3", 3)]
NUMS = [0.0, 1.0, 2.0, 3.0, 10.0, 0.1, 0.5, 0.25, 1.5, 100.0, 0.001, 12.75, 0.00005, 123456.0]
MULTS = [(0, None), (1, 1), (0, 1), (1, None), (2, 5), (0, 0), (3, 3), (2, None), (0, 7), (10, 20)]


def gen_meta(rnd, p=0.4):
    m = {}
    if rnd.random() < p:
        for k in rnd.sample(META_KEYS, rnd.choice((1, 1, 2, 3))):
            m[k] = rnd.choice(META_STRINGS)
    return m


def gen_dist(rnd):
    name, n = rnd.choice(DISTS)
    return fn(name, *[rnd.choice(NUMS) for _ in range(n)])


def gen_ttc(rnd, depth):
    if depth <= 0 or rnd.random() < 0.3:
        return gen_dist(rnd) if rnd.random() < 0.7 else num(rnd.choice(NUMS))
    op = rnd.choice(["addition", "subtraction", "multiplication", "division", "multiplication", "division",
                     "exponentiation"])
    return binop(op, gen_ttc(rnd, depth - 1), gen_ttc(rnd, depth - 1))


def gen_expr(rnd, depth, fields, variables, types):
    """field-valued expression (no attack step)"""
    if depth <= 0 or rnd.random() < 0.25:
        if variables and rnd.random() < 0.25:
            return var(rnd.choice(variables))
        return field(rnd.choice(fields))
    k = rnd.random()
    if k < 0.3:
        return binop("collect", gen_expr(rnd, depth - 1, fields, variables, types), gen_expr(rnd, depth - 1, fields, variables, types))
    if k < 0.6:
        return binop(rnd.choice(list(SETOPS)), gen_expr(rnd, depth - 1, fields, variables, types),
                     gen_expr(rnd, depth - 1, fields, variables, types))
    if k < 0.8:
        return trans(gen_expr(rnd, depth - 1, fields, variables, types))
    return sub(rnd.choice(types), gen_expr(rnd, depth - 1, fields, variables, types))


def gen_reach(rnd, depth, fields, variables, types, steps):
    s = astep(rnd.choice(steps))
    if depth <= 0 or rnd.random() < 0.25:
        return s
    e = gen_expr(rnd, depth - 1, fields, variables, types)
    if rnd.random() < 0.1:
        # right-nested tail  a.(b.step): the step is still the last component of the text
        return binop("collect", e, binop("collect", gen_expr(rnd, max(depth - 2, 0), fields, variables, types), s))
    return binop("collect", e, s)


def gen_spec(seed, size=2, depth=4, shared_names=False):
    """random specification; size 1..3 scales the number of categories / assets / steps / associations.
    shared_names: additionally (drawn from a generator of its own, the base specification is the one obtained without
    the flag) 1-3 associations that take the NAME of an earlier association - between the same two asset types with
    other field names, the same types swapped, other types, or differing in one field / a multiplicity / the meta
    only - and, sometimes, a category declared again with other meta."""
    if shared_names:
        return add_shared_names(gen_spec(seed, size, depth), random.Random(seed * 7919 + 13))
    rnd = random.Random(seed)
    nm = Names(rnd)
    ncat = rnd.randint(1, size)
    cats = [{"name": nm.fresh("Cat"), "meta": gen_meta(rnd, 0.3)} for _ in range(ncat)]
    nassets = rnd.randint(1, 1 + 2 * size)
    anames = [nm.fresh("Asset") for _ in range(nassets)]
    fields = [nm.fresh("fld") for _ in range(rnd.randint(2, 5))]
    assets = []
    interleave = rnd.random() < 0.1
    for i, an in enumerate(anames):
        cat = rnd.choice(cats)["name"] if interleave else cats[min(i * ncat // nassets, ncat - 1)]["name"]
        vnames = [nm.fresh("v") for _ in range(rnd.choice((0, 0, 1, 2)))]
        snames = [nm.fresh("st") for _ in range(rnd.randint(0, 1 + size))]
        all_steps = snames or ["other"]
        variables = [(v, gen_expr(rnd, rnd.randint(0, depth), fields, vnames, anames)) for v in vnames]
        steps = []
        for sn in snames:
            ty = rnd.choice(list(STEP_SYMBOL))
            risk = None
            if rnd.random() < 0.3:
                bits = rnd.randint(1, 7)
                risk = mk_risk(bits & 1, bits & 2, bits & 4)
            steps.append(mk_step(
                sn, ty, tags=[nm.fresh("tag") for _ in range(rnd.choice((0, 0, 1, 2)))], risk=risk,
                ttc=gen_ttc(rnd, rnd.randint(0, 3)) if rnd.random() < 0.5 else None, meta=gen_meta(rnd, 0.3),
                requires=[gen_expr(rnd, rnd.randint(0, depth), fields, vnames, anames) for _ in range(rnd.randint(1, 3))]
                if ty in ("exist", "notExist") and rnd.random() < 0.8 else None,
                reaches=[gen_reach(rnd, rnd.randint(0, depth), fields, vnames, anames, all_steps)
                         for _ in range(rnd.randint(1, 3))] if rnd.random() < 0.7 else None,
                overrides=rnd.random() < 0.6))
        assets.append(mk_asset(an, cat, abstract=rnd.random() < 0.25,
                               sup=rnd.choice(anames[:i]) if i and rnd.random() < 0.4 else None,
                               meta=gen_meta(rnd, 0.3), variables=variables, steps=steps))
    if not interleave:
        used = [c for c in cats if any(a["category"] == c["name"] for a in assets)]
        if rnd.random() < 0.8:
            cats = used                     # otherwise keep categories without assets
    assocs = []
    for _ in range(rnd.randint(0, 2 * size)):
        assocs.append(mk_assoc(nm.fresh("Link"), rnd.choice(anames), rnd.choice(fields), rnd.choice(MULTS),
                               rnd.choice(anames), rnd.choice(fields), rnd.choice(MULTS), meta=gen_meta(rnd, 0.3)))
    defines = {"id": rnd.choice(("org.verif.comp", "x", "org.mal-lang.test_1")), "version": rnd.choice(("0.0.1", "1.0.0", "12.3.4-rc1"))}
    if rnd.random() < 0.1:
        defines["extra_1"] = "some text"
    return mk_spec(assets, assocs, categories=cats, defines=defines)


SHARED_NAME_MODES = ["same-types-other-fields", "same-types-other-fields", "swapped-types", "other-types",
                     "left-field-only", "right-field-only", "multiplicity-only", "meta-only"]


def variant_assoc(base, mode, k, anames, rnd):
    """an association with the name of `base` that differs from it as `mode` says (k makes fresh field names)"""
    x = copy.deepcopy(base)
    if mode == "same-types-other-fields":
        x["leftField"], x["rightField"] = "lf_%d" % k, "rf_%d" % k
        if rnd.random() < 0.5:
            x["leftMultiplicity"] = dict(zip(("min", "max"), rnd.choice(MULTS)))
        if rnd.random() < 0.3:
            x["meta"] = {"developer": "variant %d" % k}
    elif mode == "swapped-types":
        x["leftAsset"], x["rightAsset"] = base["rightAsset"], base["leftAsset"]
        if base["rightAsset"] == base["leftAsset"] or rnd.random() < 0.5:
            x["leftField"], x["rightField"] = base["rightField"], base["leftField"]
            if x == base:
                x["rightField"] = "rf_%d" % k
    elif mode == "other-types":
        x["rightAsset"] = rnd.choice(anames)
        x["leftField"], x["rightField"] = "lf_%d" % k, "rf_%d" % k
    elif mode == "left-field-only":
        x["leftField"] = "lf_%d" % k
    elif mode == "right-field-only":
        x["rightField"] = "rf_%d" % k
    elif mode == "multiplicity-only":
        lo, hi = base["rightMultiplicity"]["min"], base["rightMultiplicity"]["max"]
        x["rightMultiplicity"] = {"min": lo + 1, "max": None if hi is None else hi + 1}
    elif mode == "meta-only":
        x["meta"] = dict(base["meta"]); x["meta"]["note_1"] = "variant %d" % k
    else:
        raise ValueError(mode)
    return x


def add_shared_names(spec, rnd):
    spec = copy.deepcopy(spec)
    anames = [a["name"] for a in spec["assets"]]
    assocs = spec["associations"]
    if not assocs:
        assocs.append(mk_assoc("Shared", rnd.choice(anames), "lf_0", rnd.choice(MULTS), rnd.choice(anames), "rf_0",
                               rnd.choice(MULTS)))
    for k in range(1, rnd.randint(1, 3) + 1):
        x = variant_assoc(rnd.choice(assocs), rnd.choice(SHARED_NAME_MODES), k, anames, rnd)
        if x not in assocs:
            assocs.insert(rnd.randint(0, len(assocs)), x)
    if spec["categories"] and rnd.random() < 0.35:
        c = rnd.choice(spec["categories"])
        again = {"name": c["name"], "meta": dict(c["meta"])}
        again["meta"][rnd.choice(META_KEYS)] = "declared again %d" % rnd.randrange(100)
        if again not in spec["categories"]:
            spec["categories"].insert(rnd.randint(0, len(spec["categories"])), again)
    return spec


# ---- enumerations (exhaustive small scopes) ---------------------------------------------------------

def enum_shared_name_assocs():
    """every pair (first association, second association) where the second one agrees with / differs from the first
    in each of: name, (left, right) asset types (same, swapped, reflexive on either type), left field, right field,
    multiplicities, meta -- except the pair of two equal associations (which denotes ONE association); and the same
    with a third association between the two that shares only the name."""
    first = mk_assoc("Conn", "Host", "a1", (0, None), "Net", "b1", (0, 1))
    for name in ("Conn", "Other"):
        for (l, r) in (("Host", "Net"), ("Net", "Host"), ("Host", "Host"), ("Net", "Net")):
            for lf in ("a1", "a2"):
                for rf in ("b1", "b2"):
                    for rm in ((0, 1), (1, None)):
                        for meta in ({}, {"user": "second"}):
                            second = mk_assoc(name, l, lf, (0, None), r, rf, rm, meta=meta)
                            if second == first:
                                continue
                            yield [first, second]
                            if lf == "a2" and rm == (0, 1) and not meta:
                                yield [first, mk_assoc("Conn", "Net", "c1", (1, 1), "Net", "c2", (0, None)), second]
                                yield [second, first, copy.deepcopy(second) | {"leftField": "a3", "rightField": "b3"}]


def spec_with_assocs(assocs):
    return mk_spec([mk_asset("Host"), mk_asset("Net", sup="Host")], assocs)


def enum_redeclared_categories():
    """categories entries that share their name and differ in their meta (by a value, by a key, empty / non-empty),
    2 or 3 entries, with / without assets, adjacent or separated by another category"""
    metas = [{}, {"user": "x"}, {"user": "y"}, {"developer": "x"}, {"user": "x", "developer": "d"}]
    for i, m1 in enumerate(metas):
        for m2 in metas:
            if m1 == m2:
                continue
            for with_assets in (False, True):
                assets = [mk_asset("Host", category="Cat")] if with_assets else []
                yield mk_spec(assets, categories=[{"name": "Cat", "meta": m1}, {"name": "Cat", "meta": m2}])
            if i < 2:
                yield mk_spec([mk_asset("Host", category="Cat"), mk_asset("Net", category="Mid"), mk_asset("X1", category="Cat")],
                              [mk_assoc("Conn", "Host", "a1", (0, None), "Net", "b1", (0, 1))],
                              categories=[{"name": "Cat", "meta": m1}, {"name": "Mid", "meta": {}}, {"name": "Cat", "meta": m2},
                                          {"name": "Cat", "meta": {"note_1": "third"}}])



def enum_ttc(max_ops, leaves=None):
    """every TTC tree with <= max_ops binary operators over the five operators; the k-th leaf (left to right) is a
    fixed, distinct atom so that any mis-association / dropped factor is visible"""
    leaves = leaves or [fn("Exponential", 0.1), num(2), fn("Bernoulli", 0.5), fn("Enabled"), num(0.25), fn("Gamma", 1.5, 3)]
    ops = ["addition", "subtraction", "multiplication", "division", "exponentiation"]

    def shapes(n):          # binary tree shapes with n internal nodes
        if n == 0:
            yield None
            return
        for l in range(n):
            for a in shapes(l):
                for b in shapes(n - 1 - l):
                    yield (a, b)

    def fill(shape, it_ops, counter):
        if shape is None:
            k = counter[0]; counter[0] += 1
            return copy.deepcopy(leaves[k % len(leaves)])
        op = next(it_ops)
        l = fill(shape[0], it_ops, counter)
        r = fill(shape[1], it_ops, counter)
        return binop(op, l, r)

    import itertools
    for n in range(0, max_ops + 1):
        for sh in shapes(n):
            for opsel in itertools.product(ops, repeat=n):
                yield fill(sh, iter(opsel), [0])


def enum_exprs(depth):
    """every field-valued expression of nesting depth <= depth over {collect, union, intersection, difference} x
    {transitive, subType} with leaves {field, variable}; leaf names are assigned left to right afterwards"""
    if depth == 0:
        return [field("?"), var("?")]
    lower = enum_exprs(depth - 1)
    out = list(lower)
    exact = [e for e in lower if expr_depth(e) == depth - 1]
    for op in ("collect", "union", "intersection", "difference"):
        for a in lower:
            for b in lower:
                if expr_depth(a) == depth - 1 or expr_depth(b) == depth - 1:
                    out.append(binop(op, a, b))
    for a in exact:
        out.append(trans(a))
        out.append(sub("T", a))
    return out


def expr_depth(e):
    t = e["type"]
    if t in ("field", "variable", "attackStep"):
        return 0
    if t in ("transitive", "subType"):
        return 1 + expr_depth(e["stepExpression"])
    return 1 + max(expr_depth(e["lhs"]), expr_depth(e["rhs"]))


def rename_leaves(e, counter=None):
    """fresh copy with distinct leaf names f1, v2, ... in textual order; subtypes T1, T2, ..."""
    counter = counter if counter is not None else [0]
    t = e["type"]
    if t in ("field", "variable", "attackStep"):
        counter[0] += 1
        return {"type": t, "name": ("v%d" if t == "variable" else "f%d") % counter[0]}
    if t == "transitive":
        return trans(rename_leaves(e["stepExpression"], counter))
    if t == "subType":
        inner = rename_leaves(e["stepExpression"], counter)
        counter[0] += 1
        return sub("T%d" % counter[0], inner)
    l = rename_leaves(e["lhs"], counter)
    r = rename_leaves(e["rhs"], counter)
    return binop(t, l, r)


def spec_with_ttc(t):
    return mk_spec([mk_asset("Host", steps=[mk_step("s", "or", ttc=t)])])


def spec_with_expr(e, where):
    """where: let | requires | reaches | reaches-ext | reaches-second"""
    if where == "let":
        a = mk_asset("Host", variables=[("w", e)], steps=[mk_step("s", "or")])
    elif where == "requires":
        a = mk_asset("Host", steps=[mk_step("s", "exist", requires=[e, field("g")])])
    elif where == "reaches":
        a = mk_asset("Host", steps=[mk_step("s", "or", reaches=[binop("collect", e, astep("t"))])])
    elif where == "reaches-ext":
        a = mk_asset("Host", steps=[mk_step("s", "and", reaches=[binop("collect", e, astep("t"))], overrides=False)])
    elif where == "reaches-second":
        # a plain step first, then the expression, then another plain step: the classification must look at the
        # current expression only
        a = mk_asset("Host", steps=[mk_step("s", "or", reaches=[astep("u"), binop("collect", e, astep("t")), astep("w")])])
    else:
        raise ValueError(where)
    return mk_spec([a])


def valid_mini():
    """a small language whose fields, steps, variables and types resolve (LanguageGraph can be built from it)"""
    host = mk_asset("Host", "Compute", meta={"user": "a machine"}, variables=[
        ("reach", binop("union", field("children"), binop("collect", field("nets"), field("hosts")))),
    ], steps=[
        mk_step("access", "or", tags=["entry"], risk=mk_risk(True, True, False), ttc=fn("Exponential", 0.1),
                reaches=[binop("collect", field("nets"), astep("sniff")),
                         binop("collect", binop("collect", binop("collect", var("reach"), field("nets")), sub("Server", field("hosts"))), astep("deny")),
                         binop("collect", trans(field("children")), astep("access"))]),
        mk_step("deny", "and", risk=mk_risk(False, False, True), reaches=[astep("access")]),
        mk_step("hardened", "defense", ttc=fn("Disabled"), reaches=[astep("deny")]),
        mk_step("hasNet", "exist", requires=[field("nets")], reaches=[astep("access")]),
        mk_step("noNet", "notExist", requires=[field("nets")], reaches=[astep("deny")]),
    ])
    server = mk_asset("Server", "Compute", sup="Host", steps=[
        mk_step("access", "or", reaches=[binop("collect", binop("difference", field("nets"), field("nets")), astep("sniff"))], overrides=False),
    ])
    net = mk_asset("Net", "Networking", steps=[
        mk_step("sniff", "or", ttc=binop("addition", fn("Exponential", 0.5), fn("Gamma", 1.5, 2)),
                reaches=[binop("collect", binop("intersection", field("hosts"), field("hosts")), astep("access"))]),
    ])
    return mk_spec([host, server, net], [
        mk_assoc("Attached", "Host", "hosts", (0, None), "Net", "nets", (0, None), meta={"developer": "n:m"}),
        mk_assoc("Tree", "Host", "parent", (0, 1), "Host", "children", (0, None)),
    ], categories=[{"name": "Compute", "meta": {}}, {"name": "Networking", "meta": {"user": "nets"}}])


def valid_mini_shared_names():
    """valid_mini plus associations that share name AND both asset types with an existing one and differ in their
    field names (the toolbox tells such associations apart by their fields); the new fields are used by steps"""
    spec = valid_mini()
    host = spec["assets"][0]
    host["attackSteps"].append(mk_step("spread", "or", reaches=[
        binop("collect", field("backupNets"), astep("sniff")),
        binop("collect", binop("union", field("replicas"), field("children")), astep("access"))]))
    spec["associations"][1:1] = [
        mk_assoc("Attached", "Host", "backupHosts", (0, 1), "Net", "backupNets", (1, None), meta={"developer": "second Attached"}),
    ]
    spec["associations"].append(mk_assoc("Tree", "Host", "primary", (0, 1), "Host", "replicas", (0, None)))
    return spec


# ---- coreLang ---------------------------------------------------------------------------------------

CORELANG_MAR = "tests/testdata/org.mal-lang.coreLang-1.0.0.mar"


def repo_root():
    import maltoolbox
    return os.path.dirname(os.path.dirname(os.path.abspath(maltoolbox.__file__)))


_CACHE = {}


def load_corelang():
    if "core" not in _CACHE:
        p = os.path.join(repo_root(), CORELANG_MAR)
        if not os.path.exists(p):
            p = os.path.join("/repo", CORELANG_MAR)
        with zipfile.ZipFile(p) as z:
            _CACHE["core"] = json.loads(z.read("langspec.json"))
    return copy.deepcopy(_CACHE["core"])


# =====================================================================================================
# C17: grammar oracle and mutation

def lex(text):
    """tokens of the REAL lexer on `text`: list of (type name, text, start offset, stop offset inclusive); the lexer's
    own error messages are swallowed"""
    from antlr4 import InputStream
    from maltoolbox.language.compiler.mal_lexer import malLexer
    lx = malLexer(InputStream(text))
    lx.removeErrorListeners()
    out = []
    while True:
        t = lx.nextToken()
        if t.type == -1:
            break
        out.append((malLexer.symbolicNames[t.type] if 0 < t.type < len(malLexer.symbolicNames) else str(t.type),
                    t.text, t.start, t.stop))
    return out


def grammar_verdict(path):
    """(lexer errors, parser errors, whole input consumed) for ONE file according to the generated lexer/parser with
    counting listeners attached from the harness (the compiler under test is not involved)"""
    from antlr4 import FileStream, CommonTokenStream, Token
    from antlr4.error.ErrorListener import ErrorListener
    from maltoolbox.language.compiler.mal_lexer import malLexer
    from maltoolbox.language.compiler.mal_parser import malParser

    class Count(ErrorListener):
        def __init__(self):
            super().__init__()
            self.n = 0

        def syntaxError(self, recognizer, offendingSymbol, line, column, msg, e):
            self.n += 1

    lc, pc = Count(), Count()
    lexer = malLexer(FileStream(path, encoding="utf-8"))
    lexer.removeErrorListeners(); lexer.addErrorListener(lc)
    stream = CommonTokenStream(lexer)
    parser = malParser(stream)
    parser.removeErrorListeners(); parser.addErrorListener(pc)
    parser.mal()
    consumed = stream.LA(1) == Token.EOF
    return lc.n, pc.n, consumed


INSERT_TOKENS = ["{", "}", "(", ")", "[", "]", ",", ".", "->", "+>", "<-", "-->", "<--", "..", ":", "=", "\\/", "/\\",
                 "-", "*", "@", "+", "^", "/", "#", "|", "&", "!E", "E", "C", "asset", "category", "let", "info",
                 "abstract", "extends", "include", "associations", "zz", "7", "0.5", "\"str\"", "$", "\"", "?", "!"]
RESERVED_WORDS = ["asset", "category", "let", "info", "abstract", "extends", "include", "associations", "E", "C", "I", "A"]


def mutants_of(text, seed, per_kind=None):
    """yield (how, mutated text).  Token boundaries come from the real lexer; the text between tokens is kept."""
    toks = lex(text)
    rnd = random.Random(seed)
    n = len(toks)
    idx = list(range(n))

    def pick(k):
        if per_kind is None or k >= n:
            return idx
        return sorted(rnd.sample(idx, k))

    for i in pick(per_kind or n):
        ty, tx, a, b = toks[i]
        yield ("delete token %d %s %r" % (i, ty, tx[:20]), text[:a] + text[b + 1:])
    for i in pick(per_kind or n):
        ty, tx, a, b = toks[i]
        for ins in ([rnd.choice(INSERT_TOKENS) for _ in range(2)] if per_kind else rnd.sample(INSERT_TOKENS, 4)):
            yield ("insert %r before token %d %s" % (ins, i, ty), text[:a] + " " + ins + " " + text[a:])
    for i in pick(per_kind or n):
        ty, tx, a, b = toks[i]
        if i + 1 < n:
            yield ("truncate after token %d %s" % (i, ty), text[:b + 1] + "\n")
        if b > a:
            yield ("truncate inside token %d %s" % (i, ty), text[:a + (b - a + 1) // 2])
    for i in pick(per_kind or n):
        ty, tx, a, b = toks[i]
        if ty == "ID":
            w = rnd.choice(RESERVED_WORDS)
            yield ("reserved word %r for ID at token %d" % (w, i), text[:a] + w + text[b + 1:])
    opens = {"{": "}", "(": ")", "[": "]"}
    for i in range(n):
        ty, tx, a, b = toks[i]
        if tx in opens or tx in opens.values():
            yield ("unbalanced: drop %r at token %d" % (tx, i), text[:a] + text[b + 1:])
            yield ("unbalanced: double %r at token %d" % (tx, i), text[:a] + tx + " " + tx + text[b + 1:])
            if tx in opens:
                yield ("unbalanced: %r becomes %r at token %d" % (tx, opens[tx], i), text[:a] + opens[tx] + text[b + 1:])
